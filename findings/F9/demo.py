"""C08 on the unchanged tree: a send() cancelled between the V3 handshake request and its response (the device answers every packet
after 50 ms - promptly against the 2 s read timeout) leaves the connection open with the handshake in flight; the next exchange fails with
ProtocolError although the device answers everything, and it does so without any user intervention being possible beforehand."""
import asyncio
import os
import sys
from hashlib import sha256

sys.path.insert(0, os.getcwd())

import msmart  # noqa: E402
from msmart.lan import LAN, Security, _Packet  # noqa: E402

assert os.path.dirname(os.path.abspath(msmart.__file__)) == os.path.join(
    os.getcwd(), "msmart"), msmart.__file__

DEVICE_ID = 0x112233445566
TOKEN = bytes(range(64))
KEY = bytes(range(100, 132))
REQUEST = bytes.fromhex(
    "aa21ac8d000000000003418100ff03ff000200000000000000000000000003016971")
RESPONSE = bytes.fromhex(
    "aa22ac00000000000303c0014566000000300010045cff2070000000000000008bed19")


class FakeTransport(asyncio.Transport):
    """In-memory transport connected to a fake, promptly responding V3 device."""

    def __init__(self, net, protocol):
        super().__init__()
        self.net = net
        self.protocol = protocol
        self.closing = False
        self.lost = False
        self.local_key = None
        self.handshakes = 0

    def get_extra_info(self, name, default=None):
        return ("10.0.0.1", 6444) if name == "peername" else default

    def is_closing(self):
        return self.closing

    def _lose(self, exc):
        if not self.lost:
            self.lost = True
            self.protocol.connection_lost(exc)

    def close(self):
        if not self.closing:
            self.closing = True
            asyncio.get_running_loop().call_soon(self._lose, None)

    def peer_close(self):
        self.closing = True
        self._lose(None)

    def _deliver(self, data):
        if not self.closing:
            self.protocol.data_received(data)

    def write(self, data):
        assert not self.closing
        assert data[:2] == b"\x83\x70" and data[4] == 0x20
        assert len(data) == int.from_bytes(data[2:4], "big") + 8
        packet_type = data[5] & 0xF
        packet_id = data[6:8]

        if packet_type == 0x0:
            # Handshake request: id + token
            assert data[8:] == TOKEN
            self.handshakes += 1
            plain = bytes([self.handshakes]) * 32
            self.local_key = bytes(a ^ b for a, b in zip(plain, KEY))
            body = packet_id + \
                Security.encrypt_aes_cbc(KEY, plain) + sha256(plain).digest()
            reply = b"\x83\x70" + \
                (len(body) - 2).to_bytes(2, "big") + b"\x20\x01" + body
        elif packet_type == 0x6:
            # Encrypted request: only answer what decrypts under the session key
            if self.local_key is None:
                return
            header, payload, rx_hash = data[:6], data[6:-32], data[-32:]
            plain = Security.decrypt_aes_cbc(self.local_key, payload)
            if sha256(header + plain).digest() != rx_hash:
                return
            pad = header[5] >> 4
            assert _Packet.decode(plain[2:len(plain) - pad]) == REQUEST
            self.net.requests += 1

            inner = _Packet.encode(DEVICE_ID, RESPONSE)
            remainder = (len(inner) + 2) % 16
            pad = 16 - remainder if remainder else 0
            header = b"\x83\x70" + \
                (len(inner) + pad + 32).to_bytes(2, "big") + \
                b"\x20" + bytes([pad << 4 | 0x3])
            plain = packet_id + inner + bytes(pad)
            reply = header + \
                Security.encrypt_aes_cbc(self.local_key, plain) + \
                sha256(header + plain).digest()
        else:
            raise AssertionError(f"unexpected packet type {packet_type}")

        asyncio.get_running_loop().call_later(self.net.delay, self._deliver, reply)


class FakeNet:
    def __init__(self):
        self.connections = []
        self.requests = 0
        self.delay = 0.05

    async def create_connection(self, factory, host, port, **kwargs):
        protocol = factory()
        transport = FakeTransport(self, protocol)
        self.connections.append(transport)
        protocol.connection_made(transport)
        return transport, protocol



async def main():
    net = FakeNet()
    asyncio.get_running_loop().create_connection = net.create_connection
    lan = LAN("10.0.0.1", 6444, DEVICE_ID)
    await lan.authenticate(TOKEN, KEY)          # credentials cached, session up
    assert await lan.send(REQUEST) == [RESPONSE]
    net.connections[-1].peer_close()            # connection lost while idle
    await asyncio.sleep(0.01)
    # exchange 1: reconnects, writes the handshake request, cancelled 20 ms later (the response is due at 50 ms)
    task = asyncio.ensure_future(lan.send(REQUEST))
    await asyncio.sleep(0.02)
    task.cancel()
    try:
        await task
    except (asyncio.CancelledError, TimeoutError):
        pass
    # exchange 2: the device answers every packet within 50 ms
    try:
        responses = await lan.send(REQUEST)
    except Exception as e:
        print("next exchange after a cancelled one FAILED:", type(e).__name__, e)
        return 1
    assert responses == [RESPONSE], responses
    print("next exchange after a cancelled one succeeded")
    return 0

sys.exit(asyncio.run(main()))
