#!/bin/sh
# tools/nf_prepare.sh <name> [patch]  -> /tmp/nfd/<name> (scratch copy of /repo HEAD with the variant applied; remove when done)
#   patch defaults to /verif/neutral/<name>/patch.diff; for campaign output give e.g. /tmp/refactors3/C05/r1/patch.diff
set -e
d=/tmp/nfd/$1
rm -rf "$d"; mkdir -p "$d"
git -C /repo archive HEAD | tar -x -C "$d"
cd "$d" && git apply --whitespace=nowarn "${2:-/verif/neutral/$1/patch.diff}"
echo "$d"
