#!/bin/sh
# tools/nf_prepare.sh <neutral-name>  -> /tmp/nfd/<name> (scratch copy with the variant applied; remove when done)
set -e
d=/tmp/nfd/$1
rm -rf "$d"; mkdir -p "$d"
git -C /repo archive HEAD msmart reference | tar -x -C "$d"
cd "$d" && git apply --whitespace=nowarn /verif/neutral/$1/patch.diff
echo "$d"
