#!/venv/bin/python
"""Systematic recall measurement: syntactic mutants of the package, filtered by the test suite, against all 20 checks.

The sub-agent campaigns (seeded/) sample *realistic* breaking changes; this tool sweeps the other axis - every small syntactic change of
every function the checks anchor - and asks, for each mutant the 65 baseline tests do not notice, whether any check reports it.  A silent
survivor is either an equivalent / property-irrelevant mutant or a gap; those are triaged by hand (and by fresh sub-agents given only the
patch and the property texts), see DESIGN.md 8.8.  Nothing here is part of a registered check; it runs the test suite on throw-away copies.

  tools/mutate.py gen [--files a.py,b.py]      list mutants                       -> /tmp/mut/mutants.json
  tools/mutate.py run [--limit N] [--only-op X] tests, then ./check all on survivors (16 jobs)  -> /tmp/mut/results.json
  tools/mutate.py report                       summary by operator / function; silent survivors -> /tmp/mut/silent.md
  tools/mutate.py patch <id>                   print the mutant as a unified diff
"""
import ast
import difflib
import json
import os
import re
import shutil
import subprocess
import sys
from concurrent.futures import ThreadPoolExecutor

VERIF = os.path.dirname(os.path.dirname(os.path.abspath(__file__)))
TMP = "/tmp/mut"
FILES = ["msmart/lan.py", "msmart/frame.py", "msmart/crc8.py", "msmart/base_device.py", "msmart/device/AC/command.py", "msmart/device/AC/device.py",
         "msmart/discover.py", "msmart/cloud.py", "msmart/cli.py", "msmart/utils.py", "msmart/const.py"]
BASELINE = json.load(open("/root/.vp/BASELINE.json"))["stable_pass"]

CMP = {"<": "<=", "<=": "<", ">": ">=", ">=": ">", "==": "!=", "!=": "==", "is not": "is", "is": "is not", "in": "not in", "not in": "in"}
BIN = {"+": "-", "-": "+", "&": "|", "|": "&", "<<": ">>", ">>": "<<", "^": "|", "*": "+", "//": "*", "%": "//", "/": "*"}


def sh(cmd, timeout=600):
    try:
        p = subprocess.run(cmd, shell=True, capture_output=True, text=True, timeout=timeout)
        return p.returncode, p.stdout + p.stderr
    except subprocess.TimeoutExpired:
        return 124, "timeout"


class Src:
    def __init__(self, path):
        self.data = open(path, "rb").read()
        self.starts = [0]
        for i, b in enumerate(self.data):
            if b == 10:
                self.starts.append(i + 1)

    def off(self, line, col):
        return self.starts[line - 1] + col

    def span(self, node):
        return self.off(node.lineno, node.col_offset), self.off(node.end_lineno, node.end_col_offset)

    def text(self, a, b):
        return self.data[a:b].decode("utf8")


def gen_file(rel):
    s = Src(f"/repo/{rel}")
    tree = ast.parse(s.data)
    out = []
    par = {}
    for n in ast.walk(tree):
        for c in ast.iter_child_nodes(n):
            par[c] = n

    def fn_of(n):
        names = []
        while n in par:
            n = par[n]
            if isinstance(n, (ast.FunctionDef, ast.AsyncFunctionDef, ast.ClassDef)):
                names.append(n.name)
        return ".".join(reversed(names)) or "<module>"

    def in_message(n):
        """inside a logging call, an exception message, an f-string or a docstring: text for people, not behaviour"""
        x = n
        while x in par:
            p = par[x]
            if isinstance(p, ast.JoinedStr):
                return True
            if isinstance(p, ast.Call) and isinstance(p.func, ast.Attribute) and isinstance(p.func.value, ast.Name) and p.func.value.id in ("_LOGGER", "logging", "logger"):
                return True
            if isinstance(p, ast.Raise) and x is p.exc and isinstance(x, ast.Call) and n is not x:
                return True
            if isinstance(p, ast.Call) and isinstance(p.func, ast.Name) and p.func.id == "print":
                return True
            x = p
        return False

    def add(op, node, a, b, new, what):
        old = s.text(a, b)
        if old == new:
            return
        out.append({"file": rel, "op": op, "function": fn_of(node), "line": node.lineno, "start": a, "end": b, "old": old, "new": new, "what": what})

    def between(left, right, table):
        a, b = s.off(left.end_lineno, left.end_col_offset), s.off(right.lineno, right.col_offset)
        gap = s.text(a, b)
        # (closing / opening parentheses may sit in the gap)
        for tok in sorted(table, key=len, reverse=True):
            m = re.search(r"(?<![<>=!*/&|^+\-%])" + re.escape(tok) + r"(?![<>=*/&|^+\-%])" if not tok[0].isalpha() else r"\b" + tok.replace(" ", r"\s+") + r"\b", gap)
            if m:
                return a + len(gap[:m.start()].encode()), a + len(gap[:m.end()].encode()), tok
        return None

    for n in ast.walk(tree):
        if isinstance(n, ast.Expr) and isinstance(n.value, ast.Constant) and isinstance(n.value.value, str):
            continue
        if isinstance(n, ast.expr) and in_message(n):
            continue
        if isinstance(n, ast.Compare) and len(n.ops) == 1:
            r = between(n.left, n.comparators[0], CMP)
            if r:
                add("cmp", n, r[0], r[1], CMP[r[2]], f"`{r[2]}` -> `{CMP[r[2]]}`")
            if isinstance(n.ops[0], (ast.Is, ast.IsNot)) and isinstance(n.comparators[0], ast.Constant) and n.comparators[0].value is None and isinstance(n.ops[0], ast.IsNot):
                a, b = s.span(n)
                add("truthy", n, a, b, s.text(*s.span(n.left)), "`x is not None` -> `x`")
        elif isinstance(n, ast.BinOp):
            r = between(n.left, n.right, BIN)
            if r and not (isinstance(n.left, ast.Constant) and isinstance(n.left.value, (str, bytes))) and not isinstance(n.op, ast.Mod) or (r and isinstance(n.op, ast.Mod) and not isinstance(n.left, (ast.Constant, ast.JoinedStr))):
                add("bin", n, r[0], r[1], BIN[r[2]], f"`{r[2]}` -> `{BIN[r[2]]}`")
        elif isinstance(n, ast.BoolOp):
            tab = {"and": "or"} if isinstance(n.op, ast.And) else {"or": "and"}
            r = between(n.values[0], n.values[1], tab)
            if r:
                add("bool", n, r[0], r[1], tab[r[2]], f"`{r[2]}` -> `{tab[r[2]]}`")
        elif isinstance(n, ast.UnaryOp) and isinstance(n.op, ast.Not):
            a, b = s.span(n)
            add("not", n, a, b, "(" + s.text(*s.span(n.operand)) + ")", "`not x` -> `x`")
        elif isinstance(n, ast.Constant) and isinstance(n.value, bool):
            a, b = s.span(n)
            add("const", n, a, b, str(not n.value), f"{n.value} -> {not n.value}")
        elif isinstance(n, ast.Constant) and isinstance(n.value, int):
            a, b = s.span(n)
            txt = s.text(a, b)
            fmt = (lambda v: f"0x{v:0{len(txt) - 2}X}") if txt.lower().startswith("0x") else (lambda v: f"0b{v:b}") if txt.lower().startswith("0b") else str
            add("const", n, a, b, fmt(n.value + 1), f"{txt} -> {fmt(n.value + 1)}")
            if n.value > 0:
                add("const", n, a, b, fmt(n.value - 1), f"{txt} -> {fmt(n.value - 1)}")
        elif isinstance(n, ast.Constant) and n.value in ("big", "little"):
            a, b = s.span(n)
            q = s.text(a, b)[0]
            other = "little" if n.value == "big" else "big"
            add("endian", n, a, b, q + other + q, f"{n.value} -> {other}")
        elif isinstance(n, ast.Await):
            a, b = s.span(n)
            add("await", n, a, b, s.text(*s.span(n.value)), "await dropped")
        elif isinstance(n, ast.If):
            a, b = s.span(n.test)
            add("ifneg", n, a, b, "not (" + s.text(a, b) + ")", "condition negated")
        elif isinstance(n, (ast.Break, ast.Continue)):
            a, b = s.span(n)
            add("loopctl", n, a, b, "continue" if isinstance(n, ast.Break) else "break", "break <-> continue")
        if isinstance(n, (ast.Expr, ast.Assign, ast.AugAssign, ast.Raise)) and not (isinstance(n, ast.Expr) and isinstance(n.value, ast.Constant)):
            if isinstance(n, ast.Expr) and isinstance(n.value, ast.Call) and isinstance(n.value.func, ast.Attribute) and isinstance(n.value.func.value, ast.Name) \
                    and n.value.func.value.id in ("_LOGGER", "logging"):
                continue
            if fn_of(n) == "<module>" or (isinstance(par.get(n), ast.ClassDef)):
                continue
            a, b = s.span(n)
            add("delete", n, a, b, "pass", f"statement `{s.text(a, b).splitlines()[0][:60]}` removed")
        if isinstance(n, ast.Return) and n.value is not None and not (isinstance(n.value, ast.Constant) and n.value.value is None):
            a, b = s.span(n)
            add("retnone", n, a, b, "return None", "returns None")
    return out


def gen(files):
    ms = []
    for rel in files:
        ms += gen_file(rel)
    # the mutant must still compile
    ok = []
    for i, m in enumerate(ms):
        data = open(f"/repo/{m['file']}", "rb").read()
        new = data[:m["start"]] + m["new"].encode() + data[m["end"]:]
        try:
            compile(new, m["file"], "exec")
        except SyntaxError:
            continue
        m["id"] = f"m{len(ok):05d}"
        ok.append(m)
    os.makedirs(TMP, exist_ok=True)
    json.dump(ok, open(f"{TMP}/mutants.json", "w"), indent=0)
    by = {}
    for m in ok:
        by[m["op"]] = by.get(m["op"], 0) + 1
    print(f"{len(ok)} mutants ({len(ms) - len(ok)} do not compile): {by}")


def mutated(m):
    data = open(f"/repo/{m['file']}", "rb").read()
    return data[:m["start"]] + m["new"].encode() + data[m["end"]:]


def tests_missing(d):
    rc, out = sh(f"cd {d} && timeout 300 /venv/bin/python -m pytest -q -p no:cacheprovider -rA -x --deselect msmart/tests/test_cloud.py 2>&1 | grep -E '^(PASSED|FAILED|ERROR)'", 400)
    passed = set()
    for line in out.splitlines():
        if line.startswith("PASSED"):
            mod, _, rest = line.split()[1].partition("::")
            passed.add(mod[:-3].replace("/", ".") + "." + rest)
    return [t for t in BASELINE if t not in passed and ".test_cloud." not in t]


def one(m):
    d = f"{TMP}/w/{m['id']}"
    shutil.rmtree(d, ignore_errors=True)
    os.makedirs(d)
    sh(f"git -C /repo archive HEAD | tar -x -C {d}")
    open(f"{d}/{m['file']}", "wb").write(mutated(m))
    res = {"id": m["id"]}
    miss = [] if os.environ.get("MUT_SKIP_TESTS") else tests_missing(d)          # (re-runs of known survivors skip the suite)
    res["killed_by_tests"] = bool(miss)
    if not miss:
        rc, out = sh(f"cd {VERIF} && ./check all --root {d} --no-write", 900)
        res["check_rc"] = rc
        rules = sorted({l.split()[0] for l in out.splitlines() if l.startswith("  C") and " -- " in l})
        res["rules"] = rules[:12]
        res["refused"] = sorted({l.split("property=")[1].split()[0] for l in out.splitlines() if l.startswith("ANALYSIS-ERROR") and "property=" in l})
    shutil.rmtree(d, ignore_errors=True)
    return res


def run(argv):
    ms = json.load(open(f"{TMP}/mutants.json"))
    if "--only-op" in argv:
        op = argv[argv.index("--only-op") + 1]
        ms = [m for m in ms if m["op"] == op]
    if "--files" in argv:
        fs = argv[argv.index("--files") + 1].split(",")
        ms = [m for m in ms if m["file"] in fs]
    if "--ids" in argv:
        want = set(argv[argv.index("--ids") + 1].split(","))
        ms = [m for m in ms if m["id"] in want]
        done_path = f"{TMP}/results.json"
        if os.path.exists(done_path):
            keep = [r for r in json.load(open(done_path)) if r["id"] not in want]
            json.dump(keep, open(done_path, "w"))
    if "--limit" in argv:
        import random
        random.Random(1).shuffle(ms)
        ms = ms[:int(argv[argv.index("--limit") + 1])]
    done = {}
    if os.path.exists(f"{TMP}/results.json"):
        done = {r["id"]: r for r in json.load(open(f"{TMP}/results.json"))}
    todo = sorted((m for m in ms if m["id"] not in done), key=lambda m: (m["op"] == "const", m["id"]))          # constants last (half of all mutants)
    print(f"{len(todo)} to run ({len(done)} cached)", flush=True)
    with ThreadPoolExecutor(int(os.environ.get('MUT_JOBS', '14'))) as ex:
        for i, r in enumerate(ex.map(one, todo)):
            done[r["id"]] = r
            if i % 100 == 99:
                json.dump(list(done.values()), open(f"{TMP}/results.json", "w"))
                print(f"  {i + 1}/{len(todo)}", flush=True)
    json.dump(list(done.values()), open(f"{TMP}/results.json", "w"))
    shutil.rmtree(f"{TMP}/w", ignore_errors=True)


def patch_of(m):
    old = open(f"/repo/{m['file']}", "rb").read().decode().splitlines(keepends=True)
    new = mutated(m).decode().splitlines(keepends=True)
    return "".join(difflib.unified_diff(old, new, f"a/{m['file']}", f"b/{m['file']}", n=3))


def _classify(m, trees, analysed):
    """coarse, automatic triage of a silent survivor (the rest is read by a person)"""
    q = m["file"][:-3].replace("/", ".") + "." + m["function"]
    if q not in analysed:
        return "outside the functions any check analyses"
    s, tree, par = trees[m["file"]]

    def logs_only(body):
        return all((isinstance(x, ast.Expr) and isinstance(x.value, ast.Call) and isinstance(x.value.func, ast.Attribute) and isinstance(x.value.func.value, ast.Name)
                    and x.value.func.value.id in ("_LOGGER", "logging")) or isinstance(x, ast.Pass) for x in body)
    for n in ast.walk(tree):
        if isinstance(n, ast.If) and logs_only(n.body) and logs_only(n.orelse):
            a, b = s.span(n.test)
            if a <= m["start"] and m["end"] <= b + 4:
                return "condition of a branch that only logs"
        if isinstance(n, ast.Call):
            fn_ = ast.unparse(n.func)
            for arg in list(n.args) + [k.value for k in n.keywords if k.arg in ("timeout", "delay")]:
                a, b = s.span(arg)
                if a <= m["start"] and m["end"] <= b and (fn_.endswith("sleep") or fn_.endswith("wait_for") or any(k.arg == "timeout" and k.value is arg for k in n.keywords)):
                    return "a delay / timeout value (no property quantifies over it)"
        if isinstance(n, (ast.FunctionDef, ast.AsyncFunctionDef)):
            for d in n.args.defaults + [x for x in n.args.kw_defaults if x is not None]:
                a, b = s.span(d)
                if a <= m["start"] and m["end"] <= b and any(p.arg in ("timeout", "retries") for p in n.args.args + n.args.kwonlyargs):
                    return "a delay / timeout value (no property quantifies over it)"
    if m["op"] == "retnone" and m["old"].strip() in ("return False", "return 0", "return []", "return {}"):
        return "returns None for another falsy value"
    return "to read"


def report():
    import glob
    ms = {m["id"]: m for m in json.load(open(f"{TMP}/mutants.json"))}
    rs = json.load(open(f"{TMP}/results.json"))
    analysed = set()
    for f in glob.glob(f"{VERIF}/evidence/C*.json"):
        analysed |= set(json.load(open(f))["coverage"].get("analysed", {}).get("functions", []))
    trees = {}
    for rel in {m["file"] for m in ms.values()}:
        s_ = Src(f"/repo/{rel}")
        t_ = ast.parse(s_.data)
        trees[rel] = (s_, t_, None)
    klass = {}
    tot = {"killed": 0, "reported": 0, "refused": 0, "silent": 0}
    by_op, by_fn, silent = {}, {}, []
    for r in rs:
        m = ms[r["id"]]
        k = "killed" if r["killed_by_tests"] else "reported" if r.get("rules") else "refused" if r.get("refused") else "silent"
        tot[k] += 1
        by_op.setdefault(m["op"], {}).setdefault(k, 0)
        by_op[m["op"]][k] += 1
        fq = f"{m['file']}:{m['function']}"
        by_fn.setdefault(fq, {}).setdefault(k, 0)
        by_fn[fq][k] += 1
        if k == "silent":
            silent.append(m)
            c_ = _classify(m, trees, analysed)
            klass[c_] = klass.get(c_, 0) + 1
            m["class"] = c_
    print("total:", tot)
    print("silent survivors by class:", klass)
    for op, v in sorted(by_op.items()):
        print(f"  {op:8}", v)
    with open(f"{TMP}/silent.md", "w") as fh:
        for fq in sorted(by_fn):
            v = by_fn[fq]
            fh.write(f"## {fq}  {v}\n")
            for m in silent:
                if f"{m['file']}:{m['function']}" == fq:
                    line = open(f"/repo/{m['file']}", "rb").read()[:m["start"]].count(b"\n") + 1
                    src = open(f"/repo/{m['file']}", "rb").read().decode().splitlines()[line - 1].strip()
                    fh.write(f"- {m['id']} L{line} [{m['op']}] ({m.get('class')}) {m['what']}   | `{src[:110]}`\n")
    print(f"silent survivors listed in {TMP}/silent.md")


if __name__ == "__main__":
    cmd = sys.argv[1] if len(sys.argv) > 1 else "gen"
    if cmd == "gen":
        files = sys.argv[sys.argv.index("--files") + 1].split(",") if "--files" in sys.argv else FILES
        gen(files)
    elif cmd == "run":
        run(sys.argv[2:])
    elif cmd == "report":
        report()
    elif cmd == "patch":
        ms = {m["id"]: m for m in json.load(open(f"{TMP}/mutants.json"))}
        print(patch_of(ms[sys.argv[2]]))
