#!/venv/bin/python
"""Prepare a round of independent sub-agent work (prompts + scratch worktrees); nothing from /verif but the property text is given out.

  tools/campaign.py seeds   <round>     /tmp/seeds<round>/prompt_Cxx.txt,     worktrees /tmp/wt/S<round>_xx
  tools/campaign.py neutral <round>     /tmp/refactors<round>/prompt_Cxx.txt, worktrees /tmp/wt/N<round>_xx
  tools/campaign.py confirm seeds|neutral <round>    16-way: patch applies to /repo HEAD, the 65 baseline tests pass with it, and (seeds) the demo
                                        fails with the patch and passes without it; result in <dir>/confirm.json
  tools/campaign.py import  seeds|neutral <round> [name ...]   copy confirmed variants into /verif/seeded/Cxx-<e,f> or /verif/neutral/Cxx-r<n>
  tools/campaign.py clean               remove every scratch worktree under /tmp/wt

Results are evaluated with tools/regress.py --from <dir> seeded|neutral, confirmed with tools/seeded.py confirm / the baseline tests, and only
then imported under /verif/seeded or /verif/neutral.
"""
import json
import os
import subprocess
import sys

COMMON = '''You have your OWN scratch git worktree of the project at {wt} (a detached checkout). Work ONLY inside {wt} and write your results under {out}/{pid}/. Do NOT read or use anything under /verif, do not touch /repo, and do NOT use `git stash` (the stash is shared between worktrees) - use `git diff > file` and `git checkout -- .` instead. The interpreter with the project's dependencies is /venv/bin/python. The existing test-suite is run like this (it must keep passing):

    cd {wt} && /venv/bin/python -m pytest -q -p no:cacheprovider

(6 cloud tests that need network fail already on the unmodified tree: test_cloud.py::TestNetHomePlusCloud::test_get_token, test_get_token_exception, test_login, test_login_exception and TestSmartHomeCloud::test_login, test_login_exception. Everything else - 65 tests - passes and must still pass with your change.) When running python from {wt}, make sure `import msmart` resolves to {wt}/msmart (put {wt} first on sys.path / PYTHONPATH and check msmart.__file__; /venv has an editable install pointing elsewhere).
Several source files use CRLF line endings (lan.py, command.py, discover.py, frame.py, crc8.py); preserve them when editing (open with newline="").

THE PROPERTY:

  Title: {title}
  Statement: {statement}
  Quantified over: {quant}
'''

SEED = '''You are helping to evaluate a verification tool by acting as a "bug seeder" for the open-source Python project mill1000/midea-msmart (async client for local LAN control of Midea air conditioners).

''' + COMMON + '''
YOUR TASK: produce TWO independent, realistic source changes (call them variant a and variant b) to the library code under {wt}/msmart (not the tests) such that each change
  1. BREAKS the property above (the behaviour described no longer holds for some input / schedule / history),
  2. still compiles and still passes the existing test-suite (same 65 passing tests),
  3. looks like a plausible regression a maintainer could introduce (a refactor gone slightly wrong, an off-by-one, a swapped constant, a dropped guard, a changed order, a wrong mask ...) - not sabotage that is obvious at a glance, and
  4. needs something SPECIFIC to manifest: a particular interleaving, a fault at a particular point, a multi-step sequence of operations, an unusual input value or length, or two cooperating sites that each look fine alone. Avoid changes that ordinary use would expose immediately.
{flavour}

For each variant (a, b) deliver, in {out}/{pid}/<variant>/ :
  - patch.diff : the output of `git -C {wt} diff` for that variant alone (must apply with `git apply` to the pristine checkout; check this),
  - demo.py : a small self-contained program that demonstrates the violation against the real code: it must FAIL (non-zero exit / failing assertion) when run as `cd {wt} && /venv/bin/python {out}/{pid}/<variant>/demo.py` WITH the patch applied and PASS (exit 0) on the pristine checkout. It must put its current working directory first on sys.path (sys.path.insert(0, os.getcwd())) instead of hard-coding {wt}. It may use mocks / in-memory fakes of the network (asyncio transports, fake devices) but must exercise the project's real code. No network access exists.
  - notes.md : 5-10 lines: what the change does, why it breaks the property, and what exactly is needed for it to manifest.
Verify all of this yourself (tests pass with the patch; demo fails with the patch and passes without). At the very end restore the worktree to pristine (`git -C {wt} checkout -- .` and delete untracked files you created there). Your final answer should just list the two variants in one or two sentences each.'''

SEED_FLAVOUR = {
    3: "The two variants must break the property in different ways and at different places: variant a through a change to a VALUE computation (arithmetic, mask, "
       "offset, length, byte order, constant, encoding, type conversion), variant b through a change to STATE or CONTROL (ordering of effects, what is stored or "
       "cleared and when, error handling / exception classes, retry or loop structure, sharing between objects, defaults).",
}

SEED_FLAVOUR[4] = ("The two variants must break the property in different ways and at different places: variant a through TWO COOPERATING SITES that each look fine "
                   "alone (a helper and its caller, an encoder and its decoder, a setter and the consumer of what it stores, a constant and the code that "
                   "assumes its value), variant b in a RARELY EXERCISED BRANCH (an error or retry path, a boundary length or value, an optional / legacy "
                   "feature, the second iteration of a loop, the re-use of an object that is normally fresh).")

NEUTRAL = '''You are helping to evaluate a static verification tool for the open-source Python project mill1000/midea-msmart (async client for local LAN control of Midea air conditioners). Your role: produce BEHAVIOUR-PRESERVING refactorings, so that we can check the tool does not raise false alarms on code that is still correct.

''' + COMMON + '''
The code must KEEP satisfying this property. First find the library code under {wt}/msmart that implements / is responsible for it. Then produce THREE independent refactorings (variants r1, r2, r3) of that code, each the kind of clean-up a maintainer might really do. Make them reasonably substantial (touching 8-40 lines each) and different in kind:
{flavour}

HARD REQUIREMENTS for each variant:
  1. It must preserve the observable behaviour EXACTLY for ALL inputs, schedules and histories - not only the tested ones. The property above must still hold. Think carefully about edge cases (empty inputs, zero padding, boundary values, exception types and the order of side effects that matter). If you are not sure a change is equivalent, do not make it.
  2. The existing test-suite still passes (65 tests). Tests may reference private names: do not rename anything the tests use.
  3. Write a small equivalence check (check.py) that exercises the refactored code against many inputs, comparing with expected results computed independently or recorded from the pristine code, and run it.

For each variant deliver in {out}/{pid}/<variant>/ :
  - patch.diff : `git -C {wt} diff` for that variant alone (must apply with `git apply` to the pristine checkout),
  - notes.md : what was changed and a short argument why behaviour is identical for all inputs.
At the very end restore the worktree to pristine (`git -C {wt} checkout -- .`, remove untracked files). Your final answer: one line per variant.'''

NEUTRAL_FLAVOUR = {
    3: "  r1  RENAME AND MOVE: consistently rename private methods, private attributes, locals and module-level constants that the responsible code uses "
       "(only names no test refers to), and move a piece of the logic across a class or module boundary (a new module-level function, staticmethod, small "
       "helper class or dataclass, or a method moved to the other class involved).\n"
       "  r2  MODERNISE IDIOMS: rewrite the responsible code with different but equivalent Python idioms - `match` statements, walrus, comprehensions or "
       "generator expressions, itertools / functools / operator helpers, dataclass or NamedTuple records, enum features, context managers, "
       "try/else/finally restructuring, f-strings vs format - wherever they fit naturally.\n"
       "  r3  RESHAPE: split the responsible function(s) into two or three steps with intermediate results (or merge steps that were separate), change "
       "the order of independent statements, replace flags by early exits or the reverse, and change how intermediate values are represented "
       "(tuples vs locals, memoryview vs bytes, int vs enum member, precomputed table vs computed value).",
}


NEUTRAL_FLAVOUR[4] = NEUTRAL_FLAVOUR[3]

# round 5: changes in disguise.  Seeds that look like a feature / a refactoring; neutral changes that are real maintenance work (not only
# behaviour-preserving rewrites): what must stay silent is everything under which the property still holds.
SEED_FLAVOUR[5] = ("The two variants must break the property in different ways and at different places: variant a as the SIDE EFFECT OF A SMALL FEATURE OR "
                   "OPTIMISATION a maintainer would plausibly add near the responsible code (a cache, a fast path, an extra optional parameter, a convenience "
                   "default, more logging or diagnostics, support for one more device quirk) - the feature itself is reasonable, the breakage is collateral; "
                   "variant b DISGUISED AS A BEHAVIOUR-PRESERVING REFACTORING (a helper extracted or inlined, a loop turned into a comprehension or the "
                   "reverse, a flag replaced by early exits, a constant table introduced, names changed) that is in fact not equivalent in one corner. The "
                   "commit message a reviewer would expect for each should sound harmless; put that one-line message at the top of notes.md.")
NEUTRAL_FLAVOUR[5] = (
    "  r1  A SMALL FEATURE next to the responsible code that legitimately changes behaviour OUTSIDE the property: for example extra debug / info logging, "
    "a new optional parameter or keyword whose default keeps today's behaviour, an additional public accessor or read-only property, a statistics "
    "counter, one more recognised (but unused by the property) enum member or device attribute, better error messages (same exception classes), type "
    "hints and docstrings. The property must still hold exactly as stated, and nothing the property talks about may change.\n"
    "  r2  A PERFORMANCE OR ROBUSTNESS CHANGE that keeps the property: avoiding copies (memoryview / slices / joins), precomputing a table or constant, "
    "caching something that cannot go stale, hoisting work out of a loop, replacing a linear search by a lookup, defensive checks that can never fire "
    "for the inputs the property quantifies over and reject nothing that was accepted before.\n"
    "  r3  A LARGE MIXED CLEAN-UP in one patch, the kind that lands after a style discussion: rename private names AND modernise idioms AND reshape "
    "functions (split / merge / reorder / flags vs early exits) of the responsible code all at once, 40-120 changed lines, still exactly "
    "behaviour-preserving.\n"
    "For r1 and r2 'behaviour-preserving' in the requirements below means: everything the property states is preserved for ALL inputs, schedules and "
    "histories, existing callers that do not use the new feature observe the same results and exceptions, and the existing tests pass; say in notes.md "
    "exactly what new behaviour was added.")


# round 6: the small commits.  Most changes to a repository are a few lines; both questions are asked at that size.
SEED_FLAVOUR[6] = ("ROUND-SPECIFIC INSTRUCTIONS (they override the numbers above): produce FOUR variants a, b, c, d instead of two, and keep each one MINIMAL - at "
                   "most three changed lines, ideally a single token: an operator or comparison (< vs <=, and vs or, == vs is), a constant, an index or slice "
                   "bound, a mask or shift, a default value, a swapped argument, a dropped or reordered statement, a condition negated or loosened, an "
                   "exception class, a missing await / return / break. The four must be at four different places of the responsible code and of four "
                   "different kinds. The other requirements stand: each must break the property for some input / schedule / history, keep the 65 tests "
                   "passing, and come with its own patch.diff, demo.py (fails with the patch, passes without) and a three-line notes.md.")
NEUTRAL_FLAVOUR[6] = (
    "ROUND-SPECIFIC INSTRUCTIONS (they override the numbers above): produce FIVE variants r1..r5 instead of three, and keep each one SMALL - two to eight "
    "changed lines, the size of an everyday commit. Five different kinds, for example:\n"
    "  r1  a local rename, a changed log / exception message text, an added comment, docstring or type hint;\n"
    "  r2  an equivalent rewrite of one expression or condition (De Morgan, `not x < y` vs `x >= y`, `len(x) == 0` vs `not x`, a named constant for a "
    "literal, an f-string for %-formatting, a hoisted sub-expression, a chained comparison);\n"
    "  r3  two independent statements swapped, an early return turned into an if / else or the reverse, a loop `for` vs `while` or a comprehension for "
    "a three-line loop;\n"
    "  r4  a defensive addition that can never change an outcome for the inputs the property quantifies over (an assert of something already guaranteed, "
    "an explicit `else: pass`, an `int()` around an int, an extra but implied check placed where it rejects nothing new);\n"
    "  r5  a tiny piece of new, unrelated functionality next to the responsible code (a `__repr__`, a read-only property, a debug log line, a counter).\n"
    "Each must leave everything the property states exactly as it is, keep the 65 tests passing, and come with its own patch.diff and a two-line notes.md "
    "(a single shared check.py for all five is enough).")


# round 7: the indirect changes.  The edit is NOT in the function a reader would open first: it is in something that function relies on.
SEED_FLAVOUR[7] = ("ROUND-SPECIFIC INSTRUCTIONS: the two variants must be INDIRECT. First identify the functions that most directly implement the property "
                   "(the ones a reviewer would open first). Your edits must NOT be inside those functions' bodies. Variant a: change something they RELY ON "
                   "that lives elsewhere - a module-level or class-level constant, an enum member or its value, a default argument, a helper or utility "
                   "function, a base-class method, a property getter / setter, an `__init__`, a table or mapping, a dataclass field, an exception class "
                   "hierarchy, `__eq__` / `__hash__` / `__bool__` / `__len__` of an object they handle. Variant b: change a CALLER or a SIBLING so that the "
                   "directly responsible functions are now used outside the conditions under which they are correct (called in another order, with another "
                   "argument, on a shared instead of a fresh object, twice, or not at all on one path; an attribute they read is now written somewhere new). "
                   "In notes.md name the directly responsible functions you avoided.")
NEUTRAL_FLAVOUR[7] = (
    "  r1  CROSS-MODULE MOVES: move constants into msmart/const.py (or out of it), move a helper into msmart/utils.py (or a new private module) and import "
    "it back, turn a module-level function into a staticmethod or the reverse, re-export a name - the responsible code now reaches the same values "
    "and functions through other modules.\n"
    "  r2  LIBRARY AND TESTS TOGETHER: an internal API change that stays behaviour-preserving for every public entry point but needs the tests touched too "
    "(a private method renamed or given a keyword-only parameter, a private attribute renamed, a helper's return type changed from tuple to a small "
    "NamedTuple / dataclass); update the tests in the same patch so that all 65 keep passing and still test the same thing.\n"
    "  r3  TYPING / PLATFORM MODERNISATION: `from __future__ import annotations`, `X | None` for Optional, `collections.abc` imports, `typing.cast` removed "
    "or added, `@override` / `Final` / `ClassVar` / `Self` annotations (only what Python 3.12 has in the standard library), `__slots__` where nothing "
    "depends on `__dict__`, `enum` auto-features that keep the values, `functools.cached_property` only where the value cannot change.\n"
    "For r2 the requirement below not to rename what the tests use is lifted: change the tests in the same patch, keeping the 65 test ids as they are.")


# round 8: round 7 again with new authors (how far do the premise imports and the move / signature pre-pass carry?)
SEED_FLAVOUR[8] = SEED_FLAVOUR[7]
NEUTRAL_FLAVOUR[8] = ("ROUND-SPECIFIC INSTRUCTIONS (they override the numbers above): produce TWO variants r1 and r2 instead of three.\n" +
                      NEUTRAL_FLAVOUR[7].split("  r3  ")[0] +
                      "For r2 the requirement below not to rename what the tests use is lifted: change the tests in the same patch, keeping the 65 test ids as they are.")


# round 9: growth.  The library gains one more instance of what the property quantifies over, implemented the way the existing ones are.
NEUTRAL_FLAVOUR[9] = (
    "ROUND-SPECIFIC INSTRUCTIONS (they override the numbers and the word 'refactoring' above): produce TWO variants r1 and r2, each a small, realistic "
    "FEATURE ADDITION inside the property's own territory, implemented consistently with the existing code so that the property still holds for everything "
    "it covered before AND, where it applies, for the new thing too. Pick two different kinds from what fits this property, for example: one more settable "
    "attribute / CLI setting / property-protocol setting with its setter, getter, default and encoding; one more command or query class; one more response "
    "class or response id handled by the dispatcher; one more capability id or reader; one more enum member for an existing setting (with the vendor value "
    "if the protocol notes or the reference/ directory give one, otherwise a clearly unused value); one more device type or discovery field; one more "
    "cloud endpoint helper using the same signing path; one more optional trailing field of a response parsed under a length guard; a public read-only "
    "accessor exposing something already parsed. Follow the existing patterns exactly (same helper functions, same ordering conventions, same error "
    "classes). Existing behaviour for existing inputs must not change at all; the 65 tests must still pass; you may add tests for the new feature in the "
    "same patch. In notes.md say what was added and why the property still holds (including for the new instance).")


# round 10: breakage that arrives as growth.  The patch adds a plausible feature inside the property's territory - and the feature itself (not a
# side effect elsewhere) makes the property false for some input / history.
SEED_FLAVOUR[10] = ("ROUND-SPECIFIC INSTRUCTIONS: each of the two variants must be a FEATURE ADDITION inside the property's own territory - one more settable "
                    "attribute / CLI setting / property-protocol setting, one more command, response class or response field, one more capability or enum member, "
                    "one more optional parameter with a default, a new accessor, a new convenience method (reset / disconnect / deauthenticate / clear), a new "
                    "configurable limit or timeout - written the way the existing code is written, with its own tests if you like, and looking complete and "
                    "reviewed. But the feature is subtly wrong in a way that makes THE PROPERTY ABOVE false for some input, history or schedule that the "
                    "property quantifies over (including inputs that never use the new feature, if the feature's plumbing disturbs them): a new flag that shares a "
                    "bit with an existing field, a default that changes bytes on the wire, a new optional field read without a length guard, a new enum member "
                    "that makes an old value ambiguous, a convenience method that leaves half of a state pair behind, a configurable limit that admits a value "
                    "breaking an invariant, a new response class that skips validation, a new setting the CLI accepts but converts wrongly. The 65 existing "
                    "tests must still pass. Variant a and variant b must be different kinds of feature.")


# round 11: histories, faults and interleavings.  Nothing is wrong on the first call of a fresh object with well-behaved I/O: the breakage needs a
# second operation, a fault at one particular point, or two things in flight at once.  The neutral side is robustness work that keeps the property.
SEED_FLAVOUR[11] = ("ROUND-SPECIFIC INSTRUCTIONS: neither variant may be visible on the FIRST operation of a FRESH object with well-behaved I/O. Variant a must need "
                    "a HISTORY: a sequence of two or more operations on the same object(s) where an earlier one leaves something behind that makes a later one "
                    "violate the property (a second refresh / apply / send / discover / get_token on the same instance, a reconnect after a failure, a "
                    "re-authentication after expiry, a response arriving after an earlier partial one, a value set and then set back, a counter wrapping, a "
                    "buffer or cache or set that is reused). Variant b must need a FAULT OR AN INTERLEAVING AT ONE PARTICULAR POINT: a timeout, cancellation, "
                    "connection loss or exception raised exactly between two statements (between write and read, in the middle of the handshake, while "
                    "draining, during cleanup), a peer that sends data split or coalesced at a particular byte, an unsolicited frame arriving at a particular "
                    "moment, or two coroutines using the same object concurrently. The edit itself should be small and look like a reasonable tidy-up or "
                    "robustness tweak (moving a store or a cleanup call across an await, narrowing or widening a try block, reusing an object instead of "
                    "creating it, resetting less or more than before, changing when a flag is raised or lowered). In notes.md write the exact history / fault "
                    "point / schedule needed.")
NEUTRAL_FLAVOUR[11] = (
    "ROUND-SPECIFIC INSTRUCTIONS (they override the numbers and the word 'refactoring' above): produce TWO variants r1 and r2, each a realistic piece of "
    "ROBUSTNESS / LIFECYCLE work on the responsible code under which the property still holds for every input, history, fault point and schedule it "
    "quantifies over. Pick two different kinds from what fits this property, for example: a try/finally or context manager that makes an existing cleanup "
    "happen on more exit paths (never fewer); an asyncio.Lock (or equivalent) serialising an exchange that was already used sequentially; a store or reset "
    "moved across a statement it does not interact with; state that was reset lazily now reset eagerly at the same logical points (or the reverse) with the "
    "same observable result; an explicit close / disconnect / reset helper that existing code paths now call where they did the same thing inline; a "
    "timeout or limit turned into a named constant or constructor parameter whose default is today's value; extra debug logging on error paths; "
    "an exception re-raised with `from`; defensive re-initialisation that cannot change any outcome. Existing behaviour for existing callers must not change "
    "at all (same results, same exception classes, same bytes on the wire, same number of transmissions); the 65 tests must still pass. In notes.md say "
    "what was changed and why the property still holds for second operations, faults at every await and concurrent use.")


# round 12: round 11 again with new authors (how far do the suspension-point analysis and the premise imports carry?)
SEED_FLAVOUR[12] = SEED_FLAVOUR[11]


# round 13: round 11's robustness / lifecycle brief again with new authors, on the tree with the F9 repair (do the round-11/12 rules stay silent?)
NEUTRAL_FLAVOUR[13] = NEUTRAL_FLAVOUR[11]


def sh(cmd):
    return subprocess.run(cmd, shell=True, capture_output=True, text=True)


VERIF = os.path.dirname(os.path.dirname(os.path.abspath(__file__)))
BASELINE = json.load(open("/root/.vp/BASELINE.json"))["stable_pass"]
LETTERS = {3: {"a": "e", "b": "f"}, 4: {"a": "g", "b": "h"}, 5: {"a": "i", "b": "j"}, 6: {"a": "k", "b": "l", "c": "m", "d": "n"}, 7: {"a": "o", "b": "p"}, 8: {"a": "q", "b": "r"}, 10: {"a": "s", "b": "t"}, 11: {"a": "u", "b": "v"}, 12: {"a": "w", "b": "x"}}          # seeds: round -> variant -> suffix under /verif/seeded
NUMBERS = {3: {"r1": "r8", "r2": "r9", "r3": "r10"}, 4: {"r1": "r11", "r2": "r12", "r3": "r13"}, 5: {"r1": "r14", "r2": "r15", "r3": "r16"},
           6: {"r1": "r17", "r2": "r18", "r3": "r19", "r4": "r20", "r5": "r21"}, 7: {"r1": "r22", "r2": "r23", "r3": "r24"}, 8: {"r1": "r25", "r2": "r26"}, 9: {"r1": "r27", "r2": "r28"}, 11: {"r1": "r29", "r2": "r30"}, 13: {"r1": "r31", "r2": "r32"}}


def variants(root):
    for pid in sorted(os.listdir(root)):
        d0 = os.path.join(root, pid)
        if os.path.isdir(d0):
            for var in sorted(os.listdir(d0)):
                if os.path.exists(os.path.join(d0, var, "patch.diff")):
                    yield pid, var, os.path.join(d0, var)


def tests_pass(d):
    r = sh(f"cd {d} && /venv/bin/python -m pytest -q -p no:cacheprovider -rA 2>&1 | grep -E '^(PASSED|FAILED|ERROR)'")
    passed = set()
    for line in r.stdout.splitlines():
        if line.startswith("PASSED"):
            mod, _, rest = line.split()[1].partition("::")
            passed.add(mod[:-3].replace("/", ".") + "." + rest)
    return [t for t in BASELINE if t not in passed]


def confirm_one(job):
    kind, pid, var, d = job
    w = f"/tmp/cf/{pid}-{var}"
    sh(f"rm -rf {w} && mkdir -p {w} && git -C /repo archive HEAD | tar -x -C {w}")
    res = {"name": f"{pid}-{var}", "dir": d}
    if kind == "seeds":
        demo = os.path.join(d, "demo.py")
        res["demo_pristine_rc"] = sh(f"cd {w} && PYTHONPATH={w} timeout 300 /venv/bin/python {demo}").returncode if os.path.exists(demo) else None
    r = sh(f"cd {w} && git apply --whitespace=nowarn {d}/patch.diff")
    res["applies"] = r.returncode == 0
    if res["applies"]:
        res["tests_missing"] = tests_pass(w)
        if kind == "seeds" and os.path.exists(os.path.join(d, "demo.py")):
            res["demo_patched_rc"] = sh(f"cd {w} && PYTHONPATH={w} timeout 300 /venv/bin/python {d}/demo.py").returncode
    sh(f"rm -rf {w}")
    res["confirmed"] = bool(res["applies"] and not res.get("tests_missing") and
                            (kind != "seeds" or (res.get("demo_pristine_rc") == 0 and res.get("demo_patched_rc") not in (0, None))))
    return res


def confirm(kind, rnd):
    from concurrent.futures import ThreadPoolExecutor
    root = f"/tmp/{'seeds' if kind == 'seeds' else 'refactors'}{rnd}"
    jobs = [(kind, pid, var, d) for pid, var, d in variants(root)]
    with ThreadPoolExecutor(16) as ex:
        out = list(ex.map(confirm_one, jobs))
    sh("rm -rf /tmp/cf")
    json.dump(out, open(f"{root}/confirm.json", "w"), indent=1)
    for r in out:
        if not r["confirmed"]:
            print("NOT confirmed:", {k: v for k, v in r.items() if k != "dir"})
    print(f"{sum(r['confirmed'] for r in out)}/{len(out)} confirmed")
    return 0


def do_import(kind, rnd, only):
    import shutil
    root = f"/tmp/{'seeds' if kind == 'seeds' else 'refactors'}{rnd}"
    conf = {r["name"]: r for r in json.load(open(f"{root}/confirm.json"))}
    n = 0
    for pid, var, d in variants(root):
        name = f"{pid}-{var}"
        if not conf.get(name, {}).get("confirmed") or (only and name not in only and pid not in only):
            continue
        suffix = (LETTERS if kind == "seeds" else NUMBERS)[rnd][var]
        dest = os.path.join(VERIF, "seeded" if kind == "seeds" else "neutral", f"{pid}-{suffix}")
        os.makedirs(dest, exist_ok=True)
        for f in ("patch.diff", "demo.py", "notes.md"):
            if os.path.exists(os.path.join(d, f)):
                shutil.copy(os.path.join(d, f), os.path.join(dest, f))
        c = conf[name]
        if kind == "seeds":
            meta = {"property": pid, "round": rnd,
                    "origin": f"independent sub-agent (round {rnd}) given only the property text and a scratch worktree",
                    "confirmed": {"ran": ["git apply patch.diff on a copy of /repo HEAD", "pytest baseline (65 stable tests still pass)",
                                          "demo.py fails with the patch", "demo.py passes without it"],
                                  "demo_pristine_rc": c["demo_pristine_rc"], "demo_patched_rc": c["demo_patched_rc"], "tests_pass_with_patch": True}}
            old = os.path.join(dest, "meta.json")
            if os.path.exists(old):
                meta = {**json.load(open(old)), **meta}
        else:
            meta = {"kind": f"behaviour-preserving refactoring, round {rnd} (independent sub-agent with its own equivalence check; "
                            "baseline tests pass at /repo HEAD)", "written_for": pid, "round": rnd}
        json.dump(meta, open(os.path.join(dest, "meta.json"), "w"), indent=1)
        n += 1
    print("imported", n)
    return 0


def main(argv):
    if argv[:1] == ["confirm"]:
        return confirm(argv[1], int(argv[2]))
    if argv[:1] == ["import"]:
        return do_import(argv[1], int(argv[2]), set(argv[3:]))
    if argv[:1] == ["clean"]:
        for line in sh("git -C /repo worktree list --porcelain").stdout.splitlines():
            if line.startswith("worktree /tmp/"):
                sh(f"git -C /repo worktree remove --force {line.split()[1]}")
        sh("git -C /repo worktree prune")
        return 0
    kind, rnd = argv[0], int(argv[1])
    props = {}
    for line in open(os.path.join(os.path.dirname(os.path.dirname(os.path.abspath(__file__))), "properties.jsonl")):
        p = json.loads(line)
        props[p["id"]] = p
    out = f"/tmp/{'seeds' if kind == 'seeds' else 'refactors'}{rnd}"
    os.makedirs("/tmp/wt", exist_ok=True)
    for pid, p in sorted(props.items()):
        wt = f"/tmp/wt/{'S' if kind == 'seeds' else 'N'}{rnd}_{pid[1:]}"
        os.makedirs(f"{out}/{pid}", exist_ok=True)
        if not os.path.isdir(wt):
            r = sh(f"git -C /repo worktree add -q --detach {wt} HEAD")
            if r.returncode:
                print(r.stderr)
                return 1
        tmpl, fl = (SEED, SEED_FLAVOUR) if kind == "seeds" else (NEUTRAL, NEUTRAL_FLAVOUR)
        text = tmpl.format(wt=wt, out=out, pid=pid, title=p["title"], statement=p["statement"], quant=p["quantifier"]["text"],
                           flavour=fl.get(rnd, "The variants must differ in kind and place."))
        open(f"{out}/prompt_{pid}.txt", "w").write(text)
    print(out, len(props), "prompts")
    return 0


if __name__ == "__main__":
    sys.exit(main(sys.argv[1:]))
