#!/venv/bin/python
"""Recall on refactored trees: every seeded change applied ON TOP of every behaviour-preserving refactoring of the same property.

For each property Cxx, each neutral/Cxx-r<n> and each seeded/Cxx-<s>: the refactoring is applied to a throw-away copy of /repo HEAD, then the
seeded change (git apply, then `git apply --3way`-free fallback: skipped when the hunks no longer apply).  Where both apply, the seeded change
still breaks the property (the refactoring preserved behaviour and the seed touches other lines), so the property's own check must report it
(exit 1).  Exit 0 = a miss to triage; exit 2 = refused.  Nothing is written to /verif/evidence.

  tools/cross.py [Cxx ...]        summary per property + list of misses / refusals      (16 jobs in parallel, scratch under /tmp/cx, removed)
"""
import os
import shutil
import subprocess
import sys
from concurrent.futures import ThreadPoolExecutor

VERIF = os.path.dirname(os.path.dirname(os.path.abspath(__file__)))
TMP = "/tmp/cx"


def sh(cmd):
    p = subprocess.run(cmd, shell=True, capture_output=True, text=True)
    return p.returncode, p.stdout + p.stderr


def one(job):
    pid, neutral, seed = job
    d = f"{TMP}/{neutral}+{seed}"
    shutil.rmtree(d, ignore_errors=True)
    os.makedirs(d)
    rc, _ = sh(f"git -C /repo archive HEAD | tar -x -C {d} && cd {d} && git apply --whitespace=nowarn {VERIF}/neutral/{neutral}/patch.diff")
    if rc:
        shutil.rmtree(d, ignore_errors=True)
        return job, "neutral-does-not-apply", ""
    rc, _ = sh(f"cd {d} && git apply --whitespace=nowarn {VERIF}/seeded/{seed}/patch.diff")
    if rc:
        shutil.rmtree(d, ignore_errors=True)
        return job, "skip", ""
    rc, out = sh(f"cd {VERIF} && ./check {pid} --root {d} --no-write")
    shutil.rmtree(d, ignore_errors=True)
    msg = [l.strip()[:220] for l in out.splitlines() if (" -- " in l and l.startswith("  C")) or l.startswith("ANALYSIS-ERROR")]
    return job, {0: "MISS", 1: "reported", 2: "refused"}.get(rc, f"rc{rc}"), "; ".join(msg[:2])


def main(argv):
    props = [a for a in argv if a.startswith("C")] or [f"C{i:02d}" for i in range(1, 21)]
    neutrals = sorted(os.listdir(f"{VERIF}/neutral"))
    seeds = sorted(os.listdir(f"{VERIF}/seeded"))
    jobs = []
    for p in props:
        for n in [x for x in neutrals if x.startswith(p + "-")]:
            for s in [x for x in seeds if x.startswith(p + "-") and os.path.isdir(f"{VERIF}/seeded/{x}")]:
                jobs.append((p, n, s))
    with ThreadPoolExecutor(16) as ex:
        res = list(ex.map(one, jobs))
    shutil.rmtree(TMP, ignore_errors=True)
    tot = {}
    for (p, n, s), verdict, msg in res:
        tot.setdefault(p, {}).setdefault(verdict, []).append((n, s, msg))
    bad = 0
    for p in props:
        t = tot.get(p, {})
        print(f"{p}: " + ", ".join(f"{k}={len(v)}" for k, v in sorted(t.items())))
        for k in ("MISS", "refused"):
            for n, s, msg in t.get(k, []):
                print(f"    {k:8} {n} + {s}   {msg[:200]}")
                bad += k == "MISS"
    print(f"combinations: {len(res)}, applied: {sum(1 for _j, v, _m in res if v not in ('skip', 'neutral-does-not-apply'))}, misses: {bad}")
    return 1 if bad else 0


if __name__ == "__main__":
    sys.exit(main(sys.argv[1:]))
