#!/venv/bin/python
"""Confirm and evaluate seeded changes.

  tools/seeded.py confirm <dir>          apply <dir>/patch.diff in a scratch worktree: the 65 baseline tests must pass, the demo must
                                         fail with the patch and pass without it
  tools/seeded.py detect  <dir> [Cxx..]  run the checks (default: the property in meta.json, else all) against the patched scratch tree
  tools/seeded.py all                    detect for every /verif/seeded/*/ and print the matrix

Nothing under /repo is modified: the scratch worktree lives in /tmp and is removed afterwards.
"""
import json
import os
import subprocess
import sys

VERIF = os.path.dirname(os.path.dirname(os.path.abspath(__file__)))
SCRATCH = "/tmp/seedrun"
BASELINE = json.load(open("/root/.vp/BASELINE.json"))["stable_pass"]
ALL = [f"C{i:02d}" for i in range(1, 21)]


def sh(cmd, cwd=None, timeout=900):
    p = subprocess.run(cmd, shell=True, cwd=cwd, stdout=subprocess.PIPE, stderr=subprocess.STDOUT, text=True, timeout=timeout)
    return p.returncode, p.stdout


def scratch():
    if not os.path.isdir(SCRATCH):
        rc, out = sh(f"git -C /repo worktree add -q --detach {SCRATCH} HEAD")
        if rc:
            raise SystemExit(out)
    else:
        sh(f"git -C {SCRATCH} checkout -q --detach $(git -C /repo rev-parse HEAD) && git -C {SCRATCH} checkout -- . && git -C {SCRATCH} clean -fdq")
    return SCRATCH


def cleanup():
    sh(f"git -C /repo worktree remove --force {SCRATCH}")


def apply(d):
    rc, out = sh(f"git -C {SCRATCH} apply --whitespace=nowarn {os.path.abspath(d)}/patch.diff")
    return rc == 0, out


def revert():
    sh(f"git -C {SCRATCH} checkout -- . && git -C {SCRATCH} clean -fdq")


def tests_pass():
    rc, out = sh(f"cd {SCRATCH} && /venv/bin/python -m pytest -q -p no:cacheprovider --timeout=900 -rA 2>&1 | grep -E '^(PASSED|FAILED|ERROR)' ")
    passed = set()
    for line in out.splitlines():
        if line.startswith("PASSED"):
            t = line.split()[1]
            mod, _, rest = t.partition("::")
            passed.add(mod[:-3].replace("/", ".") + "." + rest)
    missing = [t for t in BASELINE if t not in passed]
    return not missing, missing


def demo(d):
    name = "demo.py"
    rc, out = sh(f"cd {SCRATCH} && PYTHONPATH={SCRATCH} /venv/bin/python {os.path.abspath(d)}/{name}", timeout=300)
    return rc, out[-600:]


def confirm(d):
    scratch()
    res = {}
    rc0, out0 = demo(d)
    res["demo_pristine_rc"] = rc0
    ok, out = apply(d)
    res["applies"] = ok
    if ok:
        tp, missing = tests_pass()
        res["tests_pass_with_patch"] = tp
        res["missing_tests"] = missing[:5]
        rc1, out1 = demo(d)
        res["demo_patched_rc"] = rc1
        res["demo_patched_tail"] = out1[-300:]
    revert()
    res["confirmed"] = bool(ok and res.get("tests_pass_with_patch") and res.get("demo_patched_rc") not in (0, None) and rc0 == 0)
    return res


def detect(d, props):
    scratch()
    ok, out = apply(d)
    if not ok:
        revert()
        return {"error": "patch does not apply: " + out[-200:]}
    res = {}
    for p in props:
        rc, out = sh(f"cd {VERIF} && ./check {p} --root {SCRATCH} --no-write")
        rules = sorted({l.split()[0] for l in out.splitlines() if l.startswith("  C") and " -- " in l})
        res[p] = {"rc": rc, "rules": rules[:6], "first": next((l.strip()[:220] for l in out.splitlines() if " -- " in l and l.startswith("  C")), "")}
    revert()
    return res


def main(argv):
    if not argv:
        print(__doc__)
        return 2
    try:
        if argv[0] == "confirm":
            print(json.dumps(confirm(argv[1]), indent=1))
        elif argv[0] == "detect":
            d = argv[1]
            props = argv[2:]
            if not props:
                mp = os.path.join(d, "meta.json")
                props = [json.load(open(mp))["property"]] if os.path.exists(mp) else ALL
            print(json.dumps(detect(d, props), indent=1))
        elif argv[0] == "all":
            root = os.path.join(VERIF, "seeded")
            rows = []
            for name in sorted(os.listdir(root)):
                d = os.path.join(root, name)
                if not os.path.exists(os.path.join(d, "patch.diff")):
                    continue
                meta = json.load(open(os.path.join(d, "meta.json")))
                r = detect(d, ALL if "--all-props" in argv else [meta["property"]])
                own = r.get(meta["property"], {})
                others = [p for p, v in r.items() if p != meta["property"] and isinstance(v, dict) and v.get("rc") == 1]
                rows.append((name, meta["property"], own.get("rc"), own.get("rules"), others))
                print(f"{name:12s} {meta['property']} rc={own.get('rc')} rules={own.get('rules')} also={others}", flush=True)
            caught = sum(1 for r in rows if r[2] == 1)
            print(f"caught {caught}/{len(rows)}")
    finally:
        cleanup()
    return 0


if __name__ == "__main__":
    sys.exit(main(sys.argv[1:]))
