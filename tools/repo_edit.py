#!/venv/bin/python
"""Apply exact-once text replacements to a /repo file, preserving its line endings (several files are CRLF)."""
import sys


def edit(path, pairs):
    s = open(path, newline="").read()
    nl = "\r\n" if "\r\n" in s else "\n"
    for old, new in pairs:
        old, new = old.replace("\n", nl), new.replace("\n", nl)
        assert s.count(old) == 1, (path, old[:60], s.count(old))
        s = s.replace(old, new)
    open(path, "w", newline="").write(s)
