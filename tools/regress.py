#!/venv/bin/python
"""Fast regression of the whole framework, 16 jobs in parallel, on throw-away copies of /repo's tracked files (/tmp/rg, removed):

  clean    every check exits 0 on /repo
  seeded   every /verif/seeded/<id>/patch.diff is reported (exit 1) by its own property's check
  neutral  every check exits 0 on every /verif/neutral/<name>/patch.diff (behaviour-preserving refactorings)

  tools/regress.py [clean] [seeded] [neutral] [name ...]      (default: all three)
The baseline tests / demos were run when a variant was imported (tools/seeded.py confirm, tools/refactors.py import).
"""
import json
import os
import shutil
import subprocess
import sys
from concurrent.futures import ThreadPoolExecutor

VERIF = os.path.dirname(os.path.dirname(os.path.abspath(__file__)))
TMP = "/tmp/rg"
ALL = [f"C{i:02d}" for i in range(1, 21)]


def sh(cmd):
    p = subprocess.run(cmd, shell=True, capture_output=True, text=True)
    return p.returncode, p.stdout + p.stderr


def prepare(kind, name, patch=None):
    d = os.path.join(TMP, kind, name)
    shutil.rmtree(d, ignore_errors=True)
    os.makedirs(d)
    patch = patch or f"{VERIF}/{kind}/{name}/patch.diff"
    rc, out = sh(f"git -C /repo archive {BASE[0]} msmart reference | tar -x -C {d} && cd {d} && git apply --whitespace=nowarn {patch}")
    return rc == 0, out


BASE = ["HEAD"]       # --base <rev>: evaluate external patches against the /repo revision they were written for


def external(root, kind):
    """<root>/<Cxx>/<variant>/patch.diff trees produced by sub-agents, before they are imported: `--from <root> neutral|seeded`"""
    jobs, bad = [], []
    for pid in sorted(os.listdir(root)):
        d0 = os.path.join(root, pid)
        if not os.path.isdir(d0):
            continue
        for var in sorted(os.listdir(d0)):
            pf = os.path.join(d0, var, "patch.diff")
            if not os.path.exists(pf):
                continue
            name = f"{pid}-{var}"
            ok, out = prepare(kind, name, pf)
            if not ok:
                bad.append((kind, name, "apply", 3, out[-200:]))
                continue
            jobs += [(kind, name, pid)] if kind == "seeded" else [(kind, name, p) for p in ALL]
    return jobs, bad


BASELINE = {}          # property -> set of finding lines on the plain base tree (only with --base)


def findings(out):
    return {l.strip()[:200] for l in out.splitlines() if (" -- " in l and l.startswith("  C")) or l.startswith("ANALYSIS-ERROR")}


def one(job):
    kind, name, p = job
    root = "/repo" if kind == "clean" else f"{TMP}/{kind}/{name}"
    rc, out = sh(f"cd {VERIF} && ./check {p} --root {root} --no-write")
    msg = [l.strip()[:300] for l in out.splitlines() if (" -- " in l and l.startswith("  C")) or l.startswith("ANALYSIS-ERROR")]
    if BASELINE and kind == "neutral" and rc != 0:
        new = findings(out) - BASELINE.get(p, set())
        if not new:
            rc = 0          # nothing beyond what the base revision itself reports (defects fixed later in /repo)
        else:
            msg = sorted(new)
    return kind, name, p, rc, (msg[0] if msg else out[-300:].strip())


def main(argv):
    kinds = [a for a in argv if a in ("clean", "seeded", "neutral")] or ["clean", "seeded", "neutral"]
    only = {a for a in argv if a not in ("clean", "seeded", "neutral") and not a.startswith("-")}
    jobs, bad = [], []
    try:
        if "--base" in argv:
            BASE[0] = argv[argv.index("--base") + 1]
            only.discard(BASE[0])
            d = os.path.join(TMP, "base")
            os.makedirs(d, exist_ok=True)
            sh(f"git -C /repo archive {BASE[0]} msmart reference | tar -x -C {d}")
            for p in ALL:
                _rc, out = sh(f"cd {VERIF} && ./check {p} --root {d} --no-write")
                BASELINE[p] = findings(out) | {"<base>"}
        if "--from" in argv:
            root = argv[argv.index("--from") + 1]
            only.discard(root)
            j2, b2 = external(root, kinds[0])
            jobs += [j for j in j2 if not only or j[1] in only or j[1].split("-")[0] in only]
            bad += b2
            kinds = [kinds[0]]
        elif "clean" in kinds and not only:
            jobs += [("clean", "repo", p) for p in ALL]
        for kind in ("seeded", "neutral"):
            if kind not in kinds or "--from" in argv:
                continue
            root = os.path.join(VERIF, kind)
            for n in sorted(os.listdir(root)):
                if not os.path.exists(os.path.join(root, n, "patch.diff")) or (only and n not in only and n.split("-")[0] not in only):
                    continue
                ok, out = prepare(kind, n)
                if not ok:
                    bad.append((kind, n, "apply", 3, out[-200:]))
                    continue
                if kind == "seeded":
                    jobs.append((kind, n, json.load(open(os.path.join(root, n, "meta.json")))["property"]))
                else:
                    jobs += [(kind, n, p) for p in ALL]
        res = {}
        with ThreadPoolExecutor(16) as ex:
            for kind, name, p, rc, msg in ex.map(one, jobs):
                want = 1 if kind == "seeded" else 0
                res.setdefault((kind, name), []).append((p, rc, msg, rc == want))
    finally:
        shutil.rmtree(TMP, ignore_errors=True)
    nbad = len(bad)
    for (kind, name), rows in sorted(res.items()):
        ok = all(r[3] for r in rows)
        nbad += 0 if ok else 1
        if not ok or "-v" in argv:
            print(f"{kind:8s}{name:10s} {'ok' if ok else 'UNEXPECTED'}")
            for p, rc, msg, good in rows:
                if not good:
                    print(f"      {p} rc={rc} {msg}")
    for b in bad:
        print("cannot apply:", b)
    for kind in kinds:
        names = [k for k in res if k[0] == kind]
        print(f"{kind}: {sum(1 for k in names if all(r[3] for r in res[k]))}/{len(names)} as expected")
    return 1 if nbad else 0


if __name__ == "__main__":
    sys.exit(main(sys.argv[1:]))
