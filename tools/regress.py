#!/venv/bin/python
"""Fast regression of the whole framework, 16 jobs in parallel, on throw-away copies of /repo's tracked files (/tmp/rg, removed):

  clean    every check exits 0 on /repo
  seeded   every /verif/seeded/<id>/patch.diff is reported (exit 1) by its own property's check
  neutral  every check exits 0 on every /verif/neutral/<name>/patch.diff (behaviour-preserving refactorings)
  undecided  behaviour-preserving refactorings the checks are known not to decide (/verif/undecided/<name>): every check exits 0 or 2
             (ANALYSIS-ERROR) on them - never 1: what is not understood is refused, not reported as a violation

  matrix   every check on every seeded change; writes /verif/seeded/MATRIX.md (seed x reporting rules)

  tools/regress.py [clean] [seeded] [neutral] [name ...]      (default: all three)
  tools/regress.py matrix
The baseline tests / demos were run when a variant was imported (tools/seeded.py confirm, tools/refactors.py import).
"""
import json
import os
import shutil
import subprocess
import sys
from concurrent.futures import ThreadPoolExecutor

VERIF = os.path.dirname(os.path.dirname(os.path.abspath(__file__)))
TMP = f"/tmp/rg-{os.getpid()}"
ALL = [f"C{i:02d}" for i in range(1, 21)]


def sh(cmd):
    p = subprocess.run(cmd, shell=True, capture_output=True, text=True)
    return p.returncode, p.stdout + p.stderr


def prepare(kind, name, patch=None):
    d = os.path.join(TMP, kind, name)
    shutil.rmtree(d, ignore_errors=True)
    os.makedirs(d)
    base = BASE[0]
    mf = f"{VERIF}/{kind}/{name}/meta.json"
    if patch is None and os.path.exists(mf):
        vb = json.load(open(mf)).get("base")
        if vb:
            base = vb
            VARIANT_BASE[(kind, name)] = vb
    patch = patch or f"{VERIF}/{kind}/{name}/patch.diff"
    rc, out = sh(f"git -C /repo archive {base} | tar -x -C {d} && cd {d} && git apply --whitespace=nowarn {patch}")
    return rc == 0, out


VARIANT_BASE = {}          # (kind, name) -> /repo revision the variant was written for (meta.json "base"), when it is not HEAD
_BASE_FINDINGS = {}        # (revision, property) -> finding lines of the plain tree at that revision


def base_findings(rev, p):
    if (rev, p) not in _BASE_FINDINGS:
        d = os.path.join(TMP, "rev", rev)
        if not os.path.isdir(d):
            os.makedirs(d, exist_ok=True)
            sh(f"git -C /repo archive {rev} msmart reference | tar -x -C {d}")
        _rc, out = sh(f"cd {VERIF} && ./check {p} --root {d} --no-write")
        _BASE_FINDINGS[(rev, p)] = {rule_site(l) for l in findings(out)}
    return _BASE_FINDINGS[(rev, p)]


def rule_site(line):
    """rule id + function of a finding line (`  C08.b msmart/lan.py:? msmart.lan.LAN.authenticate: ...`): what identifies a finding across trees"""
    parts = line.split()
    return (parts[0], parts[2].rstrip(":")) if len(parts) >= 3 else (line,)


BASE = ["HEAD"]       # --base <rev>: evaluate external patches against the /repo revision they were written for


def external(root, kind):
    """<root>/<Cxx>/<variant>/patch.diff trees produced by sub-agents, before they are imported: `--from <root> neutral|seeded`"""
    jobs, bad = [], []
    for pid in sorted(os.listdir(root)):
        d0 = os.path.join(root, pid)
        if not os.path.isdir(d0):
            continue
        for var in sorted(os.listdir(d0)):
            pf = os.path.join(d0, var, "patch.diff")
            if not os.path.exists(pf):
                continue
            name = f"{pid}-{var}"
            ok, out = prepare(kind, name, pf)
            if not ok:
                bad.append((kind, name, "apply", 3, out[-200:]))
                continue
            jobs += [(kind, name, pid)] if kind == "seeded" else [(kind, name, p) for p in ALL]
    return jobs, bad


BASELINE = {}          # property -> set of finding lines on the plain base tree (only with --base)


def findings(out):
    return {l.strip()[:200] for l in out.splitlines() if (" -- " in l and l.startswith("  C")) or l.startswith("ANALYSIS-ERROR")}


def one(job):
    kind, name, p = job
    root = "/repo" if (kind == "clean" and name == "repo") else f"{TMP}/{kind}/{name}"
    rc, out = sh(f"cd {VERIF} && ./check {p} --root {root} --no-write")
    msg = [l.strip()[:300] for l in out.splitlines() if (" -- " in l and l.startswith("  C")) or l.startswith("ANALYSIS-ERROR")]
    if (kind, name) in VARIANT_BASE and kind in ("neutral", "undecided") and rc == 1:
        mine = {rule_site(l) for l in findings(out)}
        if mine and mine <= base_findings(VARIANT_BASE[(kind, name)], p):
            rc = 0          # nothing beyond what the revision the variant was written for itself reports (a defect repaired later in /repo)
    if BASELINE and kind == "neutral" and rc != 0:
        new = findings(out) - BASELINE.get(p, set())
        if not new:
            rc = 0          # nothing beyond what the base revision itself reports (defects fixed later in /repo)
        else:
            msg = sorted(new)
    return kind, name, p, rc, (msg[0] if msg else out[-300:].strip())


def matrix():
    """all 20 checks against every seeded change; the table of reporting rules is written to seeded/MATRIX.md"""
    root = os.path.join(VERIF, "seeded")
    names = [n for n in sorted(os.listdir(root)) if os.path.exists(os.path.join(root, n, "patch.diff"))]
    jobs = []
    try:
        for n in names:
            ok, out = prepare("seeded", n)
            if not ok:
                print("cannot apply:", n, out[-200:])
                return 1
            jobs += [("seeded", n, p) for p in ALL]

        def run(job):
            _k, n, p = job
            rc, out = sh(f"cd {VERIF} && ./check {p} --root {TMP}/seeded/{n} --no-write")
            rules = sorted({l.split()[0] for l in out.splitlines() if " -- " in l and l.startswith("  C")})
            return n, p, rc, rules
        rows = {}
        with ThreadPoolExecutor(16) as ex:
            for n, p, rc, rules in ex.map(run, jobs):
                rows.setdefault(n, {})[p] = (rc, rules)
    finally:
        shutil.rmtree(TMP, ignore_errors=True)
    lines = ["# Seeded changes: which checks report which change", "",
             "Generated by `tools/regress.py matrix` (every check against every seeded change; `!` = exit 2, analysis refused).", "",
             "| seed | round | missed at first exposure | own property reports | what the change does | reported by |", "|---|---|---|---|---|---|"]
    bad = 0
    for n in names:
        meta = json.load(open(os.path.join(root, n, "meta.json")))
        own = meta["property"]
        what = ""
        for src in ("notes.md",):
            f = os.path.join(root, n, src)
            if os.path.exists(f):
                txt = [l.strip() for l in open(f, errors="replace").read().splitlines() if l.strip() and not l.startswith("#")]
                what = txt[0] if txt else ""
        if not what:
            txt = [l.strip() for l in str(meta.get("needs_to_manifest", "")).splitlines() if l.strip() and not l.startswith("#")]
            what = txt[0] if txt else ""
        what = what.lstrip("-* ").replace("|", "/")[:150]
        rep = "; ".join(f"{p}: {', '.join(r) if r else ('!' if rc == 2 else '?')}" for p, (rc, r) in sorted(rows[n].items()) if rc != 0)
        ownrc = rows[n][own][0]
        bad += ownrc != 1
        lines.append(f"| {n} | {meta.get('round', 1)} | {'yes' if meta.get('missed_before_strengthening') else 'no'} | "
                     f"{'yes' if ownrc == 1 else 'NO'} | {what} | {rep} |")
    open(os.path.join(root, "MATRIX.md"), "w").write("\n".join(lines) + "\n")
    print(f"matrix: {len(names) - bad}/{len(names)} reported by their own property; written to seeded/MATRIX.md")
    return 1 if bad else 0


def main(argv):
    if argv[:1] == ["matrix"]:
        return matrix()
    KINDS = ("clean", "seeded", "neutral", "undecided")
    kinds = [a for a in argv if a in KINDS] or list(KINDS)
    only = {a for a in argv if a not in KINDS and not a.startswith("-")}
    jobs, bad = [], []
    try:
        if "--base" in argv:
            BASE[0] = argv[argv.index("--base") + 1]
            only.discard(BASE[0])
            d = os.path.join(TMP, "base")
            os.makedirs(d, exist_ok=True)
            sh(f"git -C /repo archive {BASE[0]} msmart reference | tar -x -C {d}")
            for p in ALL:
                _rc, out = sh(f"cd {VERIF} && ./check {p} --root {d} --no-write")
                BASELINE[p] = findings(out) | {"<base>"}
        if "--from" in argv:
            root = argv[argv.index("--from") + 1]
            only.discard(root)
            j2, b2 = external(root, kinds[0])
            jobs += [j for j in j2 if not only or j[1] in only or j[1].split("-")[0] in only]
            bad += b2
            kinds = [kinds[0]]
        elif "clean" in kinds and not only:
            jobs += [("clean", "repo", p) for p in ALL]
            # ... and on the same tree with every library module re-emitted by ast.unparse: no comment, other line breaks, other quotes,
            # other line numbers (the checks read syntax trees, not text)
            d = os.path.join(TMP, "clean", "reformatted")
            os.makedirs(d, exist_ok=True)
            sh(f"git -C /repo archive HEAD msmart reference | tar -x -C {d}")
            import ast as _ast
            for dd, _ds, fs in os.walk(os.path.join(d, "msmart")):
                for f in fs:
                    if f.endswith(".py") and not f.startswith("test_") and "/tests" not in dd:
                        pth = os.path.join(dd, f)
                        src = open(pth, encoding="utf-8", newline="").read()
                        open(pth, "w", encoding="utf-8").write(_ast.unparse(_ast.parse(src)) + "\n")
            jobs += [("clean", "reformatted", p) for p in ALL]
        for kind in ("seeded", "neutral", "undecided"):
            if kind not in kinds or "--from" in argv:
                continue
            if not os.path.isdir(os.path.join(VERIF, kind)):
                continue
            root = os.path.join(VERIF, kind)
            for n in sorted(os.listdir(root)):
                if not os.path.exists(os.path.join(root, n, "patch.diff")) or (only and n not in only and n.split("-")[0] not in only):
                    continue
                ok, out = prepare(kind, n)
                if not ok:
                    bad.append((kind, n, "apply", 3, out[-200:]))
                    continue
                if kind == "seeded":
                    jobs.append((kind, n, json.load(open(os.path.join(root, n, "meta.json")))["property"]))
                else:
                    jobs += [(kind, n, p) for p in ALL]
        res = {}
        with ThreadPoolExecutor(16) as ex:
            for kind, name, p, rc, msg in ex.map(one, jobs):
                good = rc == 1 if kind == "seeded" else (rc in (0, 2) if kind == "undecided" else rc == 0)
                res.setdefault((kind, name), []).append((p, rc, msg, good))
    finally:
        shutil.rmtree(TMP, ignore_errors=True)
    nbad = len(bad)
    for (kind, name), rows in sorted(res.items()):
        ok = all(r[3] for r in rows)
        nbad += 0 if ok else 1
        if not ok or "-v" in argv:
            print(f"{kind:8s}{name:10s} {'ok' if ok else 'UNEXPECTED'}")
            for p, rc, msg, good in rows:
                if not good:
                    print(f"      {p} rc={rc} {msg}")
    for b in bad:
        print("cannot apply:", b)
    for kind in kinds:
        names = [k for k in res if k[0] == kind]
        print(f"{kind}: {sum(1 for k in names if all(r[3] for r in res[k]))}/{len(names)} as expected")
    return 1 if nbad else 0


if __name__ == "__main__":
    sys.exit(main(sys.argv[1:]))
