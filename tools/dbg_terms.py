#!/venv/bin/python
"""tools/dbg_terms.py <root> <function qual>: the value-flow summary of one function (returns with path conditions, raises) - for triage."""
import sys
sys.path.insert(0, '/verif')
from sa.model import Program
from sa.terms import summarize, show
prog = Program(sys.argv[1])
f = prog.func(sys.argv[2])
fs = summarize(prog, f)
for pc, t, n, _ in fs.returns:
    print("RET", show(t)[:1500])
    print("   pc", [(show(c)[:300], tr) for c, tr in pc][:10])
for pc, e, n, _ in fs.raises:
    print("RAISE", show(e)[:200], [(show(c)[:200], tr) for c, tr in pc][-2:])
