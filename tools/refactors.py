#!/venv/bin/python
"""Evaluate behaviour-preserving refactorings: every check must stay silent (exit 0) on them.

  tools/refactors.py eval [/tmp/refactors]     apply each <Cxx>/<variant>/patch.diff in a scratch worktree, require the baseline tests
                                               to pass, run all 20 checks; print every check that does not exit 0
  tools/refactors.py import [/tmp/refactors]   copy the variants whose tests pass into /verif/neutral/<Cxx>-<variant>/ with meta.json
  tools/refactors.py all                       re-run every /verif/neutral/* (regression set)
"""
import json
import os
import shutil
import sys

sys.path.insert(0, os.path.dirname(os.path.abspath(__file__)))
import seeded  # noqa: E402

DEST = os.path.join(seeded.VERIF, "neutral")


def variants(root):
    for pid in sorted(os.listdir(root)):
        d0 = os.path.join(root, pid)
        if not os.path.isdir(d0):
            continue
        for var in sorted(os.listdir(d0)):
            d = os.path.join(d0, var)
            if os.path.exists(os.path.join(d, "patch.diff")):
                yield f"{pid}-{var}", d


def evaluate(d, with_tests=True):
    seeded.scratch()
    ok, out = seeded.apply(d)
    if not ok:
        seeded.revert()
        return {"error": "patch does not apply: " + out[-200:]}
    res = {"tests_pass": None, "alarms": {}}
    if with_tests:
        tp, missing = seeded.tests_pass()
        res["tests_pass"] = tp
        res["missing_tests"] = missing[:5]
    for p in seeded.ALL:
        rc, out = seeded.sh(f"cd {seeded.VERIF} && ./check {p} --root {seeded.SCRATCH} --no-write")
        if rc != 0:
            msg = next((l.strip()[:260] for l in out.splitlines() if (" -- " in l and l.startswith("  C")) or l.startswith("ANALYSIS-ERROR")), out[-200:])
            res["alarms"][p] = {"rc": rc, "first": msg}
    seeded.revert()
    return res


def main(argv):
    cmd = argv[0] if argv else "eval"
    root = argv[1] if len(argv) > 1 else "/tmp/refactors"
    only = {a for a in argv[2:] if not a.startswith("--")}
    try:
        if cmd in ("eval", "import"):
            os.makedirs(DEST, exist_ok=True)
            for name, d in variants(root):
                if only and name.split("-")[0] not in only and name not in only:
                    continue
                if cmd == "import" and os.path.exists(os.path.join(DEST, name, "meta.json")) and "--force" not in argv:
                    continue
                r = evaluate(d)
                status = "ERROR " + r["error"] if "error" in r else ("tests-fail" if not r["tests_pass"] else ("SILENT" if not r["alarms"] else "ALARM"))
                print(f"{name:10s} {status}", flush=True)
                for p, a in r.get("alarms", {}).items():
                    print(f"      {p} rc={a['rc']} {a['first']}", flush=True)
                if cmd == "import" and "error" not in r and r["tests_pass"]:
                    dest = os.path.join(DEST, name)
                    os.makedirs(dest, exist_ok=True)
                    for f in ("patch.diff", "notes.md"):
                        if os.path.exists(os.path.join(d, f)):
                            shutil.copy(os.path.join(d, f), os.path.join(dest, f))
                    json.dump({"kind": "behaviour-preserving refactoring (claimed by an independent sub-agent, baseline tests pass)",
                               "written_for": name.split("-")[0], "checks_silent": not r["alarms"], "alarms": r["alarms"]},
                              open(os.path.join(dest, "meta.json"), "w"), indent=1)
        elif cmd == "all":
            bad = 0
            for name in sorted(os.listdir(DEST)):
                d = os.path.join(DEST, name)
                if not os.path.exists(os.path.join(d, "patch.diff")):
                    continue
                r = evaluate(d, with_tests=False)
                ok = "error" not in r and not r["alarms"]
                bad += 0 if ok else 1
                print(f"{name:10s} {'SILENT' if ok else 'ALARM ' + json.dumps(r)[:300]}", flush=True)
            print(f"{bad} neutral variants raise an alarm")
    finally:
        seeded.cleanup()


if __name__ == "__main__":
    main(sys.argv[1:])
