#!/venv/bin/python
"""Confirm sub-agent seeds under /tmp/seeds/<Cxx>/<variant>/ and import the confirmed ones into /verif/seeded/<Cxx>-<variant>/."""
import json
import os
import shutil
import sys

sys.path.insert(0, os.path.dirname(os.path.abspath(__file__)))
import seeded  # noqa: E402

ROOT = "/tmp/seeds"
DEST = os.path.join(seeded.VERIF, "seeded")


def main(argv):
    only = {a for a in argv if not a.startswith("--")}
    os.makedirs(DEST, exist_ok=True)
    try:
        for pid in sorted(os.listdir(ROOT)):
            d0 = os.path.join(ROOT, pid)
            if not os.path.isdir(d0) or (only and pid not in only):
                continue
            for var in sorted(os.listdir(d0)):
                d = os.path.join(d0, var)
                if not os.path.exists(os.path.join(d, "patch.diff")):
                    continue
                name = f"{pid}-{var}"
                dest = os.path.join(DEST, name)
                if os.path.exists(os.path.join(dest, "meta.json")) and "--force" not in argv:
                    continue
                c = seeded.confirm(d)
                print(name, "confirmed" if c["confirmed"] else f"NOT confirmed: {c}", flush=True)
                if not c["confirmed"]:
                    continue
                det = seeded.detect(d, seeded.ALL)
                hit = sorted(p for p, v in det.items() if isinstance(v, dict) and v.get("rc") == 1)
                err = sorted(p for p, v in det.items() if isinstance(v, dict) and v.get("rc") == 2)
                os.makedirs(dest, exist_ok=True)
                for f in ("patch.diff", "demo.py", "notes.md"):
                    if os.path.exists(os.path.join(d, f)):
                        shutil.copy(os.path.join(d, f), os.path.join(dest, f))
                notes = open(os.path.join(d, "notes.md")).read() if os.path.exists(os.path.join(d, "notes.md")) else ""
                meta = {
                    "property": pid,
                    "origin": "independent sub-agent given only the property text and a scratch worktree",
                    "needs_to_manifest": notes.strip()[:1200],
                    "confirmed": {"ran": ["git apply patch.diff in a scratch worktree", "pytest baseline (65 stable tests still pass)",
                                          "demo.py fails with the patch", "demo.py passes without it"], **{k: c[k] for k in ("demo_pristine_rc", "demo_patched_rc", "tests_pass_with_patch")}},
                    "detected_by": {p: det[p]["rules"] for p in hit},
                    "analysis_errors": err,
                    "own_property_detects": pid in hit,
                    "first_report": det.get(pid, {}).get("first", ""),
                }
                json.dump(meta, open(os.path.join(dest, "meta.json"), "w"), indent=1)
                print("   detected by:", {p: det[p]["rules"] for p in hit}, "errors:", err, flush=True)
    finally:
        seeded.cleanup()


if __name__ == "__main__":
    main(sys.argv[1:])
