"""Demo for variant a.

Drives the real AirConditioner (get_capabilities / setters / apply / refresh)
against an in-memory fake of a 5-level "rate select" unit that only accepts the
vendor's rate select encoding.  For every rate select level the next apply must
send exactly one property write carrying RATE_SELECT with the vendor value, and
the following refresh must read the same level back.

Run as:  cd <worktree> && /venv/bin/python /tmp/seeds8/C16/a/demo.py
"""
import asyncio
import logging
import os
import struct
import sys

sys.path.insert(0, os.getcwd())

import msmart  # noqa: E402

assert os.path.dirname(os.path.abspath(msmart.__file__)) == os.path.join(os.getcwd(), "msmart"), msmart.__file__

import msmart.crc8 as crc8  # noqa: E402
from msmart.const import DeviceType, FrameType  # noqa: E402
from msmart.device import AirConditioner as AC  # noqa: E402
from msmart.frame import Frame  # noqa: E402

logging.disable(logging.CRITICAL)

STATE_RESPONSE = bytes.fromhex(
    "aa23ac00000000000303c00145660000003c0010045c6b20000000000000000000020d79")

PROP_RATE_SELECT = 0x0048
PROP_BUZZER = 0x001A

# Vendor encoding of the rate select ("gear") setting
VENDOR_RATE_5_LEVEL = {
    "OFF": 100,
    "LEVEL_5": 80,
    "LEVEL_4": 60,
    "LEVEL_3": 40,
    "LEVEL_2": 20,
    "LEVEL_1": 1,
}


def build_frame(frame_type: int, body: bytes) -> bytes:
    body = bytes(body)
    return Frame(DeviceType.AIR_CONDITIONER, FrameType(frame_type)).tobytes(
        body + bytes([crc8.calculate(body)]))


class FakeUnit:
    """5-level rate select unit. Unknown rate values are rejected and the old value kept."""

    def __init__(self) -> None:
        self.rate = 100
        self.writes = []  # list of {property id: raw bytes} per 0xB0 command

    async def send(self, data: bytes, retries: int = 3) -> list:
        Frame.validate(memoryview(data))
        payload = data[10:-1]
        assert crc8.calculate(payload[:-1]) == payload[-1], "bad payload CRC"
        cmd = payload[0]

        if cmd == 0xB5:
            # RATE_SELECT (0x0048) = 3 -> "Gear5", no additional capabilities
            body = bytes([0xB5, 0x02,
                          0x14, 0x02, 0x01, 0x01,
                          0x48, 0x00, 0x01, 0x03,
                          0x00, 0x00])
            return [build_frame(FrameType.QUERY, body)]

        if cmd in (0x40, 0x41):
            return [STATE_RESPONSE]

        if cmd == 0xB1:
            count = payload[1]
            ids = struct.unpack_from(f"<{count}H", payload, 2)
            body = bytearray([0xB1, 0])
            for i in ids:
                if i == PROP_RATE_SELECT:
                    body += struct.pack("<HBB", i, 0, 1) + bytes([self.rate])
                    body[1] += 1
            return [build_frame(FrameType.QUERY, body)]

        if cmd == 0xB0:
            count = payload[1]
            cursor = 2
            write = {}
            body = bytearray([0xB0, 0])
            for _ in range(count):
                (i, size) = struct.unpack_from("<HB", payload, cursor)
                value = bytes(payload[cursor + 3:cursor + 3 + size])
                cursor += 3 + size
                write[i] = value
                if i == PROP_RATE_SELECT:
                    ok = value[0] in VENDOR_RATE_5_LEVEL.values()
                    if ok:
                        self.rate = value[0]
                    body += struct.pack("<HBB", i, 0 if ok else 0x11, 1) + bytes([self.rate])
                    body[1] += 1
            self.writes.append(write)
            return [build_frame(FrameType.CONTROL, body)]

        return []


async def main() -> None:
    device = AC("127.0.0.1", 1, 6444)
    unit = FakeUnit()
    device._lan.send = unit.send

    await device.get_capabilities()
    assert set(device.supported_rate_selects) == {AC.RateSelect[n] for n in VENDOR_RATE_5_LEVEL}, \
        device.supported_rate_selects
    await device.refresh()
    assert device.rate_select == AC.RateSelect.OFF

    # Nothing changed -> no property write
    await device.apply()
    assert unit.writes == [], unit.writes

    for name in ["LEVEL_5", "LEVEL_3", "LEVEL_1", "LEVEL_2", "LEVEL_4", "OFF", "LEVEL_1", "OFF"]:
        level = AC.RateSelect[name]
        unit.writes.clear()

        device.rate_select = level
        await device.apply()

        # Exactly one property write, carrying the rate select in the vendor encoding
        assert len(unit.writes) == 1, (name, unit.writes)
        write = unit.writes[0]
        assert set(write) == {PROP_RATE_SELECT, PROP_BUZZER}, (name, write)
        assert write[PROP_RATE_SELECT] == bytes([VENDOR_RATE_5_LEVEL[name]]), \
            f"{name}: sent {write[PROP_RATE_SELECT].hex()} expected {VENDOR_RATE_5_LEVEL[name]:02x}"

        # A second apply without changes sends nothing
        await device.apply()
        assert len(unit.writes) == 1, (name, unit.writes)

        # Read back equal on the next refresh
        await device.refresh()
        assert unit.rate == VENDOR_RATE_5_LEVEL[name], (name, unit.rate)
        assert device.rate_select == level, (name, device.rate_select)
        assert device.rate_select.name == name, (name, device.rate_select)

    print("OK")


if __name__ == "__main__":
    asyncio.run(main())
