"""C15 variant b: an unsolicited 0xB5 notification (frame type 0x05) that arrives
coalesced right behind the reply to a capabilities query makes the records of that
reply disappear. Runs the real AirConditioner -> LAN -> _LanProtocol stack over an
in-memory transport."""
import asyncio
import os
import struct
import sys
from unittest.mock import patch

sys.path.insert(0, os.getcwd())

import msmart  # noqa: E402
import msmart.crc8 as crc8  # noqa: E402
from msmart.device import AirConditioner as AC  # noqa: E402
from msmart.device.AC.command import (CapabilitiesResponse,  # noqa: E402
                                      CapabilityId)
from msmart.frame import Frame  # noqa: E402
from msmart.lan import _Packet  # noqa: E402

assert os.path.dirname(os.path.dirname(os.path.abspath(msmart.__file__))) == os.getcwd(), msmart.__file__

DEVICE_ID = 0x1234


def record(cap_id: int, *values: int) -> bytes:
    return struct.pack("<HB", cap_id, len(values)) + bytes(values)


def payload(records, more: bool) -> bytes:
    return bytes([0xB5, len(records)]) + b"".join(records) + bytes([int(more), 0x00])


def frame(records, more: bool, frame_type: int = 0x03) -> bytes:
    body = payload(records, more)
    body += bytes([crc8.calculate(body)])
    header = bytearray(10)
    header[0] = 0xAA
    header[1] = len(body) + 10
    header[2] = 0xAC
    header[8] = 0x03
    header[9] = frame_type
    data = bytes(header) + body
    return data + bytes([Frame.checksum(data[1:])])


def reference(records) -> dict:
    """Interpret every record alone and merge in order."""
    merged = {}
    for r in records:
        with memoryview(payload([r], False)) as mv:
            merged.update(dict(CapabilitiesResponse(mv).raw_capabilities))
    return merged


class FakeTransport(asyncio.Transport):
    """In-memory peer: answers capability queries, optionally appending an unsolicited
    notification to the same TCP segment as one of the replies."""

    def __init__(self, protocol, first, additional, notify_behind) -> None:
        super().__init__()
        self._protocol = protocol
        self._first, self._additional = first, additional
        self._notify_behind = notify_behind  # None, "first" or "additional"
        self._closing = False

    def get_extra_info(self, name, default=None):
        return ("127.0.0.1", 6444) if name == "peername" else default

    def is_closing(self) -> bool:
        return self._closing

    def close(self) -> None:
        self._closing = True

    def write(self, data) -> None:
        request = _Packet.decode(bytes(data))
        assert request[10] == 0xB5, request.hex()
        additional = request[12] == 0x01

        if additional:
            frames = [frame(self._additional, False)]
        else:
            frames = [frame(self._first, True)]

        if self._notify_behind == ("additional" if additional else "first"):
            # Some devices push "capabilities" notifications with a frame type of 0x5
            frames.append(frame([record(CapabilityId.BUZZER, 1)], False, frame_type=0x05))

        # All frames of this reply land in one segment
        segment = b"".join(_Packet.encode(DEVICE_ID, f) for f in frames)
        asyncio.get_running_loop().call_soon(self._protocol.data_received, segment)


async def query(first, additional, notify_behind):
    device = AC(ip="127.0.0.1", port=6444, device_id=DEVICE_ID)

    async def create_connection(factory, *_args, **_kwargs):
        protocol = factory()
        transport = FakeTransport(protocol, first, additional, notify_behind)
        protocol.connection_made(transport)
        return transport, protocol

    reported = []
    real_update = device._update_capabilities

    def spy(res):
        reported.append(dict(res.raw_capabilities))
        real_update(res)

    loop = asyncio.get_running_loop()
    with patch.object(loop, "create_connection", new=create_connection), \
            patch.object(device, "_update_capabilities", new=spy):
        await asyncio.wait_for(device.get_capabilities(), timeout=30)

    return device, (reported[-1] if reported else None)


async def main() -> None:
    first = [record(CapabilityId.MODES, 1), record(CapabilityId.PRESET_ECO, 0)]
    additional = [record(CapabilityId.ANION, 1), record(CapabilityId.PRESET_TURBO, 0)]
    want = reference(first + additional)

    # Well behaved peer: fine on both trees
    device, got = await query(first, additional, None)
    assert got == want, (got, want)

    # Notification glued behind the reply to the additional query
    device, got = await query(first, additional, "additional")
    assert got == want, f"additional page lost: reported {got} != {want}"
    assert device.supports_purifier

    # Notification glued behind the reply to the first query
    device, got = await query(first, additional, "first")
    assert got == want, f"nothing/partial reported: {got} != {want}"
    assert not device.supports_eco and device.supports_purifier

    print("OK")


asyncio.run(main())
