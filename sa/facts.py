"""Definite facts from path conditions, and matchers over value-flow terms."""
from __future__ import annotations

from typing import Dict, Iterable, List, Optional, Tuple

from .terms import NEG, FLIP, Term, const, is_const, mentions, subterms, unview, show


def _elts(c3, with_dict=False):
    """elements of a small literal container term, or of a folded constant container (a named tuple of values): as terms"""
    if not isinstance(c3, tuple) or not c3:
        return None
    if c3[0] in ("tuple", "list", "set") and 0 < len(c3[1]) <= 8:
        return list(c3[1])
    if with_dict and c3[0] == "dict" and 0 < len(c3[1]) <= 8:
        return [k for k, _v in c3[1]]
    if c3[0] == "const" and isinstance(c3[1], (tuple, list, frozenset)) and 0 < len(c3[1]) <= 8 and all(isinstance(v, (int, str, bytes)) for v in c3[1]):
        return [("const", v) for v in (sorted(c3[1], key=repr) if isinstance(c3[1], frozenset) else c3[1])]
    return None


MIRROR = {"<": ">", ">": "<", "<=": ">=", ">=": "<=", "==": "==", "!=": "!="}


def oriented(c: Term) -> Term:
    """one orientation for comparisons: the length / the variable on the left (N <= len(b) is len(b) >= N, 0 < x is x > 0)"""
    l_, r_ = strip(c[2]), strip(c[3])
    if c[1] in MIRROR and ((call_is(r_, "len") and not call_is(l_, "len")) or (is_const(l_) and not is_const(r_) and not call_is(r_, "len"))):
        return ("cmp", MIRROR[c[1]], c[3], c[2])
    return c


def atoms(pc) -> List[Term]:
    """Definite positive atoms implied by a path condition (conjunction of (term, truth) pairs).

    not x / and-under-true / or-under-false are flattened; comparisons are put in positive form
    (`(a != b) is False` becomes `a == b`).  Disjunctions contribute nothing (not definite)."""
    out: List[Term] = []

    def add(c, truth):
        if not isinstance(c, tuple):
            return
        k = c[0]
        if k == "un" and c[1] == "not":
            add(c[2], not truth)
        elif k == "bool" and c[1] == "and" and truth:
            for x in c[2]:
                add(x, True)
        elif k == "bool" and c[1] == "or" and not truth:
            for x in c[2]:
                add(x, False)
        elif k == "cmp" and c[1] in ("in", "not in") and (c[1] == "not in") == truth and _elts(c[3]) is not None:
            # x not in (a, b)  ==  x != a and x != b
            for y in _elts(c[3]):
                out.append(("cmp", "!=", c[2], y))
        elif k == "cmp" and c[1] in ("is", "is not", "==", "!=") and ("const", None) in (c[2], c[3]) and strip(c[3] if c[2] == ("const", None) else c[2])[0] == "ite":
            # None test of a gated value: definite when only one way through the gates is left
            alts = alternatives(c, truth)
            if len(alts) == 1:
                out.extend(alts[0])
            else:
                out.append(c if truth else ("cmp", NEG[c[1]], c[2], c[3]))
        elif k == "cmp":
            out.append(oriented(c if truth else ("cmp", NEG[c[1]], c[2], c[3])))
        elif k == "call" and c[1] == ("ext", "bool") and len(c[2]) == 1:
            add(c[2][0], truth)
        else:
            out.append(c if truth else ("un", "not", c))
    for c, truth in pc:
        add(c, truth)
    return out


def call_is(t: Term, *names: str) -> bool:
    """t is a call whose resolved target (repo function / external dotted name) is one of names."""
    return isinstance(t, tuple) and t and t[0] == "call" and t[1][0] in ("func", "ext") and t[1][1] in names


def meth_is(t: Term, *names: str) -> bool:
    return isinstance(t, tuple) and t and t[0] == "call" and t[1][0] == "meth" and t[1][2] in names


def call_args(t: Term) -> Tuple[Term, ...]:
    return t[2]


def kwarg(t: Term, name: str) -> Optional[Term]:
    for k, v in t[3]:
        if k == name:
            return v
    return None


def equality_atoms(facts: Iterable[Term]) -> List[Tuple[Term, Term]]:
    """(a, b) for every fact that states a == b (==, hmac.compare_digest)."""
    out = []
    for f in facts:
        if f[0] == "cmp" and f[1] == "==":
            out.append((f[2], f[3]))
        elif call_is(f, "hmac.compare_digest", "secrets.compare_digest") and len(f[2]) == 2:
            out.append((f[2][0], f[2][1]))
    return out


def slice_bounds(t: Term):
    """For ('slice', base, lo, hi, step) with constant / None bounds -> (base, lo, hi) else None."""
    if not (isinstance(t, tuple) and t and t[0] == "slice"):
        return None
    _, base, lo, hi, step = t
    if step is not None:
        return None
    lo_v = None if lo is None else (lo[1] if is_const(lo) and isinstance(lo[1], int) else ...)
    hi_v = None if hi is None else (hi[1] if is_const(hi) and isinstance(hi[1], int) else ...)
    if lo_v is ... or hi_v is ...:
        return None
    return base, lo_v, hi_v


def strip(t: Term) -> Term:
    """unview applied through nested wrappers."""
    prev = None
    while prev != t:
        prev = t
        t = unview(t)
    return t


def find_calls(t: Term, *names: str) -> List[Term]:
    return [x for x in subterms(t) if call_is(x, *names)]


def find_meth_calls(t: Term, *names: str) -> List[Term]:
    return [x for x in subterms(t) if meth_is(x, *names)]


def len_cmp(fact: Term):
    """Normalise a fact `len(X) op c` (either operand order) -> (X, op, c) with c int, else None."""
    if fact[0] != "cmp":
        return None
    op, a, b = fact[1], fact[2], fact[3]
    if call_is(a, "len") and is_const(b) and isinstance(b[1], int):
        return strip(a[2][0]), op, b[1]
    if call_is(b, "len") and is_const(a) and isinstance(a[1], int) and op in FLIP:
        return strip(b[2][0]), FLIP[op], a[1]
    return None


def root_of(t: Term) -> Term:
    """Innermost buffer a slice / subscript / view chain reads from."""
    while True:
        t2 = strip(t)
        if t2[0] in ("slice", "sub"):
            t = t2[1]
            continue
        if t2 == t:
            return t
        t = t2


def reads_of(t: Term, root: Term) -> List[Term]:
    """Maximal slice / subscript / bare uses of `root` inside t (outermost access chains only)."""
    out = []

    def walk(x):
        if not isinstance(x, tuple) or not x or not isinstance(x[0], str):
            if isinstance(x, tuple):
                for y in x:
                    walk(y)
            return
        if x[0] in ("slice", "sub") and root_of(x) == root:
            out.append(x)
            # index expressions may themselves read the buffer
            for y in x[2:]:
                walk(y)
            return
        if x == root:
            out.append(x)
            return
        for y in x[1:]:
            walk(y)
    walk(t)
    return out


def abs_range(t: Term):
    """Compose a chain of constant slices over views into (root, start, end) with start >= 0 from the front and
    end <= 0 from the back (0 = to the end).  Returns None when a bound is not a constant of that shape."""
    chain = []
    t = strip(t)
    while t[0] == "slice":
        b = slice_bounds(t)
        if b is None:
            break                        # a slice with a non-constant bound is the root of the constant chain
        chain.append((b[1], b[2]))
        t = strip(b[0])
    start, end = 0, 0
    for lo, hi in reversed(chain):      # innermost (closest to the root) first
        lo = 0 if lo is None else lo
        if lo < 0:
            return None
        if hi is None:
            hi = 0
        elif hi > 0:
            return None                  # absolute upper bounds are not composed here
        start += lo
        end += hi
    return t, start, end


def index_of(t: Term):
    """For ('sub', chain, const k) -> (root, absolute position description) : ('front', n) or ('back', -n)."""
    t = strip(t)
    if t[0] != "sub" or not is_const(t[2]) or not isinstance(t[2][1], int):
        return None
    k = t[2][1]
    cur = strip(t[1])
    pos = ("front", k) if k >= 0 else ("back", k)
    while cur[0] == "slice":
        b = slice_bounds(cur)
        if b is None:
            return None
        lo, hi = (0 if b[1] is None else b[1]), b[2]
        if lo < 0:
            return None
        if pos[0] == "front":
            if hi is not None and hi > 0 and pos[1] >= hi - lo:
                return None                   # outside the slice
            if hi is not None and hi < 0:
                pass                          # front index unaffected by trimming the tail (bounds are C09/C14's concern)
            pos = ("front", pos[1] + lo)
        else:
            if hi is None:
                pass
            elif hi < 0:
                pos = ("back", pos[1] + hi)
            else:
                pos = ("front", hi + pos[1])  # x[:n][-k] is x[n-k] when len(x) >= n
        cur = strip(b[0])
    return cur, pos


def true_facts(summary) -> List[List[Term]]:
    """For a boolean function: the fact sets under which it can return a truthy value - one list per such return.
    `return True` contributes the facts of its path; `return <expr>` contributes path facts + expr assumed true."""
    out = []
    for pc, t, node, _st in summary.returns:
        if node is None:
            continue
        if is_const(t) and not t[1]:
            continue
        if True:
            full = tuple(pc) + (() if is_const(t) else ((t, True),))
            try:
                cs = cases(full, cap=64)
            except ValueError:
                cs = None
            if cs:
                out.extend(cs)          # a gated result (a flag assembled over several statements): one fact set per way of being true
            else:
                out.append(atoms(full))
    return out


def false_facts(summary) -> List[List[Term]]:
    out = []
    for pc, t, node, _st in summary.returns:
        if node is None:
            continue
        if is_const(t) and t[1]:
            continue
        if is_const(t):
            out.append(atoms(pc))
        else:
            out.append(atoms(tuple(pc) + ((t, False),)))
    return out


def digest_parts(t: Term):
    """(algorithm, [hashed parts in order]) for  hashlib.X(a).digest() / hashlib.X(); .update(a); .update(b); .digest() /
    hashlib.new("X", a).digest()  (hexdigest likewise), else None."""
    if not (isinstance(t, tuple) and t and t[0] == "call" and t[1][0] == "meth" and t[1][2] in ("digest", "hexdigest")):
        return None
    h = t[1][1]
    parts = []
    while h[0] == "mut" and h[1] == "update":
        parts = list(h[3][:1]) + parts
        h = h[2]
    alg = None
    if call_is(h, "hashlib.md5", "hashlib.sha256", "hashlib.sha1"):
        alg = h[1][1].split(".")[-1]
        init = list(h[2][:1])
    elif call_is(h, "hashlib.new") and h[2] and is_const(h[2][0]):
        alg = str(h[2][0][1]).lower()
        init = list(h[2][1:2])
    else:
        return None
    flat = []

    def cat(x):
        x2 = strip(x)
        if x2[0] == "bin" and x2[1] == "+":
            cat(x2[2]), cat(x2[3])
        else:
            flat.append(x2)
    for x in init + parts:
        cat(x)
    return alg, flat


def nonnull(t: Term) -> bool:
    """The value of t is certainly not None (by construction)."""
    k = t[0]
    if k == "const":
        return t[1] is not None
    if k in ("slice", "bin", "tuple", "list", "dict", "set", "fstr", "cmp", "enum", "comp", "bool", "un"):
        return True
    if k == "call":
        f = t[1]
        if f[0] == "ext" and f[1] in ("bytes", "bytearray", "memoryview", "len", "int", "str", "bool", "int.from_bytes", "list", "dict", "tuple", "set"):
            return True
        if f[0] == "meth" and f[2] in ("tobytes", "hex", "digest", "to_bytes", "encode", "decode", "find", "copy", "format", "join"):
            return True
    return False


def _none_cases(x: Term, want: bool) -> List[List[Term]]:
    """DNF of (x is None) == want for a gated term x."""
    if x[0] == "ite":
        return [p + q for p in alternatives(x[1], True) for q in _none_cases(strip(x[2]), want)] + \
               [p + q for p in alternatives(x[1], False) for q in _none_cases(strip(x[3]), want)]
    if x == ("const", None):
        return [[]] if want else []
    if nonnull(x):
        return [] if want else [[]]
    return [[("cmp", "is" if want else "is not", x, ("const", None))]]


def _neg_atom(a: Term) -> Term:
    if a[0] == "cmp":
        return ("cmp", NEG[a[1]], a[2], a[3])
    if a[0] == "un" and a[1] == "not":
        return a[2]
    return ("un", "not", a)


def _val_norm(t):
    if not isinstance(t, tuple):
        return t
    if t and t[0] == "enum":
        return ("const", t[3])
    return tuple(_val_norm(x) for x in t)


def _distinct_consts(a, b) -> bool:
    a, b = _val_norm(a), _val_norm(b)
    return isinstance(a, tuple) and isinstance(b, tuple) and a[:1] == ("const",) and b[:1] == ("const",) and type(a[1]) in (int, str, bytes) \
        and type(b[1]) in (int, str, bytes) and a[1] != b[1]


def cases(pc, cap: int = 256) -> List[List[Term]]:
    """The path condition as a list of cases (each a list of definite positive atoms): the product of the alternatives of every
    conjunct, contradictory cases removed.  A path condition without disjunctions / gated tests has exactly one case."""
    out: List[List[Term]] = [[]]
    for c, truth in pc:
        alts = alternatives(c, truth)
        nxt = []
        for base in out:
            for alt in alts:
                case = list(base)
                ok = True
                for a in alt:
                    if _neg_atom(a) in case or _val_norm(_neg_atom(a)) in [_val_norm(x) for x in case]:
                        ok = False          # (an enum member and its value are the same thing to compare with)
                        break
                    if a[0] == "cmp" and a[1] == "==" and any(x[0] == "cmp" and x[1] == "==" and _val_norm(x[2]) == _val_norm(a[2]) and _distinct_consts(x[3], a[3])
                                                              for x in case):
                        ok = False          # x == 1 and x == 3
                        break
                    if a not in case:
                        case.append(a)
                if ok:
                    nxt.append(case)
        out = nxt
        if len(out) > cap:
            raise ValueError("too many cases")
    return out


def decide(c: Term, facts) -> Optional[bool]:
    """Truth of c under a set of definite atoms, when the atoms settle it."""
    fs = facts if isinstance(facts, (set, frozenset)) else set(facts)
    at, af = alternatives(c, True), alternatives(c, False)
    if any(all(a in fs for a in alt) for alt in at):
        return True
    if any(all(a in fs for a in alt) for alt in af):
        return False
    # every way of being true contradicts the facts -> false (and vice versa)
    if at and all(any(_neg_atom(a) in fs for a in alt) for alt in at):
        return False
    if af and all(any(_neg_atom(a) in fs for a in alt) for alt in af):
        return True
    if not at:
        return False
    if not af:
        return True
    return None


def simplify(t, facts):
    """Resolve the gates of t that the facts settle."""
    fs = facts if isinstance(facts, (set, frozenset)) else set(facts)
    if not isinstance(t, tuple):
        return t
    if t and t[0] == "ite":
        d = decide(t[1], fs)
        if d is True:
            return simplify(t[2], fs)
        if d is False:
            return simplify(t[3], fs)
        # undecided: each branch additionally knows the one way its side of the gate can still hold
        def learn(truth):
            alive = [alt for alt in alternatives(t[1], truth) if not any(_neg_atom(a) in fs for a in alt)]
            return fs | set(alive[0]) if len(alive) == 1 else fs
        return ("ite", simplify(t[1], fs), simplify(t[2], learn(True)), simplify(t[3], learn(False)))
    return tuple(simplify(x, fs) for x in t)


def alternatives(c: Term, truth: bool) -> List[List[Term]]:
    """Disjunctive normal form of (c is truth): a list of alternatives, each a list of positive atoms."""
    c = c if isinstance(c, tuple) else ("const", c)
    if c[0] == "un" and c[1] == "not":
        return alternatives(c[2], not truth)
    if c[0] == "cmp" and c[1] in ("is", "is not", "==", "!=") and (c[2] == ("const", None) or c[3] == ("const", None)):
        # None test of a gated value (typically the Optional result of an inlined helper): split on the gates
        x = c[3] if c[2] == ("const", None) else c[2]
        want = truth if c[1] in ("is", "==") else not truth
        if strip(x)[0] == "ite" or strip(x) == ("const", None) or nonnull(strip(x)):
            return _none_cases(strip(x), want)
    if c[0] == "cmp" and c[1] in ("in", "not in") and _elts(c[3], True) is not None:
        # membership in a literal container (for a dict: among its keys): x == a or x == b / x != a and x != b
        elts = _elts(c[3], True)
        if (c[1] == "in") == truth:
            return [[("cmp", "==", c[2], y)] for y in elts]
        return [[("cmp", "!=", c[2], y) for y in elts]]
    if c[0] == "cmp":
        return [[oriented(c if truth else ("cmp", NEG[c[1]], c[2], c[3]))]]
    if c[0] == "ite" and is_const(c[2]) and is_const(c[3]) and isinstance(c[2][1], bool) and isinstance(c[3][1], bool):
        # a gated boolean constant (boolean result of an inlined helper)
        if c[2][1] == c[3][1]:
            return [[]] if c[2][1] == truth else []
        return alternatives(c[1], truth if c[2][1] else not truth)
    if c[0] == "ite":
        return [p + q for p in alternatives(c[1], True) for q in alternatives(c[2], truth)] + \
               [p + q for p in alternatives(c[1], False) for q in alternatives(c[3], truth)]
    if c[0] == "const":
        return [[]] if bool(c[1]) == truth else []
    if c[0] == "bool":
        if (c[1] == "and") == truth:
            acc = [[]]
            for x in c[2]:
                acc = [p + q for p in acc for q in alternatives(x, truth)]
            return acc
        out = []
        for x in c[2]:
            out += alternatives(x, truth)
        return out
    if c[0] == "call" and c[1] == ("ext", "bool") and len(c[2]) == 1:
        return alternatives(c[2][0], truth)
    return [[c if truth else ("un", "not", c)]]


def pc_implies(pc, pred) -> bool:
    """The path condition (a conjunction) implies `pred(atom)` for some atom: some conjunct is such that *every* one of its
    alternatives contains an atom satisfying pred."""
    for c, truth in pc:
        alts = alternatives(c, truth)
        if alts and all(any(pred(a) for a in alt) for alt in alts):
            return True
    return False


def cut_normalise(t: Term, data: Term, facts) -> Term:
    """Read slices of the uncut buffer `data` whose bounds are written relative to the declared length L as slices of the cut
    packet P = data[:L]:   data[a : L - c] -> P[a:-c]   data[L - c : L] -> P[-c:]   data[: max(L - c, 0)] -> P[:-c]
    (`max(L - c, 0)` is exactly how Python clamps the negative bound -c).  Only applied when the facts say len(data) >= L, which
    makes P exactly L bytes long; L is any int.from_bytes(data[...]) field read."""
    from .affine import lin, Lin
    Ls = [x for x in subterms(t) if call_is(x, "int.from_bytes") and x[2] and mentions(x[2][0], data)]
    L = None
    for cand in Ls:
        ok = any(f[0] == "cmp" and ((f[1] == ">=" and call_is(strip(f[2]), "len") and strip(strip(f[2])[2][0]) == data and strip(f[3]) == cand) or
                                    (f[1] == "<=" and call_is(strip(f[3]), "len") and strip(strip(f[3])[2][0]) == data and strip(f[2]) == cand)) for f in facts)
        if ok:
            L = cand
    if L is None:
        return t
    lL = lin(L)

    def conv(b, is_hi):
        if b is None:
            return None, True
        bs = strip(b)
        if is_const(bs) and isinstance(bs[1], int):
            return (b, True) if bs[1] >= 0 else (b, False)
        if call_is(bs, "max") and len(bs[2]) == 2 and any(strip(z) == ("const", 0) for z in bs[2]):
            bs = strip([z for z in bs[2] if strip(z) != ("const", 0)][0])
        d = lin(bs) - lL
        if d.is_const() and d.c.denominator == 1:
            c = int(d.c)
            if c == 0:
                return (None, True) if is_hi else (b, False)
            if c < 0:
                return ("const", c), True
        return b, False

    def rw(x):
        if not isinstance(x, tuple):
            return x
        x = tuple(rw(y) for y in x)
        if x and x[0] == "slice" and strip(x[1]) == data and x[4] is None and (x[2] is not None or x[3] is not None):
            if any(mentions(y, L) for y in (x[2], x[3]) if y is not None):
                lo, ok1 = conv(x[2], False)
                hi, ok2 = conv(x[3], True)
                if ok1 and ok2:
                    cut = ("slice", x[1], None, L, None)
                    return cut if (lo is None and hi is None) else ("slice", cut, lo, hi, None)
        return x
    return rw(t)


def block_of(x: Term, prog=None, depth: int = 0):
    """B when x is certainly a positive multiple of B bytes long: PKCS7 `pad(_, B)` adds 1..B bytes, a block cipher keeps the length
    (trusted behaviour of pycryptodome, as everywhere else)"""
    x = strip(x)
    if meth_is(x, "encrypt", "decrypt") and call_is(strip(x[1][1]), "Crypto.Cipher.AES.new") and x[2]:
        return block_of(x[2][0], prog, depth)
    if call_is(x, "Crypto.Util.Padding.pad") and len(x[2]) > 1 and is_const(x[2][1]) and isinstance(x[2][1][1], int) and x[2][1][1] > 0 \
            and dict(x[3]).get("style", x[2][2] if len(x[2]) > 2 else ("const", "pkcs7")) == ("const", "pkcs7"):
        return x[2][1][1]
    if call_is(x, "bytes", "bytearray", "memoryview") and len(x[2]) == 1 and not x[3]:
        return block_of(x[2][0], prog, depth)
    if x[0] == "call" and x[1][0] == "func" and prog is not None and x[1][1] in prog.funcs and depth < 3:
        from .terms import summarize
        try:
            rs = [t_ for _pc, t_, n_, _ in summarize(prog, prog.funcs[x[1][1]]).returns if n_ is not None]
        except Exception:
            return None
        bs = {block_of(t_, prog, depth + 1) for t_ in rs}
        return bs.pop() if len(bs) == 1 else None
    return None


def provable(c: Term, pc, leaf=None, prog=None, depth: int = 0) -> bool:
    """c certainly holds on a path with condition pc: by the facts of the path, by integer intervals of its operands (bytes are 0..255,
    `x & M` is 0..M, unsigned int.from_bytes of n bytes is 0..256**n-1, lengths of constant slices of buffers whose length the path fixes),
    or - for class tests - because every alternative of the tested value is a subclass.  False means "not shown", not "false"."""
    from .intervals import iv_of
    c = strip(c)
    if depth > 6 or not isinstance(c, tuple) or not c:
        return False
    if is_const(c):
        return bool(c[1])
    if c[0] == "bool":
        return all(provable(x, pc, leaf, prog, depth + 1) for x in c[2]) if c[1] == "and" else any(provable(x, pc, leaf, prog, depth + 1) for x in c[2])
    if c[0] == "un" and c[1] == "not":
        x = strip(c[2])
        if x[0] == "cmp" and x[1] in NEG:
            return provable(("cmp", NEG[x[1]], x[2], x[3]), pc, leaf, prog, depth + 1)
        if x[0] == "bool":
            return provable(("bool", "or" if x[1] == "and" else "and", tuple(("un", "not", y) for y in x[2])), pc, leaf, prog, depth + 1)
        if x[0] == "un" and x[1] == "not":
            return provable(x[2], pc, leaf, prog, depth + 1)
        return False
    facts = atoms(pc)
    if c in facts:
        return True
    if c[0] == "call" and c[1] in (("ext", "issubclass"), ("ext", "isinstance")) and len(c[2]) == 2 and prog is not None:
        want = strip(c[2][1])
        wants = [strip(w) for w in want[1]] if want[0] == "tuple" else [want]
        if not all(w[0] == "global" and w[1] in prog.classes for w in wants):
            return False

        def leaves(x):
            x = strip(x)
            return leaves(x[2]) + leaves(x[3]) if x[0] == "ite" else [x]
        ls = leaves(c[2][0])
        if c[1][1] == "issubclass":
            return all(x[0] == "global" and x[1] in prog.classes and any(w[1] in {k.qual for k in prog.mro(prog.classes[x[1]])} for w in wants) for x in ls)
        return False
    if c[0] != "cmp" or c[1] not in ("<", "<=", ">", ">=", "==", "!="):
        return False

    def length_of(x):
        """(lo, hi) for len(x) from the facts of the path"""
        x = strip(x)
        lo, hi = 0, None
        for f in facts:
            if f[0] == "cmp" and call_is(strip(f[2]), "len") and strip(strip(f[2])[2][0]) == x and is_const(f[3]) and isinstance(f[3][1], int):
                k = f[3][1]
                if f[1] == "==":
                    lo, hi = max(lo, k), k if hi is None else min(hi, k)
                elif f[1] == ">=":
                    lo = max(lo, k)
                elif f[1] == ">":
                    lo = max(lo, k + 1)
                elif f[1] == "<=":
                    hi = k if hi is None else min(hi, k)
                elif f[1] == "<":
                    hi = k - 1 if hi is None else min(hi, k - 1)
        if x[0] == "slice" and x[4] is None and all(b is None or (is_const(b) and isinstance(b[1], int)) for b in (x[2], x[3])):
            blo, bhi = length_of(x[1])
            a_, b_ = (None if x[2] is None else x[2][1]), (None if x[3] is None else x[3][1])
            ends = [len(range(n_)[a_:b_]) for n_ in ([blo] + ([bhi] if bhi is not None else []))]
            if bhi is None:
                # unbounded base: the slice length is monotone in the base length; bounded above only when the slice has a fixed width
                top = len(range(10 ** 6)[a_:b_])
                return min(ends), (top if top < 10 ** 5 else None)
            return min(ends), max(ends)
        return lo, hi

    def lf(t):
        if t[0] == "bin" and t[1] in ("%", "&") and call_is(strip(t[2]), "len") and len(strip(t[2])[2]) == 1 and is_const(t[3]) and isinstance(t[3][1], int) and t[3][1] > 0:
            b = block_of(strip(t[2])[2][0], prog)
            k = t[3][1] if t[1] == "%" else t[3][1] + 1          # (x % 2**n is normalised to x & (2**n - 1))
            if b is not None and b % k == 0 and (t[1] == "%" or k & (k - 1) == 0):
                return (0, 0)
        if call_is(t, "len") and len(t[2]) == 1:
            lo, hi = length_of(t[2][0])
            b = block_of(t[2][0], prog)
            if b is not None:
                lo = max(lo, b)
            return (lo, hi if hi is not None else 10 ** 12)
        if call_is(t, "int.from_bytes") and t[2] and dict(t[3]).get("signed", ("const", False)) == ("const", False):
            lo, hi = length_of(t[2][0])
            if hi is not None and hi <= 8:
                return (0, 256 ** hi - 1)
            return (0, 10 ** 30)
        return leaf(t) if leaf is not None else None
    ia, ib = iv_of(c[2], lf), iv_of(c[3], lf)
    if ia is None or ib is None:
        return False
    op = c[1]
    return {"<": ia[1] < ib[0], "<=": ia[1] <= ib[0], ">": ia[0] > ib[1], ">=": ia[0] >= ib[1],
            "==": ia[0] == ia[1] == ib[0] == ib[1], "!=": ia[1] < ib[0] or ib[1] < ia[0]}[op]
