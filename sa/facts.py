"""Definite facts from path conditions, and matchers over value-flow terms."""
from __future__ import annotations

from typing import Dict, Iterable, List, Optional, Tuple

from .terms import NEG, FLIP, Term, const, is_const, subterms, unview, show


def atoms(pc) -> List[Term]:
    """Definite positive atoms implied by a path condition (conjunction of (term, truth) pairs).

    not x / and-under-true / or-under-false are flattened; comparisons are put in positive form
    (`(a != b) is False` becomes `a == b`).  Disjunctions contribute nothing (not definite)."""
    out: List[Term] = []

    def add(c, truth):
        if not isinstance(c, tuple):
            return
        k = c[0]
        if k == "un" and c[1] == "not":
            add(c[2], not truth)
        elif k == "bool" and c[1] == "and" and truth:
            for x in c[2]:
                add(x, True)
        elif k == "bool" and c[1] == "or" and not truth:
            for x in c[2]:
                add(x, False)
        elif k == "cmp":
            out.append(c if truth else ("cmp", NEG[c[1]], c[2], c[3]))
        elif k == "call" and c[1] == ("ext", "bool") and len(c[2]) == 1:
            add(c[2][0], truth)
        else:
            out.append(c if truth else ("un", "not", c))
    for c, truth in pc:
        add(c, truth)
    return out


def call_is(t: Term, *names: str) -> bool:
    """t is a call whose resolved target (repo function / external dotted name) is one of names."""
    return isinstance(t, tuple) and t and t[0] == "call" and t[1][0] in ("func", "ext") and t[1][1] in names


def meth_is(t: Term, *names: str) -> bool:
    return isinstance(t, tuple) and t and t[0] == "call" and t[1][0] == "meth" and t[1][2] in names


def call_args(t: Term) -> Tuple[Term, ...]:
    return t[2]


def kwarg(t: Term, name: str) -> Optional[Term]:
    for k, v in t[3]:
        if k == name:
            return v
    return None


def equality_atoms(facts: Iterable[Term]) -> List[Tuple[Term, Term]]:
    """(a, b) for every fact that states a == b (==, hmac.compare_digest)."""
    out = []
    for f in facts:
        if f[0] == "cmp" and f[1] == "==":
            out.append((f[2], f[3]))
        elif call_is(f, "hmac.compare_digest", "secrets.compare_digest") and len(f[2]) == 2:
            out.append((f[2][0], f[2][1]))
    return out


def slice_bounds(t: Term):
    """For ('slice', base, lo, hi, step) with constant / None bounds -> (base, lo, hi) else None."""
    if not (isinstance(t, tuple) and t and t[0] == "slice"):
        return None
    _, base, lo, hi, step = t
    if step is not None:
        return None
    lo_v = None if lo is None else (lo[1] if is_const(lo) and isinstance(lo[1], int) else ...)
    hi_v = None if hi is None else (hi[1] if is_const(hi) and isinstance(hi[1], int) else ...)
    if lo_v is ... or hi_v is ...:
        return None
    return base, lo_v, hi_v


def strip(t: Term) -> Term:
    """unview applied through nested wrappers."""
    prev = None
    while prev != t:
        prev = t
        t = unview(t)
    return t


def find_calls(t: Term, *names: str) -> List[Term]:
    return [x for x in subterms(t) if call_is(x, *names)]


def find_meth_calls(t: Term, *names: str) -> List[Term]:
    return [x for x in subterms(t) if meth_is(x, *names)]


def len_cmp(fact: Term):
    """Normalise a fact `len(X) op c` (either operand order) -> (X, op, c) with c int, else None."""
    if fact[0] != "cmp":
        return None
    op, a, b = fact[1], fact[2], fact[3]
    if call_is(a, "len") and is_const(b) and isinstance(b[1], int):
        return strip(a[2][0]), op, b[1]
    if call_is(b, "len") and is_const(a) and isinstance(a[1], int) and op in FLIP:
        return strip(b[2][0]), FLIP[op], a[1]
    return None


def root_of(t: Term) -> Term:
    """Innermost buffer a slice / subscript / view chain reads from."""
    while True:
        t2 = strip(t)
        if t2[0] in ("slice", "sub"):
            t = t2[1]
            continue
        if t2 == t:
            return t
        t = t2


def reads_of(t: Term, root: Term) -> List[Term]:
    """Maximal slice / subscript / bare uses of `root` inside t (outermost access chains only)."""
    out = []

    def walk(x):
        if not isinstance(x, tuple) or not x or not isinstance(x[0], str):
            if isinstance(x, tuple):
                for y in x:
                    walk(y)
            return
        if x[0] in ("slice", "sub") and root_of(x) == root:
            out.append(x)
            # index expressions may themselves read the buffer
            for y in x[2:]:
                walk(y)
            return
        if x == root:
            out.append(x)
            return
        for y in x[1:]:
            walk(y)
    walk(t)
    return out


def abs_range(t: Term):
    """Compose a chain of constant slices over views into (root, start, end) with start >= 0 from the front and
    end <= 0 from the back (0 = to the end).  Returns None when a bound is not a constant of that shape."""
    chain = []
    t = strip(t)
    while t[0] == "slice":
        b = slice_bounds(t)
        if b is None:
            return None
        chain.append((b[1], b[2]))
        t = strip(b[0])
    start, end = 0, 0
    for lo, hi in reversed(chain):      # innermost (closest to the root) first
        lo = 0 if lo is None else lo
        if lo < 0:
            return None
        if hi is None:
            hi = 0
        elif hi > 0:
            return None                  # absolute upper bounds are not composed here
        start += lo
        end += hi
    return t, start, end


def index_of(t: Term):
    """For ('sub', chain, const k) -> (root, absolute position description) : ('front', n) or ('back', -n)."""
    t = strip(t)
    if t[0] != "sub" or not is_const(t[2]) or not isinstance(t[2][1], int):
        return None
    k = t[2][1]
    cur = strip(t[1])
    pos = ("front", k) if k >= 0 else ("back", k)
    while cur[0] == "slice":
        b = slice_bounds(cur)
        if b is None:
            return None
        lo, hi = (0 if b[1] is None else b[1]), b[2]
        if lo < 0:
            return None
        if pos[0] == "front":
            if hi is not None and hi > 0 and pos[1] >= hi - lo:
                return None                   # outside the slice
            if hi is not None and hi < 0:
                pass                          # front index unaffected by trimming the tail (bounds are C09/C14's concern)
            pos = ("front", pos[1] + lo)
        else:
            if hi is None:
                pass
            elif hi < 0:
                pos = ("back", pos[1] + hi)
            else:
                pos = ("front", hi + pos[1])  # x[:n][-k] is x[n-k] when len(x) >= n
        cur = strip(b[0])
    return cur, pos
