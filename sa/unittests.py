"""Engine unit tests on tiny embedded programs (run by setup_cmd).  Each engine must both accept a good example
and flag a bad one - a rule that can no longer fire is caught here, before any check is trusted."""
from __future__ import annotations

import os
import shutil
import sys
import tempfile
import textwrap

GOOD_BAD = '''
import struct

class Err(Exception):
    pass

class SubErr(Err):
    pass

def guarded(buf):
    if len(buf) < 4:
        raise Err("short")
    return buf[3]

def unguarded(buf):
    return buf[3]

def caught(buf):
    try:
        return int(buf.decode(), 16)
    except ValueError:
        return None

def routed(x):
    try:
        if x:
            raise SubErr()
        return 1
    except Err:
        return 2

class Enc:
    def good(self, a, flag):
        return bytes([0x40 | (a & 0x0F), 0x80 if flag else 0])

    def lossy(self, a):
        return bytes([(a & 0x03)])

    def collide(self, a, flag):
        return bytes([(a & 0x0F) | (0x08 if flag else 0)])

def frame(data):
    hdr = b"\\xaa" + (len(data) + 3).to_bytes(2, "little")
    return hdr + data

def retry(read, n):
    while n > 0:
        try:
            return read()
        except TimeoutError:
            if n > 1:
                n -= 1
            else:
                raise

def forever(read, n):
    while n > 0:
        try:
            read()
        except TimeoutError:
            pass

def records(buf):
    out = []
    while len(buf) >= 2:
        size = buf[1]
        if size == 0:
            buf = buf[2:]
            continue
        out.append(buf[0])
        buf = buf[2 + size:]
    return out

import hashlib

KEY = b"k"

def sign(data):
    return hashlib.md5(data + KEY).digest()

def sign_chunks(*chunks):
    h = hashlib.md5()
    for c in chunks:
        h.update(c)
    h.update(KEY)
    return h.digest()

def signed_two_ways(a, b):
    return sign_chunks(a, b) == sign(a + b)

def switch(data, *, strict=None):
    if strict is not None and data[0] != strict:
        raise Err("strict")
    return data[1:]

def uses_switch(data):
    return switch(data)

def reject(msg):
    print(msg)
    exit(1)

def after_reject(x):
    if not isinstance(x, int):
        reject("no")
    return x + 1

TABLE = None

class Tab:
    FIELDS = {k: (k - 16) & 0xF for k in range(17, 31)}

    def lookup(self, t):
        t = int(t)
        v = self.FIELDS.get(t)
        if v is None:
            v = (t - 16) & 0xF
        return v

def unpack2(buf):
    lo, hi = buf[:2]
    return lo | (hi << 8)

def unpack2_checked(buf):
    if len(buf) < 2:
        raise Err("short")
    lo, hi = buf[:2]
    return lo | (hi << 8)

class Rx:
    def __init__(self):
        self._buffer = bytearray()
        self.out = []

    def feed(self, data):
        self._buffer += data
        buffer = self._buffer
        end = len(buffer)
        consumed = 0
        try:
            while consumed < end:
                start = buffer.find(b"\\x83\\x70", consumed)
                if start == -1:
                    return
                if end - start < 6:
                    return
                total = int.from_bytes(buffer[start + 2:start + 4], "big") + 8
                if end - start < total:
                    return
                self.out.append(bytes(buffer[start:start + total]))
                consumed = start + total
        finally:
            if consumed:
                del buffer[:consumed]

class Chan:
    async def drain(self):
        yield 1

    async def good(self, pkt):
        got = []
        async for x in self.drain():
            got.append(x)
        self.log(len(got))
        self.write(pkt)
        return got

    async def bad(self, pkt):
        got = []
        async for x in self.drain():
            got.append(x)
        await self.settle()
        self.write(pkt)
        return got

    async def bad_branch(self, pkt, slow):
        got = [x async for x in self.drain()]
        if slow:
            async with self.lock:
                pass
        self.write(pkt)
        return got

    async def cache_ok(self, cred):
        await self.handshake(cred)
        self.cred = cred
        await self.settle()

    async def cache_late(self, cred):
        await self.handshake(cred)
        await self.settle()
        self.cred = cred

    async def no_handshake(self, cred):
        await self.settle()
        self.cred = cred

class Fwd:
    def post(self, url, *, form=None, raw=None):
        return (url, form, raw)

    def locked(self, url, **kwargs):
        return self.post(url, **kwargs)

    def call(self, body):
        return self.locked("u", form=body)

class Tmpl:
    def __init__(self, a, b):
        self.a = a

def lazy(names):
    t = None
    out = []
    for n in names:
        if t is None:
            t = Tmpl(0, 0)
        out.append(getattr(t, n))
    return out

def lazy_mutated(names):
    t = None
    for n in names:
        if t is None:
            t = Tmpl(0, 0)
        t.poke(n)
    return t
'''


def main() -> int:
    from .absint import EventAnalysis, run_events
    from .affine import Lin
    from .bits import LinV, Pred, Region, Top, eval_regions
    from .facts import atoms, strip
    from .model import Program
    from .paths import CursorLoop, find_loops
    from .raises import Config, Raises, Val
    from .retry import Explorer
    from .seq import Layouts, total
    from .terms import summarize

    tmp = tempfile.mkdtemp(prefix="sa-unit-")
    fails = []

    def check(name, cond):
        if not cond:
            fails.append(name)
    try:
        os.makedirs(os.path.join(tmp, "msmart"))
        with open(os.path.join(tmp, "msmart", "__init__.py"), "w") as fh:
            fh.write("")
        with open(os.path.join(tmp, "msmart", "unit.py"), "w") as fh:
            fh.write(textwrap.dedent(GOOD_BAD))
        prog = Program(root=tmp, rename="none")
        q = "msmart.unit."
        t = Val(taint=True, kind="bytes")
        # E4: may-raise with length facts and handler routing
        for fn, want in (("guarded", {"msmart.unit.Err"}), ("unguarded", {"IndexError"}), ("caught", set())):
            R = Raises(prog, Config())
            _r, esc = R.analyze(prog.func(q + fn), {"buf": t})
            check(f"raises:{fn}", {str(e) for e in esc} == want)
        # E1/E6: terms, gating, exception subclass routing
        s = summarize(prog, prog.func(q + "routed"))
        rets = sorted(tm[1] for _pc, tm, n, _ in s.returns if n is not None)
        check("terms:routed", rets == [1, 2])
        s = summarize(prog, prog.func(q + "guarded"))
        check("terms:facts", any(f[0] == "cmp" and f[1] == ">=" for _pc, _t, n, _ in s.returns if n is not None for f in atoms(_pc)))
        # E2: bit-field domain
        def leaf(tm, be):
            if tm == ("param", "a"):
                return LinV({"a": 1})
            if tm == ("param", "flag"):
                return Pred("flag")
            return None
        for fn, expect in (("Enc.good", "ok"), ("Enc.lossy", "lossy"), ("Enc.collide", "collision")):
            s = summarize(prog, prog.func(q + fn))
            items = strip(s.returns[0][1])[2][0][1]
            regs = eval_regions({f"b{i}": it for i, it in enumerate(items)}, leaf, Region({"a": [(0, 15)]}))
            got = "ok"
            for _r, vals, be in regs:
                if be.lossy:
                    got = "lossy"
                if be.collisions or any(isinstance(v, Top) and "collision" in v.reason for v in vals.values()):
                    got = "collision"
            check(f"bits:{fn}", got == expect)
        # E3: layouts with affine lengths
        s = summarize(prog, prog.func(q + "frame"))
        lay = Layouts(prog).layout(s.returns[0][1])
        check("seq:frame", total(lay) == Lin(3, {("len", "data"): 1}))
        # E5: retry-loop exploration and divergence detection
        def classify(c):
            import ast
            if isinstance(c.func, ast.Name) and c.func.id == "read":
                return ("oracle", "read", ["TimeoutError"])
            return None
        import ast
        f = prog.func(q + "retry")
        loop = [n for n in ast.walk(f.node) if isinstance(n, ast.While)][0]
        paths = Explorer(prog, f, classify, {"n": 3}).run([loop], {"n": 3}, ())
        check("retry:bounded", max(len([x for x in p.trace if x.startswith("read:")]) for p in paths) == 3 and not any(p.kind == "diverge" for p in paths))
        f = prog.func(q + "forever")
        loop = [n for n in ast.walk(f.node) if isinstance(n, ast.While)][0]
        paths = Explorer(prog, f, classify, {"n": 2}).run([loop], {"n": 2}, ())
        check("retry:diverge", any(p.kind == "diverge" for p in paths))
        # E5: cursor loops
        f = prog.func(q + "records")
        s = summarize(prog, f)
        cl = CursorLoop(s, find_loops(f.node)[0], "buf")
        advs = sorted(repr(cl.advance(st)) for _k, st in cl.back_edges())
        check("paths:cursor", len(advs) == 2 and all(a is not None for a in advs))
        # E1: must-events
        ea = EventAnalysis(must=True, on_branch=lambda test, truth, st: ["guard"] if not truth else [])
        comp = run_events(prog, prog.func(q + "guarded"), ea)
        check("events:dominance", all("guard" in st for st, n in comp.returns if n is not None))
        # normal forms added with the refactoring campaigns (rounds 4 and 5)
        from .terms import none_test, simp_ite, unsupplied_switches
        from .facts import call_is
        s = summarize(prog, prog.func(q + "signed_two_ways"))
        rt = strip(s.returns[0][1])
        check("nf:incremental-hash+outline", rt[0] == "cmp" and strip(rt[2]) == strip(rt[3]) or (call_is(strip(rt[2]), "hashlib.md5") is False and strip(rt[2]) == strip(rt[3])))
        check("nf:simp-ite", simp_ite(("ite", ("param", "c"), ("const", 1), ("ite", ("un", "not", ("param", "c")), ("const", 2), ("const", 3)))) ==
              ("ite", ("param", "c"), ("const", 1), ("const", 2)) and simp_ite(("ite", ("param", "c"), ("const", 1), ("const", 1))) == ("const", 1))
        check("nf:none-test", none_test(("ite", ("param", "c"), ("tuple", ()), ("const", None))) == ("un", "not", ("param", "c")))
        check("switch:unsupplied", unsupplied_switches(prog, prog.func(q + "switch")) == {"strict": ("const", None)})
        s = summarize(prog, prog.func(q + "switch"))
        check("switch:specialised", not s.raises and len(s.returns) == 1)
        s = summarize(prog, prog.func(q + "after_reject"))
        check("never-returns", all(any(call_is(a_, "isinstance") for a_ in atoms(pc_)) for pc_, _t, n_, _ in s.returns if n_ is not None) and bool(s.returns))
        s = summarize(prog, prog.func(q + "Tab.lookup"))
        lk = strip(simp_ite(s.return_term()))
        check("nf:precomputed-table", lk[0] == "bin" and lk[1] == "&" or (lk[0] == "ite" and strip(lk[2]) == strip(lk[3])))
        for fn, want in (("unpack2", {"ValueError"}), ("unpack2_checked", {"msmart.unit.Err"})):
            R = Raises(prog, Config())
            _r, esc = R.analyze(prog.func(q + fn), {"buf": t})
            check(f"raises:{fn}", {str(e) for e in esc} == want)
        from .producer import find_offset_form, put_length_bound
        fr = prog.func(q + "Rx.feed")
        check("reassembly:offset-form", find_offset_form(summarize(prog, fr), fr) is not None)
        kept = [strip(rst.env.get("self._buffer", ("top",))) for _pc, _t, _n, rst in summarize(prog, fr).returns]
        check("terms:del-slice", bool(kept) and all(k_[0] in ("ite", "slice") for k_ in kept))
        # names: a consistent rename of private names is recognised (and only that)
        import ast
        from . import names
        old = "class K:\n def __init__(self):\n  self._buf = b''\n  self._n = 0\n def feed(self, d):\n  self._buf += d\n  self._n += 1\n  return self._cut()\n def _cut(self):\n  x = self._buf[:2]\n  self._buf = self._buf[2:]\n  return x\n"
        new = old.replace("_buf", "_pending").replace("_cut", "_take") + " def _extra(self):\n  return self._n\n"

        def ref_of(src):
            return names.survey({"msmart/k.py": ast.parse(src)})
        back, _d = names.match(names.survey({"msmart/k.py": ast.parse(new)}), ref_of(old))
        check("names:rename", back == {"_pending": "_buf", "_take": "_cut"})
        back, _d = names.match(names.survey({"msmart/k.py": ast.parse(old + " def _extra(self):\n  return self._n\n")}), ref_of(old))
        check("names:nothing-missing", back == {})
        # moves: definitions moved to another module, calling conventions, cross-module helpers and handed-out results are put back
        from . import moves
        lan_src = ("from msmart._security import Security\nfrom msmart.utils import packet_timestamp, queue_flush\n"
                   "class _Packet:\n    _timestamp = staticmethod(packet_timestamp)\n    @classmethod\n    def encode(cls, command, *, device_id):\n        return command\n"
                   "class _LanProtocol:\n    def _flush(self):\n        queue_flush(self._queue)\n"
                   "class LAN:\n    async def _connect(self):\n        protocol = object()\n        return protocol\n"
                   "    async def send(self, data):\n        self._protocol = await self._connect()\n        return _Packet.encode(data, device_id=self._device_id)\n")
        trees = {"msmart/lan.py": ast.parse(lan_src),
                 "msmart/_security.py": ast.parse("from hashlib import md5\nclass Security:\n    @classmethod\n    def sign(cls, data):\n        return md5(data).digest()\n"),
                 "msmart/utils.py": ast.parse("import struct\ndef packet_timestamp():\n    return struct.pack('B', 1)\ndef queue_flush(queue):\n    try:\n        while True:\n            queue.get_nowait()\n    except KeyError:\n        pass\n")}
        moves.undo(trees)
        moves.undo_signatures(trees)
        moves.undo_extractions(trees)
        moves.undo_result_ownership(trees)
        out = ast.unparse(trees["msmart/lan.py"])
        check("moves:class-moved-back", "class Security" in out and "def sign" in out)
        check("moves:method-alias", "def _timestamp()" in out and "struct.pack" in out and "import struct" in out)
        check("moves:signature", "def encode(cls, device_id, command)" in out and "_Packet.encode(self._device_id, data)" in out)
        check("moves:helper-inlined", "queue_flush(self._queue)" not in out and "self._queue.get_nowait()" in out)
        check("moves:result-ownership", "self._protocol = protocol" in out and "await self._connect()" in out and "self._protocol = await" not in out)
        same = {"msmart/lan.py": ast.parse("class Security:\n    def sign(self, data):\n        return data\n")}
        before = ast.unparse(same["msmart/lan.py"])
        moves.undo(same), moves.undo_signatures(same), moves.undo_extractions(same), moves.undo_result_ownership(same)
        check("moves:identity-on-reference-shape", ast.unparse(same["msmart/lan.py"]) == before)
        # E9: suspension points between a start event and a target (atomic sections)
        from .atomic import sections, self_call, simple, stores_self_attr

        def drain_(n):
            return (isinstance(n, ast.AsyncFor) and self_call(n.iter, "drain")) or (simple(n) and self_call(n, "drain"))
        for fn, want in (("Chan.good", 0), ("Chan.bad", 1), ("Chan.bad_branch", 1)):
            sec = sections(prog, prog.func(q + fn), drain_, lambda n: simple(n) and self_call(n, "write"))
            check(f"atomic:{fn}", len(sec) == 1 and all(len(v) == want for v in sec.values()))
        for fn, want in (("Chan.cache_ok", 0), ("Chan.cache_late", 1), ("Chan.no_handshake", 0)):
            sec = sections(prog, prog.func(q + fn), lambda n: simple(n) and self_call(n, "handshake"), lambda n: stores_self_attr(n, ("cred",)))
            check(f"atomic:{fn}", len(sec) == 1 and all(len(v) == want for v in sec.values()))
        sec = sections(prog, prog.func(q + "Chan.no_handshake"), None, lambda n: stores_self_attr(n, ("cred",)), from_entry=True)
        check("atomic:from-entry", len(sec) == 1 and all(len(v) == 1 for v in sec.values()))
        # value-flow: surplus keywords of a call are bound to the callee's **kwargs and expanded again where it forwards them
        fw = strip(summarize(prog, prog.func(q + "Fwd.call")).return_term())
        check("terms:kwargs-forwarding", fw[0] == "tuple" and len(fw[1]) == 3 and strip(fw[1][1]) == ("param", "body") and strip(fw[1][2]) == ("const", None))
        # desugar: a read-only object built on first use is the object built where it is used; one that is handed a method call is left alone
        lz = ast.unparse(prog.func(q + "lazy").node)
        lm = ast.unparse(prog.func(q + "lazy_mutated").node)
        check("desugar:lazy-template", "if t is None" not in lz and "t = Tmpl(0, 0)" in lz)
        check("desugar:lazy-template-mutated-kept", "if t is None" in lm)
    finally:
        shutil.rmtree(tmp, ignore_errors=True)
    if fails:
        print("selfcheck: engine unit tests FAILED:", fails)
        return 1
    print("selfcheck: engine unit tests ok")
    return 0


if __name__ == "__main__":
    sys.exit(main())
