"""Thorough tier: package-wide sweeps of the generic rule families.  Findings outside the anchored sites are recorded as
observations in the evidence (never as violations: the anchored rules own the verdict)."""
from __future__ import annotations

import ast
from typing import Dict, List

from .model import Program, const_int, norm, walk_no_nested


def neg_zero_slices(prog: Program) -> List[dict]:
    """x[a:-e] with a non-constant e: empty when e == 0."""
    out = []
    for f in prog.all_functions():
        for n in walk_no_nested(f.node):
            if isinstance(n, ast.Subscript) and isinstance(n.slice, ast.Slice) and isinstance(n.slice.upper, ast.UnaryOp) \
                    and isinstance(n.slice.upper.op, ast.USub) and const_int(n.slice.upper.operand) is None:
                out.append({"function": f.qual, "construct": norm(n)[:80]})
    return out


def asserts(prog: Program) -> List[dict]:
    out = []
    for f in prog.all_functions():
        for n in walk_no_nested(f.node):
            if isinstance(n, ast.Assert):
                out.append({"function": f.qual, "construct": norm(n)[:80]})
    return out


def retry_loops(prog: Program) -> List[dict]:
    out = []
    for f in prog.all_functions():
        for n in walk_no_nested(f.node):
            if isinstance(n, ast.While) and any(isinstance(x, ast.Try) for x in ast.walk(n)) and any(isinstance(x, ast.AugAssign) for x in ast.walk(n)):
                out.append({"function": f.qual, "condition": norm(n.test)})
    return out


def cursor_loops(prog: Program) -> List[dict]:
    out = []
    for f in prog.all_functions():
        for n in walk_no_nested(f.node):
            if isinstance(n, (ast.For, ast.While)):
                for a in ast.walk(n):
                    if isinstance(a, ast.Assign) and len(a.targets) == 1 and isinstance(a.targets[0], ast.Name) and isinstance(a.value, ast.Subscript) \
                            and isinstance(a.value.value, ast.Name) and a.value.value.id == a.targets[0].id and isinstance(a.value.slice, ast.Slice):
                        out.append({"function": f.qual, "cursor": a.targets[0].id, "advance": norm(a.value.slice.lower) if a.value.slice.lower else None})
    return out


def const_index_sites(prog: Program) -> Dict[str, int]:
    out: Dict[str, int] = {}
    for f in prog.all_functions():
        k = 0
        for n in walk_no_nested(f.node):
            if isinstance(n, ast.Subscript) and isinstance(n.ctx, ast.Load) and const_int(n.slice) is not None:
                k += 1
        if k:
            out[f.qual] = k
    return out


def split_state_updates(prog: Program) -> List[dict]:
    """E9 over the whole package: in every coroutine, stores to instance / class state that are separated from the previous such store by a
    suspension point - the places where a cancellation or a concurrent coroutine can observe one store without the other (the anchored
    rules own the pairs that matter: C01.c, C07.d, C08.f, C10.g)."""
    from .atomic import sections
    out = []

    def store(n):
        if not isinstance(n, (ast.Assign, ast.AugAssign, ast.AnnAssign)):
            return False
        tg = n.targets if isinstance(n, ast.Assign) else [n.target]
        return any(isinstance(t, ast.Attribute) and isinstance(t.value, ast.Name) and t.value.id in ("self", "cls") for t in tg)
    for f in prog.all_functions():
        if not isinstance(f.node, ast.AsyncFunctionDef) or f.module.is_test:
            continue
        try:
            sec = sections(prog, f, store, store)
        except Exception as e:          # an observation sweep never decides anything
            out.append({"function": f.qual, "skipped": type(e).__name__})
            continue
        for n, dirty in sec.items():
            if dirty:
                out.append({"function": f.qual, "store": norm(n)[:70], "after_suspension": dirty[:3]})
    return out


def all_sweeps(prog: Program) -> dict:
    return {"neg_zero_slices": neg_zero_slices(prog), "asserts": asserts(prog), "retry_loops": retry_loops(prog),
            "cursor_loops": cursor_loops(prog), "constant_index_sites_per_function": const_index_sites(prog),
            "state_updates_split_by_a_suspension_point": split_state_updates(prog)}
