"""E4 - effect analysis: may-raise sets with taint, value kinds and length facts (interprocedural).

For a boundary function F and a taint source S (peer-controlled bytes) this computes the set of exception
classes that can escape F *because of the content of S*, each with the raising construct and the call chain.

Abstract value (Val): taint flag, value kind (bytes / int / str / float / bool / list / map / obj / cls / any),
length lower bound + exact length (for buffers), repo classes the value may be an instance of, repo classes the
value may *be* (class-valued locals such as `response_class`).

State: name / dotted-attribute -> Val, control-taint flag (statement nested in a branch selected by a tainted
condition, or callee of such a call site), membership facts (`k in d` on the path).

Only *implicit raisers on tainted data* and *explicit raises under tainted control* count; each implicit raiser is
silenced by a proving fact (see DESIGN.md §1.5).  `env=True` additionally includes environment raisers from the
library model (timeouts, connection failures, empty queue).
"""
from __future__ import annotations

import ast
import struct as _struct
from typing import Dict, List, Optional, Tuple

from .absint import Analysis, Completions, Engine
from .libmodel import BENIGN_EXT, BENIGN_METHODS, ENV_RAISERS, STR_METHODS, BYTES_RESULT_METHODS
from .model import AnalysisError, ClassInfo, External, FuncInfo, Module, Program, const_int, norm


class Exc(str):
    """Exception class name carrying the raising site and call chain."""
    site: dict = None
    chain: tuple = ()
    why: str = ""

    def with_(self, site=None, chain=None, why=None):
        e = Exc(str(self))
        e.site = site if site is not None else self.site
        e.chain = chain if chain is not None else self.chain
        e.why = why if why is not None else self.why
        return e


class Val:
    __slots__ = ("taint", "kind", "lb", "exact", "types", "classes", "elem", "ilb", "cv", "kw", "may_none", "fields", "len_of", "iub", "built")
    NOCV = ("<no constant>",)

    def __init__(self, taint=False, kind="any", lb=0, exact=None, types=frozenset(), classes=frozenset(), elem=None,
                 ilb=None, cv=NOCV, kw=None, may_none=False, fields=None, len_of=None, iub=None, built=False):
        self.iub = iub                                  # integer upper bound
        self.built = built                              # `types` are the exact classes of constructor calls (not "some subclass of")
        self.taint, self.kind, self.lb, self.exact = taint, kind, lb, exact
        self.types, self.classes, self.elem = types, classes, elem
        self.ilb, self.cv, self.kw = ilb, cv, kw      # integer lower bound; known constant; **kwargs contents
        self.may_none, self.fields = may_none, fields  # value may be None; known attribute values of a locally built object
        self.len_of = len_of                            # this integer is len(<key>) (hoisted length)

    def key(self):
        return (self.taint, self.kind, self.lb, self.exact, self.types, self.classes, self.elem.key() if self.elem else None,
                self.ilb, self.cv if isinstance(self.cv, (int, str, bool, type(None), tuple)) else None,
                tuple((k, v.key()) for k, v in self.kw) if self.kw else None, self.may_none,
                tuple((k, v.key()) for k, v in self.fields) if self.fields else None, self.len_of, self.iub, self.built)

    def __eq__(self, o):
        return isinstance(o, Val) and self.key() == o.key()

    def __hash__(self):
        return hash(self.key())

    def __repr__(self):
        bits = [("T" if self.taint else "-") + self.kind]
        if self.kind in ("bytes", "list", "str") or self.lb:
            bits.append(f"lb={self.lb}" + (f"!{self.exact}" if self.exact is not None else ""))
        if self.types:
            bits.append("inst:" + ",".join(sorted(t.split(".")[-1] for t in self.types)))
        if self.classes:
            bits.append("cls:" + ",".join(sorted(t.split(".")[-1] for t in self.classes)))
        return "<" + " ".join(bits) + ">"

    def but(self, **kw):
        v = Val(self.taint, self.kind, self.lb, self.exact, self.types, self.classes, self.elem, self.ilb, self.cv, self.kw, self.may_none, self.fields, self.len_of, self.iub, self.built)
        for k, x in kw.items():
            setattr(v, k, x)
        return v


def deep_taint(v: "Val") -> bool:
    return bool(v is not None and (v.taint or (v.elem is not None and deep_taint(v.elem))))


CLEAN = Val()
NONE = Val(kind="none", cv=None, may_none=True)


def join_val(a: Val, b: Val) -> Val:
    if a == b:
        return a
    if a.kind == "none" and b.kind != "none":
        return b.but(may_none=True)
    if b.kind == "none" and a.kind != "none":
        return a.but(may_none=True)
    kind = a.kind if a.kind == b.kind else ("any" if "none" not in (a.kind, b.kind) else (a.kind if b.kind == "none" else b.kind))
    elem = a.elem if a.elem == b.elem else (join_val(a.elem, b.elem) if a.elem and b.elem else (a.elem or b.elem))
    ilb = min(a.ilb, b.ilb) if a.ilb is not None and b.ilb is not None else None
    cv = a.cv if (a.cv == b.cv and type(a.cv) is type(b.cv)) else Val.NOCV
    fields = None
    if a.fields or b.fields:
        fa, fb = dict(a.fields or ()), dict(b.fields or ())
        out_f = {}
        for k in set(fa) | set(fb):
            if k in fa and k in fb:
                out_f[k] = join_val(fa[k], fb[k])
            elif not k.startswith("#"):
                # stored on one branch only: on the other the attribute holds whatever it held before (not tracked) - the join may be that
                # or this value, so this value's None-ness and taint survive with everything else forgotten
                v1 = fa.get(k) or fb.get(k)
                if v1.may_none or v1.taint:
                    out_f[k] = Val(taint=v1.taint, kind="any", may_none=v1.may_none)
        fields = tuple(sorted(out_f.items(), key=lambda kv: kv[0])) or None
    return Val(a.taint or b.taint, kind, min(a.lb, b.lb), a.exact if a.exact == b.exact else None,
               a.types | b.types, a.classes | b.classes, elem, ilb, cv, a.kw if a.kw == b.kw else None,
               a.may_none or b.may_none, fields, iub=max(a.iub, b.iub) if a.iub is not None and b.iub is not None else None,
               built=bool((a.built or (a.kind == "none" and not a.types)) and (b.built or (b.kind == "none" and not b.types)) and (a.types or b.types)))


class St:
    __slots__ = ("env", "ctl", "members", "lenge")

    def __init__(self, env=None, ctl=False, members=frozenset(), lenge=frozenset()):
        self.env: Dict[str, Val] = env if env is not None else {}
        self.ctl, self.members, self.lenge = ctl, members, lenge   # lenge: {(buffer key, int name)}: len(buffer) >= name

    def copy(self):
        return St(dict(self.env), self.ctl, self.members, self.lenge)

    def __eq__(self, o):
        return (isinstance(o, St) and self.env == o.env and self.ctl == o.ctl and self.members == o.members
                and self.lenge == o.lenge)


class Config:
    """Per-rule configuration of the analysis."""

    def __init__(self, env=False, sources=None, queue_producers=("data_received",), stop_at=(), receiver_types=None,
                 include_cancel=False, assume_tainted_self_attrs=(), ret_sources=None, nonnull_attrs=(), self_attr_vals=None):
        self.env = env                                 # include environment raisers
        self.sources = sources or {}                   # {func qual: {param: Val}} extra taint sources (entry points)
        self.queue_producers = queue_producers
        self.stop_at = set(stop_at)                    # callee quals treated as opaque & benign (outside the boundary)
        self.receiver_types = receiver_types or {}     # {(class qual, attr): [class quals]} verified binding table
        self.include_cancel = include_cancel
        self.assume_tainted_self_attrs = set(assume_tainted_self_attrs)
        self.ret_sources = ret_sources or {}           # {func qual: Val} calls whose *result* is a taint source
        self.nonnull_attrs = set(nonnull_attrs)        # {(class qual, attr)}: verified "never None once reachable" invariants
        self.self_attr_vals = self_attr_vals or {}     # {(class qual, attr): Val} peer-derived values held in instance attributes


class Raises:
    def __init__(self, prog: Program, cfg: Config):
        self.prog, self.cfg = prog, cfg
        self.memo: Dict[tuple, Tuple[Val, List[Exc]]] = {}
        self.active: set = set()
        self.assumptions: List[str] = []
        self.sites_examined: Dict[str, dict] = {}       # construct key -> {verdict, ...}
        self.source_hits: Dict[str, int] = {}          # configured result-sources that calls actually reached
        self.queue_cache: Dict[tuple, Val] = {}
        self.calls_resolved = 0
        self.calls_unresolved = 0
        self.calls_library = 0
        self.functions_seen: set = set()
        self.local_scopes: Dict[str, Dict[str, ast.AST]] = {}

    # ------------------------------------------------------------------ public
    def analyze(self, fn: FuncInfo, args: Dict[str, Val], self_cls: Optional[ClassInfo] = None, ctl=False) -> Tuple[Val, List[Exc]]:
        return self.summary(fn, self_cls or fn.cls, args, ctl, ())

    def note(self, text: str):
        if text not in self.assumptions:
            self.assumptions.append(text)

    # ------------------------------------------------------------------ summaries
    def summary(self, fn: FuncInfo, self_cls, args: Dict[str, Val], ctl: bool, chain: tuple) -> Tuple[Val, List[Exc]]:
        key = (fn.qual, fn.kind, self_cls.qual if self_cls else None, tuple(sorted((k, v.key()) for k, v in args.items())), ctl)
        if key in self.memo:
            return self.memo[key]
        if key in self.active:            # recursion: optimistic bottom
            return CLEAN, []
        self.active.add(key)
        self.functions_seen.add(fn.qual)
        try:
            fa = FnAnalysis(self, fn, self_cls, args, ctl, chain)
            res = fa.run()
        finally:
            self.active.discard(key)
        self.memo[key] = res
        return res

    def attr_positive(self, cls: ClassInfo, attr: str) -> bool:
        """Every store to self.<attr> in the class family provably stores a number > 0 (a constant, or a value the storing method has
        validated: `if not 0 < seconds < inf: raise`), and nothing outside the class assigns the attribute: the attribute is a positive
        number wherever it is read."""
        key = (cls.qual, attr)
        cache = self.__dict__.setdefault("_attr_positive", {})
        if key in cache:
            return cache[key]
        cache[key] = False
        from .facts import provable
        from .terms import summarize
        fam = [k for k in self.prog.mro(cls) + self.prog.subclasses(cls) if k.module.name.startswith("msmart")]
        n_stores, ok = 0, True
        for m in self.prog.modules.values():
            if m.is_test:
                continue
            for n in ast.walk(m.tree):
                if isinstance(n, ast.Attribute) and n.attr == attr and isinstance(n.ctx, (ast.Store, ast.Del)) and not (isinstance(n.value, ast.Name) and n.value.id in ("self", "cls")):
                    ok = False          # (assigned through another object: not a class invariant)
        for k in fam:
            for f in list(k.methods.values()) + list(k.props_set.values()):
                stores = [n for n in ast.walk(f.node) if isinstance(n, (ast.Assign, ast.AugAssign, ast.AnnAssign))
                          and any(isinstance(t, ast.Attribute) and t.attr == attr and isinstance(t.value, ast.Name) and f.params and t.value.id == f.params[0]
                                  for t in (n.targets if isinstance(n, ast.Assign) else [n.target]))]
                if not stores:
                    continue
                if any(not isinstance(n, ast.Assign) for n in stores):
                    ok = False
                    continue
                try:
                    fs = summarize(self.prog, f)
                except AnalysisError:
                    ok = False
                    continue
                for n in stores:
                    n_stores += 1
                    st_ = fs.ta.env_at.get(n)
                    v = fs.ta.terms_at.get(n.value)
                    if st_ is None or v is None:
                        ok = False
                        continue
                    try:
                        ok = ok and provable(("cmp", ">", v, ("const", 0)), st_.pc, None, self.prog)
                    except Exception:
                        ok = False
        cache[key] = bool(ok and n_stores)
        return cache[key]

    def queue_items(self, cls: ClassInfo, attr: str) -> Val:
        """Abstract value of the items a class's producer callbacks put on self.<attr> (taint + length facts)."""
        key = (cls.qual, attr)
        if key in self.queue_cache:
            return self.queue_cache[key]
        self.queue_cache[key] = Val(taint=True, kind="bytes")   # provisional (recursion)
        out = None
        for pname in self.cfg.queue_producers:
            f = self.prog.lookup_method(cls, pname)
            if f is None:
                continue
            params = f.params
            args = {p: Val(taint=True, kind="bytes") for p in params[1:]}
            fa = FnAnalysis(self, f, cls, args, False, ())
            fa.collect_puts = attr
            fa.run()
            for v in fa.puts:
                out = v if out is None else join_val(out, v)
        if out is None:
            out = Val(taint=True, kind="bytes")
        if out.lb == 0 and out.kind in ("bytes", "any"):
            # the value domain could not bound the item length: use the framing facts of the value-flow terms
            from .producer import put_length_bound
            for pname in self.cfg.queue_producers:
                f = self.prog.lookup_method(cls, pname)
                b = put_length_bound(self.prog, f) if f is not None else None
                if b:
                    out = out.but(lb=b, kind="bytes")
        self.queue_cache[key] = out
        return out


class FnAnalysis(Analysis):
    def __init__(self, R: Raises, fn: FuncInfo, self_cls: Optional[ClassInfo], args: Dict[str, Val], ctl: bool, chain: tuple):
        self.R, self.fn, self.self_cls = R, fn, self_cls
        self.prog = R.prog
        self.m = fn.module
        self.args, self.ctl0 = args, ctl
        self.chain = chain + (fn.qual,)
        self.pending: List[Exc] = []
        self.collect_puts = None
        self.awaited: set = set()
        self.coros: Dict[str, ast.Call] = {}
        self.puts: List[Val] = []
        self.ret: Optional[Val] = None
        self.local_defs: Dict[str, ast.AST] = dict(R.local_scopes.get(fn.qual, {}))
        a = fn.node.args
        self.params = [x.arg for x in a.posonlyargs + a.args + a.kwonlyargs]
        self.recv = self.params[0] if (fn.cls is not None and fn.kind in ("method", "classmethod", "property", "setter") and self.params) else None
        self.class_assigns = self._class_valued_locals()
        self._local_names = {n.id for n in ast.walk(fn.node) if isinstance(n, ast.Name) and isinstance(n.ctx, ast.Store)} | set(self.params)

    # ---------------------------------------------------------------- setup
    def _class_valued_locals(self) -> Dict[str, frozenset]:
        out: Dict[str, set] = {}
        for n in ast.walk(self.fn.node):
            if isinstance(n, ast.Assign) and len(n.targets) == 1 and isinstance(n.targets[0], ast.Name):
                r = self.prog.resolve_expr(self.m, n.value, self.fn.cls) if isinstance(n.value, (ast.Name, ast.Attribute)) else None
                if isinstance(r, ClassInfo):
                    out.setdefault(n.targets[0].id, set()).add(r.qual)
                elif isinstance(n.value, ast.IfExp):
                    for br in (n.value.body, n.value.orelse):
                        r2 = self.prog.resolve_expr(self.m, br, self.fn.cls) if isinstance(br, (ast.Name, ast.Attribute)) else None
                        if isinstance(r2, ClassInfo):
                            out.setdefault(n.targets[0].id, set()).add(r2.qual)
        return {k: frozenset(v) for k, v in out.items()}

    def annotation_types(self, ann) -> frozenset:
        if ann is None:
            return frozenset()
        if isinstance(ann, ast.Constant) and isinstance(ann.value, str):
            try:
                ann = ast.parse(ann.value, mode="eval").body
            except SyntaxError:
                return frozenset()
        out = set()
        for n in ast.walk(ann):
            if isinstance(n, (ast.Name, ast.Attribute)):
                r = self.prog.resolve_expr(self.m, n, self.fn.cls)
                if isinstance(r, ClassInfo):
                    out.add(r.qual)
        return frozenset(out)

    def run(self) -> Tuple[Val, List[Exc]]:
        st = St(ctl=self.ctl0)
        a = self.fn.node.args
        allp = a.posonlyargs + a.args + a.kwonlyargs
        defaults = {}
        pos = a.posonlyargs + a.args
        for p, d in zip(pos[len(pos) - len(a.defaults):], a.defaults):
            defaults[p.arg] = d
        for p, d in zip(a.kwonlyargs, a.kw_defaults):
            if d is not None:
                defaults[p.arg] = d
        for p in allp:
            v = self.args.get(p.arg)
            if v is None and p.arg in defaults and isinstance(defaults[p.arg], ast.Constant):
                v = self.v_Constant(defaults[p.arg], st)
            elif v is None and p.arg in defaults and isinstance(defaults[p.arg], (ast.Name, ast.Attribute)):
                v = self.folded_const(defaults[p.arg])       # a named module / class constant as the default
            if v is None:
                v = Val(types=self.annotation_types(p.annotation))
                src = self.R.cfg.sources.get(self.fn.qual, {})
                if p.arg in src:
                    v = src[p.arg]
            elif not v.types:
                t = self.annotation_types(p.annotation)
                if t:
                    v = v.but(types=t)
            st.env[p.arg] = v
        if self.recv and self.self_cls is not None:
            cur = st.env.get(self.recv, CLEAN)
            if self.fn.kind == "classmethod":
                st.env[self.recv] = cur.but(kind="cls", classes=frozenset([self.self_cls.qual]))
            else:
                st.env[self.recv] = cur.but(kind="obj", types=frozenset([self.self_cls.qual]))
        if a.vararg:
            st.env[a.vararg.arg] = self.args.get(a.vararg.arg, Val(kind="list"))
        if a.kwarg:
            extra = tuple(sorted(((k, v) for k, v in self.args.items() if k not in {p.arg for p in allp} and k != a.kwarg.arg
                                  and not (a.vararg and k == a.vararg.arg)), key=lambda kv: kv[0]))
            st.env[a.kwarg.arg] = self.args.get(a.kwarg.arg, Val(kind="map", kw=extra))
        eng = Engine(self.prog, self.fn, self)
        comp = eng.run(st)
        escapes: List[Exc] = []
        for _st, exc, _node in comp.raises:
            if isinstance(exc, Exc):
                escapes.append(exc)
            elif _st.ctl:
                escapes.append(Exc(exc).with_(site=self.site(_node), chain=self.chain,
                                              why="explicit raise on a path selected by peer-controlled data"))
        ret = self.ret
        for rst, node in comp.returns:
            v = rst.env.get("<ret>", NONE) if node is not None else NONE
            ret = v if ret is None else join_val(ret, v)
        return (ret or NONE), escapes

    # ---------------------------------------------------------------- engine hooks
    def join(self, states):
        out = states[0]
        for s in states[1:]:
            env = {}
            for k in set(out.env) | set(s.env):
                a, b = out.env.get(k), s.env.get(k)
                if a is None or b is None:
                    x = a or b
                    env[k] = x.but(lb=0, exact=None) if x.kind in ("bytes", "list", "str") else x
                else:
                    env[k] = join_val(a, b)
            out = St(env, out.ctl or s.ctl, out.members & s.members, out.lenge & s.lenge)
        return out

    def leq(self, a, b):
        return a == b

    def widen(self, old, new):
        """numeric bounds that still change after a few rounds of a loop are dropped (termination of the fixpoint iteration)"""
        env = {}
        for k, v in new.env.items():
            o = old.env.get(k)
            if o is not None and o != v:
                v = v.but(iub=v.iub if v.iub == o.iub else None, ilb=v.ilb if v.ilb == o.ilb else None,
                          lb=v.lb if v.lb == o.lb else 0, exact=v.exact if v.exact == o.exact else None)
            env[k] = v
        return St(env, new.ctl, new.members, new.lenge)

    def handler_types(self, h):
        return self.prog.handler_names(self.m, h, self.fn.cls)

    def site(self, node) -> dict:
        return {"file": self.m.rel, "function": self.fn.qual, "construct": norm(node)[:160], "line": getattr(node, "lineno", None)}

    def raise_name(self, s, st):
        # `raise error(...)` where `error` is a class-valued local / parameter (exception class passed to a helper)
        e = s.exc.func if isinstance(s.exc, ast.Call) else s.exc
        if isinstance(e, ast.Name) and e.id in st.env:
            v = st.env[e.id]
            if v.kind == "cls" and len(v.classes) == 1:
                return next(iter(v.classes))
        return None

    def raises(self, node, st: St):
        self.pending = []
        if isinstance(node, ast.Raise):
            # explicit raise: counts only under tainted control
            exprs = [x for x in (node.exc, node.cause) if x is not None]
            for e in exprs:
                self.val(e, st)
            out = [(x, st) for x in self.pending]
            self.pending = []
            return out
        if isinstance(node, ast.Assert):
            v = self.val(node.test, st)
            if st.ctl or v.taint:
                if self.prove(node.test, st):
                    self.raiser(node, "AssertionError", "", proved="the asserted condition follows from the lengths / ranges / classes established on this path")
                else:
                    self.raiser(node, "AssertionError", "assert reachable / decided by peer-controlled data")
            out = [(x, st) for x in self.pending]
            self.pending = []
            return out
        if isinstance(node, (ast.FunctionDef, ast.AsyncFunctionDef, ast.ClassDef)):
            return []
        if isinstance(node, ast.stmt):
            for ch in ast.iter_child_nodes(node):
                if isinstance(ch, ast.expr):
                    if isinstance(node, (ast.Assign, ast.AugAssign, ast.AnnAssign)) and ch in getattr(node, "targets", [getattr(node, "target", None)]):
                        self.target_raises(ch, st)
                        if isinstance(node, ast.Assign) and isinstance(ch, (ast.Tuple, ast.List)):
                            self.unpack_raises(ch, node.value, st)
                        continue
                    self.val(ch, st)
        else:
            self.val(node, st)
        out = [(x, st) for x in self.pending]
        self.pending = []
        return out

    def unpack_raises(self, target, value_node, st):
        """a, b, c = <peer bytes, or an element-wise image of them>: ValueError unless exactly len(targets) elements"""
        if value_node is None or any(isinstance(t, ast.Starred) for t in target.elts):
            return
        src, n_t = value_node, len(target.elts)
        while True:
            if isinstance(src, ast.Call) and isinstance(src.func, ast.Name) and src.func.id in ("map", "list", "tuple", "bytes", "bytearray", "reversed", "iter", "memoryview") \
                    and src.args and not src.keywords and len(src.args) == (2 if src.func.id == "map" else 1):
                src = src.args[-1]
            elif isinstance(src, (ast.ListComp, ast.GeneratorExp)) and len(src.generators) == 1 and not src.generators[0].ifs:
                src = src.generators[0].iter
            else:
                break
        saved_p, self.pending = self.pending, []
        try:
            srcv = self.val(src, st)
        finally:
            self.pending = saved_p
        if srcv.taint and srcv.kind == "bytes":
            if srcv.exact == n_t:
                self.raiser(value_node, "ValueError", "", proved=f"exactly {n_t} elements to unpack")
            else:
                self.raiser(value_node, "ValueError", f"unpacking into {n_t} names from peer data whose length is only known to be >= {srcv.lb}")

    def target_raises(self, t, st):
        if isinstance(t, ast.Subscript):
            self.val(t.value, st)
            if not isinstance(t.slice, ast.Slice):
                self.val(t.slice, st)
        elif isinstance(t, ast.Attribute):
            self.val(t.value, st)
        elif isinstance(t, (ast.Tuple, ast.List)):
            for x in t.elts:
                self.target_raises(x, st)

    def stmt(self, node, st: St) -> St:
        st = st.copy()
        saved, self.pending = self.pending, []
        try:
            if isinstance(node, ast.Assign):
                v = self.val(node.value, st)
                for t in node.targets:
                    self.assign(t, v, st, node.value)
            elif isinstance(node, ast.AnnAssign) and node.value is not None:
                self.assign(node.target, self.val(node.value, st), st, node.value)
            elif isinstance(node, ast.AugAssign):
                cur = self.val(ast.parse(ast.unparse(node.target), mode="eval").body, st)
                v = self.val(node.value, st)
                nv = self.binop_val(node.op, cur, v)
                self.assign(node.target, nv, st, None)
            elif isinstance(node, ast.Expr):
                self.val(node.value, st, stmt_ctx=st)
            elif isinstance(node, ast.Return):
                rv_ = self.val(node.value, st) if node.value is not None else NONE
                if st.ctl and not self.ctl0 and not rv_.taint and self.fn.kind == "property" and rv_.kind in ("bool", "any", "none", "int") and self.R.cfg.env:
                    # implicit flow: a predicate (property) that answers under a peer-decided branch gives a peer-decided answer
                    # (`if not self.alive: return False`): whoever asserts it asserts something the peer controls
                    rv_ = rv_.but(taint=True)
                st.env["<ret>"] = rv_
            elif isinstance(node, (ast.FunctionDef, ast.AsyncFunctionDef)):
                self.local_defs[node.name] = node
                st.env[node.name] = Val(kind="func")
        finally:
            self.pending = saved
        self.index_implies_length(node, st)
        return st

    def index_implies_length(self, node, st: St):
        """After `x[k]` has been evaluated without raising, len(x) > k holds on the normal path."""
        if isinstance(node, (ast.FunctionDef, ast.AsyncFunctionDef, ast.ClassDef)):
            return
        for n in ast.walk(node):
            if isinstance(n, (ast.Lambda, ast.IfExp, ast.BoolOp, ast.ListComp, ast.GeneratorExp, ast.DictComp, ast.SetComp)):
                # conditionally evaluated sub-expressions give no definite fact
                for sub in ast.walk(n):
                    sub._sa_cond = True
        for n in ast.walk(node):
            if isinstance(n, ast.Subscript) and isinstance(n.ctx, ast.Load) and not getattr(n, "_sa_cond", False):
                k, key = self.cint(n.slice), self.key_of(n.value)
                if k is not None and key and key in st.env and st.env[key].kind in ("bytes", "list", "str", "any", "strlist"):
                    need = k + 1 if k >= 0 else -k
                    if st.env[key].lb < need:
                        st.env[key] = st.env[key].but(lb=need)

    def key_of(self, t) -> Optional[str]:
        if isinstance(t, ast.Name):
            return t.id
        if isinstance(t, ast.Attribute):
            b = self.key_of(t.value)
            return f"{b}.{t.attr}" if b else None
        return None

    def assign(self, target, v: Val, st: St, value_node):
        if isinstance(target, ast.Name):
            cut = None
            if isinstance(value_node, ast.Subscript) and isinstance(value_node.slice, ast.Slice) and value_node.slice.lower is None and value_node.slice.step is None \
                    and isinstance(value_node.slice.upper, ast.Name) and (self.key_of(value_node.value), value_node.slice.upper.id) in st.lenge \
                    and value_node.slice.upper.id != target.id:
                cut = value_node.slice.upper.id          # y = x[:n] with len(x) >= n: len(y) == n
            st.env[target.id] = v
            if v.kind == "coro" and isinstance(value_node, ast.Call):
                self.coros[target.id] = value_node          # x = coro(...): the call runs where x is awaited
            else:
                self.coros.pop(target.id, None)
            if cut is not None:
                st.lenge = frozenset(p for p in st.lenge if target.id not in p) | {("=", target.id, cut)}
            elif st.lenge:
                st.lenge = frozenset(p for p in st.lenge if target.id not in p)
                if isinstance(value_node, ast.Name) and value_node.id != target.id:
                    # y = off: what is known to remain behind off remains behind y
                    st.lenge = st.lenge | {(p[0], target.id, p[2]) for p in st.lenge if len(p) == 3 and p[1] == value_node.id}
            if st.members:
                st.members = frozenset(p for p in st.members if p[0] != target.id)
                if isinstance(value_node, ast.Name):
                    # y = x: what is known about membership of x holds for y
                    st.members = st.members | {(target.id, c) for k, c in st.members if k == value_node.id}
        elif isinstance(target, (ast.Tuple, ast.List)):
            elts = None
            if isinstance(value_node, (ast.Tuple, ast.List)) and len(value_node.elts) == len(target.elts):
                elts = [self.val(x, st) for x in value_node.elts]
            if elts is None and v.fields and v.built and len(v.types) == 1:
                # a NamedTuple built from known arguments unpacks into them
                c = self.prog.classes.get(next(iter(v.types)))
                rf = self.prog.record_fields(c) if c is not None and self.prog.is_namedtuple(c) else None
                fd = dict(v.fields)
                if rf is not None and len(rf) == len(target.elts) and all(f in fd for f, _d in rf):
                    elts = [fd[f] for f, _d in rf]
            if elts is None and v.fields and v.exact == len(target.elts) and all(f"#{i}" in dict(v.fields) for i in range(len(target.elts))):
                fd = dict(v.fields)
                elts = [fd[f"#{i}"] for i in range(len(target.elts))]
            for i, t in enumerate(target.elts):
                if elts is not None:
                    self.assign(t, elts[i], st, None)
                else:
                    ev = v.elem if v.elem is not None else Val(taint=v.taint, kind="any" if v.kind != "bytes" else "int")
                    self.assign(t, ev, st, None)
        elif isinstance(target, ast.Attribute):
            k = self.key_of(target)
            if k:
                st.env[k] = v
                # storing a tainted value into an object taints the object (coarse object-sensitivity)
                base = self.key_of(target.value)
                if base and base in st.env and isinstance(target.value, ast.Name) and base != self.recv:
                    cur = st.env[base]
                    fd = dict(cur.fields) if cur.fields else {}
                    fd[target.attr] = v
                    st.env[base] = cur.but(fields=tuple(sorted(fd.items(), key=lambda kv: kv[0])), taint=cur.taint or v.taint)
                elif base and v.taint and base in st.env and not st.env[base].taint:
                    st.env[base] = st.env[base].but(taint=True)
        elif isinstance(target, ast.Subscript):
            k = self.key_of(target.value)
            if k and v.taint and k in st.env:
                st.env[k] = st.env[k].but(taint=True)

    # ---------------------------------------------------------------- branches / facts
    def branch(self, test, truth, st: St):
        st = st.copy()
        saved, self.pending = self.pending, []
        try:
            v = self.val(test, st)
        finally:
            self.pending = saved
        if v.taint:
            st.ctl = True
        dec = self.decide(test, st)
        if dec is not None and dec != truth:
            return None
        self.refine(test, truth, st)
        return st

    def decide(self, test, st: St) -> Optional[bool]:
        """Truth value of a test when it only compares known constants (argument-specialised summaries)."""
        if isinstance(test, ast.UnaryOp) and isinstance(test.op, ast.Not):
            d = self.decide(test.operand, st)
            return None if d is None else not d
        if isinstance(test, ast.Compare) and len(test.ops) == 1 and isinstance(test.ops[0], (ast.Is, ast.IsNot)) \
                and isinstance(test.comparators[0], ast.Constant) and test.comparators[0].value is None \
                and self.recv and isinstance(test.left, ast.Attribute) and isinstance(test.left.value, ast.Name) \
                and test.left.value.id == self.recv and self.self_cls is not None:
            for k in self.prog.mro(self.self_cls):
                if (k.qual, test.left.attr) in self.R.cfg.nonnull_attrs:
                    return isinstance(test.ops[0], ast.IsNot)
        if isinstance(test, ast.Compare) and len(test.ops) == 1:
            saved, self.pending = self.pending, []
            try:
                a, b = self.val(test.left, st), self.val(test.comparators[0], st)
            finally:
                self.pending = saved
            for x_, y_ in ((a, b), (b, a)):
                if y_.cv == 0 and y_.cv is not False and x_.ilb is not None and x_.ilb >= 1 and not x_.taint and isinstance(test.ops[0], (ast.Eq, ast.NotEq)):
                    return isinstance(test.ops[0], ast.NotEq)          # a positive number is not 0
            if a.cv is not Val.NOCV and b.cv is not Val.NOCV and not a.taint and not b.taint:
                op = test.ops[0]
                try:
                    if isinstance(op, ast.Eq):
                        return a.cv == b.cv
                    if isinstance(op, ast.NotEq):
                        return a.cv != b.cv
                    if isinstance(op, ast.Is):
                        return a.cv is b.cv
                    if isinstance(op, ast.IsNot):
                        return a.cv is not b.cv
                    if isinstance(op, ast.Lt):
                        return a.cv < b.cv
                    if isinstance(op, ast.Gt):
                        return a.cv > b.cv
                    if isinstance(op, ast.LtE):
                        return a.cv <= b.cv
                    if isinstance(op, ast.GtE):
                        return a.cv >= b.cv
                except TypeError:
                    return None
        return None

    def assert_holds(self, node, st: St) -> bool:
        """(hook of the structured interpreter) the failing branch of this assert has no feasible way out"""
        return self.prove(node.test, st)

    def prove(self, test, st: St, truth: bool = True) -> bool:
        """the test certainly has the given truth value in this abstract state: interval reasoning over integer ranges and buffer lengths,
        class sets for issubclass / isinstance.  False means "not shown"."""
        if isinstance(test, ast.UnaryOp) and isinstance(test.op, ast.Not):
            return self.prove(test.operand, st, not truth)
        if isinstance(test, ast.BoolOp):
            conj = isinstance(test.op, ast.And) == truth
            return all(self.prove(v, st, truth) for v in test.values) if conj else any(self.prove(v, st, truth) for v in test.values)
        d = self.decide(test, st)
        if d is not None:
            return d == truth
        saved, self.pending = self.pending, []
        try:
            if isinstance(test, ast.Call) and isinstance(test.func, ast.Name) and test.func.id in ("issubclass", "isinstance") and len(test.args) == 2 and truth:
                v = self.val(test.args[0], st)
                cands = test.args[1].elts if isinstance(test.args[1], ast.Tuple) else [test.args[1]]
                want = {r.qual for r in (self.prog.resolve_expr(self.m, c, self.fn.cls) for c in cands) if isinstance(r, ClassInfo)}
                have = v.classes if test.func.id == "issubclass" else (v.types if not v.may_none else frozenset())
                if want and have and len(want) == len(cands):
                    return all(q in self.prog.classes and want & {k.qual for k in self.prog.mro(self.prog.classes[q])} for q in have)
                return False
            if not isinstance(test, ast.Compare):
                return False

            def rng(e):
                """(lo, hi) of an integer-valued expression; None = unbounded"""
                if isinstance(e, ast.Call) and isinstance(e.func, ast.Name) and e.func.id == "len" and len(e.args) == 1:
                    b = self.val(e.args[0], st)
                    if b.kind in ("bytes", "list", "str", "strlist", "any"):
                        return (b.exact if b.exact is not None else b.lb, b.exact)
                    return (0, None)
                v = self.val(e, st)
                if isinstance(v.cv, int) and not isinstance(v.cv, bool) and v.cv is not Val.NOCV:
                    return (v.cv, v.cv)
                if v.kind in ("int", "bool"):
                    return (v.ilb, v.iub)
                return None
            items = [test.left] + list(test.comparators)
            for (l, op, r) in zip(items, test.ops, items[1:]):
                # relational: len(y) == n for y = x[:n] cut under len(x) >= n
                if isinstance(op, (ast.Eq, ast.GtE, ast.LtE)) and truth:
                    for a_, b_ in ((l, r), (r, l)):
                        k = self.len_of(a_, st)
                        if k is not None and isinstance(b_, ast.Name) and ("=", k, b_.id) in st.lenge:
                            break
                    else:
                        k = None
                    if k is not None:
                        continue
                a, b = rng(l), rng(r)
                if a is None or b is None:
                    return False
                name = type(op).__name__
                if not truth:
                    name = {"Lt": "GtE", "GtE": "Lt", "Gt": "LtE", "LtE": "Gt", "Eq": "NotEq", "NotEq": "Eq"}.get(name)
                    if len(test.ops) > 1:
                        return False          # (the negation of a chain is a disjunction: not attempted)
                (alo, ahi), (blo, bhi) = a, b
                ok = {"Lt": ahi is not None and blo is not None and ahi < blo, "LtE": ahi is not None and blo is not None and ahi <= blo,
                      "Gt": alo is not None and bhi is not None and alo > bhi, "GtE": alo is not None and bhi is not None and alo >= bhi,
                      "Eq": None not in (alo, ahi, blo, bhi) and alo == ahi == blo == bhi,
                      "NotEq": (ahi is not None and blo is not None and ahi < blo) or (bhi is not None and alo is not None and bhi < alo)}.get(name, False)
                if not ok:
                    return False
            return True
        finally:
            self.pending = saved

    def refine(self, test, truth, st: St):
        if isinstance(test, ast.UnaryOp) and isinstance(test.op, ast.Not):
            return self.refine(test.operand, not truth, st)
        if isinstance(test, ast.BoolOp):
            if isinstance(test.op, ast.And) and truth:
                for v in test.values:
                    self.refine(v, True, st)
            elif isinstance(test.op, ast.Or) and not truth:
                for v in test.values:
                    self.refine(v, False, st)
            return
        if isinstance(test, ast.NamedExpr):
            return self.refine(test.value, truth, st)
        if isinstance(test, ast.Call) and isinstance(test.func, ast.Attribute) and test.func.attr == "empty" and not test.args:
            k = self.key_of(test.func.value)
            if k and not truth:
                st.members = st.members | {("<nonempty>", k)}
            return
        if isinstance(test, ast.Call) and isinstance(test.func, ast.Name) and test.func.id == "isinstance" and len(test.args) == 2:
            k = self.key_of(test.args[0])
            if k and truth:
                ts = set()
                cands = test.args[1].elts if isinstance(test.args[1], ast.Tuple) else [test.args[1]]
                for c in cands:
                    r = self.prog.resolve_expr(self.m, c, self.fn.cls)
                    if isinstance(r, ClassInfo):
                        ts.add(r.qual)
                if ts:
                    cur = st.env.get(k, CLEAN)
                    if cur.built and cur.types:
                        # exact classes: keep those that are instances of the tested classes
                        keep = frozenset(q for q in cur.types if q in self.prog.classes and any(t in {x.qual for x in self.prog.mro(self.prog.classes[q])} for t in ts))
                        st.env[k] = cur.but(types=keep or frozenset(ts), kind="obj", built=bool(keep), may_none=False)
                    else:
                        st.env[k] = cur.but(types=frozenset(ts), kind="obj", built=False, may_none=False)      # (an instance is not None)
            return
        if isinstance(test, ast.Compare) and len(test.ops) == 1 and isinstance(test.ops[0], (ast.Is, ast.IsNot)) \
                and isinstance(test.comparators[0], ast.Constant) and test.comparators[0].value is None:
            left = test.left.target if isinstance(test.left, ast.NamedExpr) else test.left
            k = self.key_of(left)
            not_none = isinstance(test.ops[0], ast.IsNot) == truth
            if k and k in st.env and st.env[k].may_none and not_none:
                st.env[k] = st.env[k].but(may_none=False, kind="any" if st.env[k].kind == "none" else st.env[k].kind)
            return
        if isinstance(test, ast.Compare) and len(test.ops) == 1:
            l, op, r = test.left, test.ops[0], test.comparators[0]
            # membership facts
            if isinstance(op, (ast.In, ast.NotIn)):
                pos = isinstance(op, ast.In) == truth
                ik, ck = self.key_of(l), self.key_of(r)
                q = self.enum_member_list(r, st) if (pos and ik) else None
                if q:
                    st.members = st.members | {(ik, "enum:" + q)}
                if pos and ik and ck:
                    st.members = st.members | {(ik, ck)}
                return
            # relational length facts: len(buf) >= n for an integer local n
            for (ll, rr, fl) in ((l, r, False), (r, l, True)):
                bn = self.len_of(ll, st)
                if bn is not None and isinstance(rr, ast.Name) and bn in st.env and self.cint(rr) is None and rr.id in st.env:
                    opn = type(op).__name__
                    if fl:
                        opn = {"Lt": "Gt", "Gt": "Lt", "LtE": "GtE", "GtE": "LtE"}.get(opn, opn)
                    if not truth:
                        opn = {"Lt": "GtE", "GtE": "Lt", "Gt": "LtE", "LtE": "Gt", "Eq": "NotEq", "NotEq": "Eq"}.get(opn)
                    if opn in ("GtE", "Gt", "Eq"):
                        st.lenge = st.lenge | {(bn, rr.id)}
                        iv = st.env.get(rr.id)
                        if iv is not None and iv.ilb is not None:
                            v0 = st.env[bn]
                            st.env[bn] = v0.but(lb=max(v0.lb, iv.ilb + (1 if opn == "Gt" else 0)))
            # remaining-length facts: len(buf) - off >= k  (integer cursor into a buffer)
            for (ll, rr, fl) in ((l, r, False), (r, l, True)):
                cr = self.cint(rr)
                if cr is None and isinstance(rr, ast.Name) and rr.id in st.env and isinstance(st.env[rr.id].cv, int) and not isinstance(st.env[rr.id].cv, bool):
                    cr = st.env[rr.id].cv            # a local holding a constant
                if isinstance(ll, ast.BinOp) and isinstance(ll.op, ast.Sub) and isinstance(ll.right, ast.Name) and self.len_of(ll.left, st) is not None \
                        and cr is not None:
                    opn = type(op).__name__
                    if fl:
                        opn = {"Lt": "Gt", "Gt": "Lt", "LtE": "GtE", "GtE": "LtE"}.get(opn, opn)
                    if not truth:
                        opn = {"Lt": "GtE", "GtE": "Lt", "Gt": "LtE", "LtE": "Gt", "Eq": "NotEq", "NotEq": "Eq"}.get(opn)
                    k = {"GtE": cr, "Gt": cr + 1, "Eq": cr}.get(opn)
                    if k is not None:
                        st.lenge = st.lenge | {(self.len_of(ll.left, st), ll.right.id, k)}
            # ... written the other way round: len(buf) >= off + k
            for (ll, rr, fl) in ((l, r, False), (r, l, True)):
                if self.len_of(ll, st) is not None and isinstance(rr, ast.BinOp) and isinstance(rr.op, ast.Add):
                    nm_, cr = (rr.left, self.cint(rr.right)) if isinstance(rr.left, ast.Name) else ((rr.right, self.cint(rr.left)) if isinstance(rr.right, ast.Name) else (None, None))
                    if nm_ is not None and cr is not None and self.cint(nm_) is None:
                        opn = type(op).__name__
                        if fl:
                            opn = {"Lt": "Gt", "Gt": "Lt", "LtE": "GtE", "GtE": "LtE"}.get(opn, opn)
                        if not truth:
                            opn = {"Lt": "GtE", "GtE": "Lt", "Gt": "LtE", "LtE": "Gt", "Eq": "NotEq", "NotEq": "Eq"}.get(opn)
                        k = {"GtE": cr, "Gt": cr + 1, "Eq": cr}.get(opn)
                        if k is not None:
                            st.lenge = st.lenge | {(self.len_of(ll, st), nm_.id, k)}
            # length facts
            name, c, flip = self.len_of(l, st), self.cint(r), False
            if name is None:
                name, c, flip = self.len_of(r, st), self.cint(l), True
            if name is not None and c is not None and name in st.env:
                opn = type(op).__name__
                if flip:
                    opn = {"Lt": "Gt", "Gt": "Lt", "LtE": "GtE", "GtE": "LtE"}.get(opn, opn)
                if not truth:
                    opn = {"Lt": "GtE", "GtE": "Lt", "Gt": "LtE", "LtE": "Gt", "Eq": "NotEq", "NotEq": "Eq"}.get(opn)
                v = st.env[name]
                if opn == "GtE":
                    st.env[name] = v.but(lb=max(v.lb, c))
                elif opn == "Gt":
                    st.env[name] = v.but(lb=max(v.lb, c + 1))
                elif opn == "Eq":
                    st.env[name] = v.but(lb=max(v.lb, c), exact=c)
            # integer range facts: n OP <constant> for an integer local n
            for (ll, rr, fl) in ((l, r, False), (r, l, True)):
                c = self.cint(rr)
                if isinstance(ll, ast.Name) and c is not None and ll.id in st.env and st.env[ll.id].kind == "int" and st.env[ll.id].cv is Val.NOCV:
                    opn = type(op).__name__
                    if fl:
                        opn = {"Lt": "Gt", "Gt": "Lt", "LtE": "GtE", "GtE": "LtE"}.get(opn, opn)
                    if not truth:
                        opn = {"Lt": "GtE", "GtE": "Lt", "Gt": "LtE", "LtE": "Gt", "Eq": "NotEq", "NotEq": "Eq"}.get(opn)
                    v = st.env[ll.id]
                    lo, hi = v.ilb, v.iub
                    if opn in ("GtE", "Gt", "Eq"):
                        k = c + (1 if opn == "Gt" else 0)
                        lo = k if lo is None else max(lo, k)
                    if opn in ("LtE", "Lt", "Eq"):
                        k = c - (1 if opn == "Lt" else 0)
                        hi = k if hi is None else min(hi, k)
                    if opn == "NotEq":
                        if lo is not None and lo == c:
                            lo = c + 1
                        if hi is not None and hi == c:
                            hi = c - 1
                    if (lo, hi) != (v.ilb, v.iub):
                        st.env[ll.id] = v.but(ilb=lo, iub=hi)
                    break
            # None-ness is irrelevant here

    def enum_member_list(self, e, st=None) -> Optional[str]:
        """`X.list()` (a classmethod returning list(cls)) / `list(X)` / `X` for an enum class X -> X's qualified name."""
        target = None
        _resolve = self.prog.resolve_expr

        class _P:          # resolve through a local alias of a class (modes = AirConditioner.BreezeMode)
            @staticmethod
            def resolve_expr(m, x, c):
                if st is not None and isinstance(x, ast.Name) and x.id in st.env and st.env[x.id].kind == "cls" and len(st.env[x.id].classes) == 1:
                    return self.prog.classes.get(next(iter(st.env[x.id].classes)))
                return _resolve(m, x, c)
        if isinstance(e, ast.Call) and isinstance(e.func, ast.Attribute) and not e.args:
            r = _P.resolve_expr(self.m, e.func.value, self.fn.cls)
            if isinstance(r, ClassInfo) and self.prog.is_enum(r):
                f = self.prog.lookup_method(r, e.func.attr)
                if f is not None and f.kind == "classmethod":
                    rets = [n for n in ast.walk(f.node) if isinstance(n, ast.Return)]
                    if len(rets) == 1 and norm(rets[0].value) == f"list({f.params[0]})":
                        target = r
        elif isinstance(e, ast.Call) and isinstance(e.func, ast.Name) and e.func.id in ("list", "tuple", "set") and len(e.args) == 1:
            r = _P.resolve_expr(self.m, e.args[0], self.fn.cls)
            if isinstance(r, ClassInfo) and self.prog.is_enum(r):
                target = r
        elif isinstance(e, (ast.Name, ast.Attribute)):
            r = _P.resolve_expr(self.m, e, self.fn.cls)
            if isinstance(r, ClassInfo) and self.prog.is_enum(r):
                target = r
            elif not isinstance(r, ClassInfo):
                # a constant bound once to such a list: MODES = tuple(BreezeMode) at class or module level
                node, ctx_cls, ctx_mod = None, None, self.m
                nm = e.attr if isinstance(e, ast.Attribute) else e.id
                if nm.isupper() or nm.lstrip("_").isupper():
                    if isinstance(e, ast.Attribute):
                        owner = _P.resolve_expr(self.m, e.value, self.fn.cls)
                        if not isinstance(owner, ClassInfo) and isinstance(e.value, ast.Name) and self.recv and e.value.id == self.recv:
                            owner = self.self_cls
                        a = self.prog.lookup_class_attr(owner, nm) if isinstance(owner, ClassInfo) else None
                        if a is not None:
                            node, ctx_cls, ctx_mod = a[1], a[0], a[0].module
                    elif nm not in getattr(self, "_local_names", ()):
                        node = self.prog.module_assigns(self.m).get(nm)
                if isinstance(node, ast.Call) and isinstance(node.func, ast.Name) and node.func.id in ("list", "tuple", "frozenset") and len(node.args) == 1:
                    r2 = self.prog.resolve_expr(ctx_mod, node.args[0], ctx_cls)
                    if isinstance(r2, ClassInfo) and self.prog.is_enum(r2):
                        target = r2
        return target.qual if target else None

    def cint(self, e) -> Optional[int]:
        """Integer value of a literal or of a folded module / class constant (named constants are as good as literals)."""
        v = const_int(e)
        if v is not None or e is None:
            return v
        try:
            if isinstance(e, ast.Attribute) and isinstance(e.value, ast.Name) and self.recv and e.value.id == self.recv and self.self_cls is not None:
                a = self.prog.lookup_class_attr(self.self_cls, e.attr)
                if a is not None:
                    r = self.prog.fold(a[1], a[0].module, a[0])
                    return r if isinstance(r, int) and not isinstance(r, bool) else None
            if isinstance(e, (ast.Name, ast.Attribute)):
                if isinstance(e, ast.Name) and e.id in getattr(self, "_local_names", ()):
                    return None
                r = self.prog.fold(e, self.m, self.fn.cls)
                return r if isinstance(r, int) and not isinstance(r, bool) else None
            if isinstance(e, ast.UnaryOp) and isinstance(e.op, ast.USub):
                r = self.cint(e.operand)
                return -r if r is not None else None
            if isinstance(e, ast.BinOp) and isinstance(e.op, (ast.Add, ast.Sub, ast.Mult)):
                a, b = self.cint(e.left), self.cint(e.right)
                if a is not None and b is not None:
                    return a + b if isinstance(e.op, ast.Add) else (a - b if isinstance(e.op, ast.Sub) else a * b)
        except Exception:
            return None
        return None

    def len_of(self, e, st=None) -> Optional[str]:
        if isinstance(e, ast.Call) and isinstance(e.func, ast.Name) and e.func.id == "len" and len(e.args) == 1:
            return self.key_of(e.args[0])
        if st is not None and isinstance(e, ast.Name) and e.id in st.env and st.env[e.id].len_of:
            return st.env[e.id].len_of
        return None

    def for_bind(self, node, st: St):
        st = st.copy()
        saved, self.pending = self.pending, []
        try:
            it = self.val(node.iter, st)
        finally:
            self.pending = saved
        self.kill_loop_facts(node, st)
        ev = it.elem if it.elem is not None else Val(taint=it.taint, kind="int" if it.kind == "bytes" else "any", types=frozenset())
        if it.kind == "range":
            ev = Val(taint=it.taint, kind="int")
        if it.taint and not ev.taint:
            ev = ev.but(taint=True)
        self.assign(node.target, ev, st, None)
        if it.taint:
            st.ctl = True     # number of iterations is peer-controlled
        return st

    def kill_loop_facts(self, node, st: St):
        assigned = set()
        for n in ast.walk(node):
            if isinstance(n, ast.Name) and isinstance(n.ctx, ast.Store):
                assigned.add(n.id)
        for k in assigned:
            if k in st.env and st.env[k].kind in ("bytes", "list", "str"):
                st.env[k] = st.env[k].but(lb=0, exact=None)

    def with_bind(self, item, st: St):
        st = st.copy()
        saved, self.pending = self.pending, []
        try:
            v = self.val(item.context_expr, st)
        finally:
            self.pending = saved
        if item.optional_vars is not None:
            self.assign(item.optional_vars, v, st, None)
        return st

    def bind_handler(self, h, exc, st: St):
        st = st.copy()
        if h.name:
            st.env[h.name] = Val(kind="exc")
        if isinstance(exc, Exc):
            st.ctl = True      # the handler runs because peer data / the environment made something raise
        return st

    def scope_exit(self, entry: St, st: St, partial=False, test=None):
        """Control taint follows syntactic nesting: it ends with the compound statement - except after an `if` on
        peer data one of whose branches left early: what follows is then reached *because of* the peer's bytes."""
        if st is None:
            return st
        if partial and test is not None and not entry.ctl:
            saved, self.pending = self.pending, []
            try:
                tv = self.val(test, entry.copy())
            finally:
                self.pending = saved
            if tv.taint:
                if not st.ctl:
                    st = st.copy()
                    st.ctl = True
                return st
        if st.ctl == entry.ctl:
            return st
        st = st.copy()
        st.ctl = entry.ctl
        return st

    # loop heads: the engine joins; facts for names reassigned in the body fall to the join (min)
    # ---------------------------------------------------------------- raiser bookkeeping
    def raiser(self, node, exc: str, why: str, proved: Optional[str] = None):
        key = f"{self.fn.qual}|{norm(node)[:120]}|{exc}"
        rec = self.R.sites_examined.setdefault(key, {"function": self.fn.qual, "construct": norm(node)[:120], "exc": exc,
                                                     "verdict": "proved-safe", "fact": proved, "line": getattr(node, "lineno", None)})
        if proved is None:
            rec["verdict"] = "may-raise"
            rec["fact"] = why
            self.pending.append(Exc(exc).with_(site=self.site(node), chain=self.chain, why=why))
        elif rec["verdict"] != "may-raise":
            rec["fact"] = proved

    # ---------------------------------------------------------------- expression evaluation
    def val(self, e, st: St, stmt_ctx=None) -> Val:
        if e is None:
            return NONE
        m = getattr(self, "v_" + type(e).__name__, None)
        if m is None:
            for ch in ast.iter_child_nodes(e):
                if isinstance(ch, ast.expr):
                    self.val(ch, st)
            return CLEAN
        return m(e, st)

    def v_Constant(self, e, st):
        v = e.value
        if isinstance(v, (bytes, str)):
            return Val(kind="bytes" if isinstance(v, bytes) else "str", lb=len(v), exact=len(v))
        if isinstance(v, bool):
            return Val(kind="bool", cv=v)
        if isinstance(v, int):
            return Val(kind="int", ilb=v, cv=v, iub=v)
        if isinstance(v, float):
            return Val(kind="float")
        if v is None:
            return NONE
        return CLEAN

    def v_Name(self, e, st):
        if e.id in st.env:
            return st.env[e.id]
        r = self.prog.resolve_name(self.m, e.id, self.fn.cls)
        if isinstance(r, ClassInfo):
            return Val(kind="cls", classes=frozenset([r.qual]))
        if e.id in self.class_assigns:
            return Val(kind="cls", classes=self.class_assigns[e.id])
        fc = self.folded_const(e)
        if fc is None and e.id not in getattr(self, "_local_names", ()):
            node = self.prog.module_assigns(self.m).get(e.id)
            if isinstance(node, (ast.Dict, ast.Tuple, ast.List)) and len(getattr(node, "keys", getattr(node, "elts", []))) <= 64:
                return self.val(node, St())          # a module-level table (of classes, handlers, constants): its literal
        return fc or CLEAN

    def folded_const(self, e) -> Optional[Val]:
        """Module / class level constant (never a local): its folded value as an abstract value."""
        if isinstance(e, ast.Name) and e.id in getattr(self, "_local_names", ()):
            return None
        try:
            r = self.prog.fold(e, self.m, self.fn.cls)
        except Exception:
            return None
        if isinstance(r, bool):
            return Val(kind="bool", cv=r)
        if isinstance(r, int):
            return Val(kind="int", ilb=r, cv=r, iub=r)
        if isinstance(r, (list, tuple)):
            return Val(kind="list", lb=len(r), exact=len(r))
        if isinstance(r, (bytes, str)):
            return Val(kind="bytes" if isinstance(r, bytes) else "str", lb=len(r), exact=len(r), cv=r)
        return None

    def struct_const_fmt(self, recv_expr) -> Optional[str]:
        """Format of a module / class level constant  X = struct.Struct("<fmt>")  that recv_expr names (cls.X, self.X, X, Class.X)."""
        node = None
        if isinstance(recv_expr, ast.Name) and recv_expr.id not in getattr(self, "_local_names", ()):
            node = self.prog.module_assigns(self.m).get(recv_expr.id)
        elif isinstance(recv_expr, ast.Attribute) and isinstance(recv_expr.value, ast.Name):
            c = None
            if self.recv and recv_expr.value.id == self.recv:
                c = self.self_cls or self.fn.cls
            else:
                r = self.prog.resolve_name(self.m, recv_expr.value.id, self.fn.cls)
                c = r if isinstance(r, ClassInfo) else None
            if c is not None:
                a = self.prog.lookup_class_attr(c, recv_expr.attr)
                node = a[1] if a is not None else None
        if isinstance(node, ast.Call) and node.args and isinstance(node.args[0], ast.Constant) and isinstance(node.args[0].value, str):
            r = self.prog.resolve_expr(self.m, node.func, self.fn.cls)
            if getattr(r, "name", None) == "struct.Struct":
                return node.args[0].value
        return None

    def has_attribute(self, c: ClassInfo, name: str) -> bool:
        """Instances of c have attribute `name`: a method / property / class attribute / nested class anywhere in the MRO, or an
        instance attribute assigned in a method of the MRO; classes with bases outside the package or __getattr__ are not judged."""
        cache = self.R.__dict__.setdefault("_attr_cache", {})
        key = (c.qual, name)
        if key in cache:
            return cache[key]
        ok = False
        for k in self.prog.mro(c):
            if name in k.methods or name in k.attrs or name in k.nested or name in getattr(k, "props_set", {}) or "__getattr__" in k.methods:
                ok = True
                break
            if self.prog.ext_bases(k) and any(b not in ("object",) for b in self.prog.ext_bases(k)):
                ok = True
                break
            for f in k.methods.values():
                if not f.params:
                    continue
                for n in ast.walk(f.node):
                    if isinstance(n, ast.Attribute) and isinstance(n.ctx, ast.Store) and n.attr == name and isinstance(n.value, ast.Name) and n.value.id == f.params[0]:
                        ok = True
            if ok:
                break
        cache[key] = ok
        return ok

    def v_Attribute(self, e, st):
        k = self.key_of(e)
        if k and k in st.env:
            return st.env[k]
        if isinstance(e.value, ast.Name) and (e.value.id not in st.env or e.value.id == self.recv):
            fc = self.folded_const(e)
            if fc is not None:
                return fc
        if self.recv and isinstance(e.value, ast.Name) and e.value.id == self.recv and isinstance(e.ctx, ast.Load) and (self.self_cls or self.fn.cls) is not None:
            tm = self.prog.lookup_method(self.self_cls or self.fn.cls, e.attr)
            if tm is not None and tm.kind in ("method", "staticmethod", "classmethod"):
                return Val(kind="bmeth", types=frozenset([tm.qual]))        # the method itself, as a value
        base = self.val(e.value, st)
        if base.may_none and base.taint and isinstance(e.ctx, ast.Load) and isinstance(e.value, (ast.Name, ast.Call, ast.Await)):
            # `.x` on a value that is None on some path the peer selects (a helper that falls off its end for an unknown packet type, ...)
            self.raiser(e, "AttributeError", f"`.{e.attr}` on a value that is None when the device omitted the field / sent an unexpected packet")
        if base.built and base.types and isinstance(e.ctx, ast.Load):
            missing = sorted(q for q in base.types if q in self.prog.classes and not self.has_attribute(self.prog.classes[q], e.attr))
            if missing:
                self.raiser(e, "AttributeError", f"`.{e.attr}` is read on a value that can be a {', '.join(m.split('.')[-1] for m in missing)} - "
                                                 f"a class that has no such attribute (a cast does not change the object)")
        if base.fields:
            fd = dict(base.fields)
            if e.attr in fd:
                return fd[e.attr]
        if self.recv and isinstance(e.value, ast.Name) and e.value.id == self.recv and self.self_cls is not None and self.R.cfg.self_attr_vals:
            for k2 in self.prog.mro(self.self_cls):
                if (k2.qual, e.attr) in self.R.cfg.self_attr_vals:
                    return self.R.cfg.self_attr_vals[(k2.qual, e.attr)]
        if self.recv and isinstance(e.value, ast.Name) and e.value.id == self.recv and self.self_cls is not None and isinstance(e.ctx, ast.Load) \
                and self.R.attr_positive(self.self_cls, e.attr):
            return Val(kind="float", ilb=1)          # (ilb=1 on a float reads "strictly positive": only comparisons with 0 consult it)
        # class attribute / nested class
        if base.kind == "cls" and base.classes:
            out = set()
            for q in base.classes:
                c = self.prog.classes.get(q)
                if c and e.attr in c.nested:
                    out.add(c.nested[e.attr].qual)
            if out:
                return Val(kind="cls", classes=frozenset(out))
        if self.recv and isinstance(e.value, ast.Name) and e.value.id == self.recv and self.self_cls is not None:
            for k2 in self.prog.mro(self.self_cls):
                if e.attr in k2.nested:
                    return Val(kind="cls", classes=frozenset([k2.nested[e.attr].qual]))
            if f"{self.self_cls.qual}.{e.attr}" in self.R.cfg.assume_tainted_self_attrs:
                return Val(taint=True)
            bt = self.R.cfg.receiver_types.get((self.self_cls.qual, e.attr))
            if bt is None:
                for k2 in self.prog.mro(self.self_cls):
                    bt = self.R.cfg.receiver_types.get((k2.qual, e.attr))
                    if bt:
                        break
            if bt:
                return Val(kind="obj", types=frozenset(bt))
        # property getter on a typed receiver
        if base.types:
            rets = None
            for q in base.types:
                c = self.prog.classes.get(q)
                if not c:
                    continue
                f = self.prog.lookup_method(c, e.attr)
                if f is not None and f.kind == "property":
                    rv, esc = self.R.summary(f, c, {f.params[0]: base} if f.params else {}, st.ctl, self.chain)
                    self.pending += esc
                    rets = rv if rets is None else join_val(rets, rv)
            if rets is not None:
                return rets.but(taint=rets.taint or base.taint)
        r = self.prog.resolve_expr(self.m, e, self.fn.cls)
        if isinstance(r, ClassInfo):
            return Val(kind="cls", classes=frozenset([r.qual]))
        if base.taint:
            return Val(taint=True, kind="any")
        return CLEAN

    def v_Subscript(self, e, st):
        base = self.val(e.value, st)
        if isinstance(e.slice, ast.Slice):
            for x in (e.slice.lower, e.slice.upper, e.slice.step):
                if x is not None:
                    self.val(x, st)
            return self.slice_val(base, e.slice, st, self.key_of(e.value))
        if isinstance(e.slice, (ast.Name, ast.Attribute)) and not (isinstance(e.slice, ast.Name) and e.slice.id in getattr(self, "_local_names", ())):
            try:
                fs = self.prog.fold(e.slice, self.m, self.fn.cls)
            except Exception:
                fs = None
            if isinstance(fs, slice):
                # x[NAMED_SLICE]: a slice never raises IndexError
                mk = lambda v: None if v is None else ast.Constant(value=v)      # noqa: E731
                return self.slice_val(base, ast.Slice(lower=mk(fs.start), upper=mk(fs.stop), step=mk(fs.step)), st, self.key_of(e.value))
        idx = self.val(e.slice, st)
        k = self.cint(e.slice)
        if base.kw is not None and isinstance(e.slice, ast.Constant) and isinstance(e.slice.value, str) and e.slice.value in dict(base.kw):
            return dict(base.kw)[e.slice.value]          # a key the mapping was built with
        if idx.kind == "slice" and not idx.taint:
            return Val(taint=base.taint, kind=base.kind if base.kind in ("bytes", "list", "str") else "any")      # x[slice_object]: never an IndexError
        if base.kind in ("bytes", "list", "str", "any", "strlist") or base.taint:
            if base.taint and k is not None:
                need = k + 1 if k >= 0 else -k
                if base.lb >= need:
                    self.raiser(e, "IndexError", "", proved=f"len >= {base.lb} > index {k}")
                else:
                    self.raiser(e, "IndexError", f"constant index {k} on peer-controlled data whose length is only known to be >= {base.lb}")
            elif base.taint and isinstance(e.slice, ast.Constant) and isinstance(e.slice.value, str):
                self.raiser(e, "KeyError", f"key {e.slice.value!r} looked up in a peer-controlled mapping")
            elif base.taint and k is None:
                ik, ck = self.key_of(e.slice), self.key_of(e.value)
                if base.kind in ("map",) or True:
                    if not ((ik, ck) in st.members):
                        if not self.masked_index_ok(e, st):
                            self.raiser(e, "IndexError", "variable index into peer-controlled data without a bounds fact")
            elif (not base.taint) and idx.taint:
                ik, ck = self.key_of(e.slice), self.key_of(e.value)
                if (ik, ck) in st.members:
                    self.raiser(e, "KeyError", "", proved=f"membership `{ik} in {ck}` established on this path")
                elif self.masked_index_ok(e, st) or (idx.ilb is not None and idx.ilb >= 0 and idx.iub is not None and base.kind in ("list", "bytes", "str")
                                                      and idx.iub < max(base.lb, base.exact or 0)):
                    self.raiser(e, "IndexError", "", proved="index bounded below the container length")
                else:
                    self.raiser(e, "LookupError", "peer-controlled index / key into a container without a membership or bounds fact")
        if base.fields and k is not None and base.exact is not None and -base.exact <= k < base.exact and f"#{k % base.exact}" in dict(base.fields):
            return dict(base.fields)[f"#{k % base.exact}"]
        if base.elem is not None:
            return base.elem.but(taint=base.elem.taint or base.taint)
        kind = {"bytes": "int", "str": "str", "strlist": "str"}.get(base.kind, "any")
        return Val(taint=base.taint, kind=kind, ilb=0 if kind == "int" and base.kind == "bytes" else None, iub=255 if kind == "int" and base.kind == "bytes" else None)

    def masked_index_ok(self, e: ast.Subscript, st) -> bool:
        """table[(x) & MASK] with a module-level literal table longer than MASK."""
        sl = e.slice
        if isinstance(sl, ast.BinOp) and isinstance(sl.op, ast.BitAnd):
            mask = const_int(sl.right) if const_int(sl.right) is not None else const_int(sl.left)
            if mask is not None and isinstance(e.value, ast.Name):
                assigns = self.prog.module_assigns(self.m)
                if e.value.id in assigns and isinstance(assigns[e.value.id], (ast.List, ast.Tuple)):
                    return len(assigns[e.value.id].elts) > mask >= 0
        return False

    def slice_val(self, base: Val, sl: ast.Slice, st: St = None, base_key=None) -> Val:
        lo = self.cint(sl.lower) if sl.lower is not None else 0
        hi = self.cint(sl.upper) if sl.upper is not None else None
        lb, exact = 0, None
        if sl.step is None and st is not None and base_key is not None and isinstance(sl.lower, ast.Name) and isinstance(sl.upper, ast.BinOp) \
                and isinstance(sl.upper.op, ast.Add):
            # x[off:off + c] with len(x) - off >= k >= c established for a non-negative cursor off: exactly c elements
            u = sl.upper
            c_ = self.cint(u.right) if isinstance(u.left, ast.Name) and u.left.id == sl.lower.id else \
                (self.cint(u.left) if isinstance(u.right, ast.Name) and u.right.id == sl.lower.id else None)
            off_ = st.env.get(sl.lower.id)
            rem = max((p[2] for p in st.lenge if len(p) == 3 and p[0] == base_key and p[1] == sl.lower.id), default=None)
            if c_ is not None and c_ >= 0 and off_ is not None and off_.ilb is not None and off_.ilb >= 0 and rem is not None and rem >= c_:
                kind0 = base.kind if base.kind in ("bytes", "str", "list", "strlist") else ("bytes" if base.taint else "any")
                return Val(taint=base.taint, kind=kind0, lb=c_, exact=c_, elem=base.elem)
        if sl.step is None and st is not None and base_key is not None and isinstance(sl.lower, ast.BinOp) and isinstance(sl.upper, ast.BinOp) \
                and isinstance(sl.lower.op, ast.Add) and isinstance(sl.upper.op, ast.Add):
            # x[off + a:off + b] with len(x) - off >= k >= b established for a non-negative cursor off: exactly b - a elements
            def split(u):
                if isinstance(u.left, ast.Name) and self.cint(u.right) is not None:
                    return u.left.id, self.cint(u.right)
                if isinstance(u.right, ast.Name) and self.cint(u.left) is not None:
                    return u.right.id, self.cint(u.left)
                return None, None
            (n1, a_), (n2, b_) = split(sl.lower), split(sl.upper)
            if n1 is not None and n1 == n2 and 0 <= a_ <= b_:
                off_ = st.env.get(n1)
                rem = max((p[2] for p in st.lenge if len(p) == 3 and p[0] == base_key and p[1] == n1), default=None)
                if off_ is not None and off_.ilb is not None and off_.ilb >= 0 and rem is not None and rem >= b_:
                    kind0 = base.kind if base.kind in ("bytes", "str", "list", "strlist") else ("bytes" if base.taint else "any")
                    return Val(taint=base.taint, kind=kind0, lb=b_ - a_, exact=b_ - a_, elem=base.elem)
        if sl.step is None and lo == 0 and hi is None and isinstance(sl.upper, ast.Name) and st is not None:
            n = st.env.get(sl.upper.id)
            if n is not None and n.ilb is not None and n.ilb >= 0:
                # x[:n] has length min(len(x), n); with len(x) >= n established it is exactly n
                lb = n.ilb if (base_key, sl.upper.id) in st.lenge else min(base.lb, n.ilb)
            kind0 = base.kind if base.kind in ("bytes", "str", "list", "strlist") else ("bytes" if base.taint else "any")
            return Val(taint=base.taint, kind=kind0, lb=lb, exact=None, elem=base.elem)
        if sl.step is None and lo is not None and (sl.upper is None or hi is not None):
            b = base.lb
            if sl.upper is None:
                lb = max(0, b - lo) if lo >= 0 else min(b, -lo)
                if base.exact is not None:
                    exact = max(0, base.exact - lo) if lo >= 0 else min(base.exact, -lo)
            elif lo >= 0 and hi >= 0:
                lb = max(0, min(b, hi) - lo)
                if b >= hi:
                    exact = max(0, hi - lo)
            elif lo >= 0 and hi < 0:
                lb = max(0, b + hi - lo)
                if base.exact is not None:
                    exact = max(0, base.exact + hi - lo)
        kind = base.kind if base.kind in ("bytes", "str", "list", "strlist") else ("bytes" if base.taint else "any")
        return Val(taint=base.taint, kind=kind, lb=lb, exact=exact, elem=base.elem)

    def binop_val(self, op, a: Val, b: Val) -> Val:
        taint = a.taint or b.taint
        if isinstance(op, ast.Add) and a.kind in ("bytes", "str", "list") and b.kind == a.kind:
            ex = a.exact + b.exact if a.exact is not None and b.exact is not None else None
            return Val(taint, a.kind, a.lb + b.lb, ex, elem=a.elem or b.elem)
        if a.kind in ("bytes", "list", "str") and isinstance(op, ast.Add):
            return Val(taint, a.kind, a.lb, None, elem=a.elem)
        kind = "float" if "float" in (a.kind, b.kind) or isinstance(op, ast.Div) else ("int" if a.kind in ("int", "bool") and b.kind in ("int", "bool") else "any")
        ilb = None
        if isinstance(op, ast.Add) and a.ilb is not None and b.ilb is not None:
            ilb = a.ilb + b.ilb
        elif isinstance(op, (ast.BitAnd, ast.RShift, ast.Mod)) and kind == "int" and (a.ilb or 0) >= 0 and (b.ilb or 0) >= 0 \
                and a.ilb is not None and b.ilb is not None:
            ilb = 0
        elif isinstance(op, (ast.Mult, ast.LShift, ast.BitOr)) and a.ilb is not None and b.ilb is not None and a.ilb >= 0 and b.ilb >= 0:
            ilb = 0
        cv = Val.NOCV
        if a.cv is not Val.NOCV and b.cv is not Val.NOCV and isinstance(a.cv, int) and isinstance(b.cv, int) and not taint:
            try:
                cv = {ast.Add: lambda x, y: x + y, ast.Sub: lambda x, y: x - y, ast.Mult: lambda x, y: x * y}.get(type(op), lambda x, y: Val.NOCV)(a.cv, b.cv)
            except Exception:
                cv = Val.NOCV
        iub = None
        if isinstance(op, ast.BitAnd) and any(isinstance(x.cv, int) and not isinstance(x.cv, bool) and x.cv >= 0 for x in (a, b)):
            kind = "int"                                # <anything> & <non-negative int constant> is an int in [0, constant]
        if kind == "int":
            if isinstance(op, ast.BitAnd):
                cands = [x.iub for x in (a, b) if x.iub is not None and x.ilb is not None and x.ilb >= 0]
                if cands:
                    iub, ilb = min(cands), 0           # x & m with 0 <= m <= M lies in [0, M] for every integer x
            elif isinstance(op, ast.Mod) and b.ilb is not None and b.ilb > 0 and b.iub is not None:
                iub, ilb = b.iub - 1, 0
            elif isinstance(op, ast.RShift) and a.iub is not None and a.ilb is not None and a.ilb >= 0:
                iub = a.iub >> b.cv if (isinstance(b.cv, int) and not isinstance(b.cv, bool) and 0 <= b.cv < 64) else a.iub
            elif isinstance(op, ast.Add) and a.iub is not None and b.iub is not None:
                iub = a.iub + b.iub
        return Val(taint, kind, ilb=ilb, cv=cv, iub=iub)

    def none_raiser(self, e, v: Val, what: str):
        if v.may_none and v.taint:
            self.raiser(e, "TypeError", f"{what} on a value that is None when the device omitted the field")

    def v_BinOp(self, e, st):
        a, b = self.val(e.left, st), self.val(e.right, st)
        self.none_raiser(e, a, f"`{type(e.op).__name__}`")
        self.none_raiser(e, b, f"`{type(e.op).__name__}`")
        if isinstance(e.op, ast.Mod) and isinstance(e.left, ast.Constant) and isinstance(e.left.value, str):
            # "..%02x:%02x.." % tuple(<peer bytes>): the tuple must have exactly as many items as the format has fields
            import re as _re
            nf = len(_re.findall(r"%(?!%)", e.left.value.replace("%%", "")))
            r_ = e.right
            if isinstance(r_, ast.Call) and isinstance(r_.func, ast.Name) and r_.func.id in ("tuple", "list") and len(r_.args) == 1:
                src = self.val(r_.args[0], st)
                if src.taint and src.kind in ("bytes", "list", "any") and src.exact != nf:
                    self.raiser(e, "TypeError", f"%-format with {nf} fields applied to a tuple of peer data whose length is "
                                                f"{'not known to be ' + str(nf) if src.exact is None else src.exact}")
            return Val(a.taint or b.taint, "str")
        if isinstance(e.op, (ast.Div, ast.FloorDiv, ast.Mod)) and b.taint and const_int(e.right) is None and b.kind != "str" and a.kind != "str":
            self.raiser(e, "ZeroDivisionError", "peer-controlled divisor")
        return self.binop_val(e.op, a, b)

    def v_UnaryOp(self, e, st):
        v = self.val(e.operand, st)
        return Val(v.taint, "bool" if isinstance(e.op, ast.Not) else v.kind)

    def v_BoolOp(self, e, st):
        out = None
        cur = st
        for x in e.values:
            v = self.val(x, cur)
            out = v if out is None else join_val(out, v)
            # short circuit: the next operand is evaluated only when this one was true (and) / false (or)
            cur = cur.copy()
            self.refine(x, isinstance(e.op, ast.And), cur)
        return out

    def v_Compare(self, e, st):
        lv = self.val(e.left, st)
        t = lv.taint
        ordering = any(isinstance(o, (ast.Lt, ast.LtE, ast.Gt, ast.GtE)) for o in e.ops)
        if ordering:
            self.none_raiser(e, lv, "ordering comparison")
        for c in e.comparators:
            cv_ = self.val(c, st)
            if ordering:
                self.none_raiser(e, cv_, "ordering comparison")
            t = cv_.taint or t
        return Val(t, "bool")

    def v_IfExp(self, e, st):
        c = self.val(e.test, st)
        st_t, st_f = st.copy(), st.copy()
        self.refine(e.test, True, st_t)
        self.refine(e.test, False, st_f)
        a, b = self.val(e.body, st_t), self.val(e.orelse, st_f)
        v = join_val(a, b)
        return v.but(taint=v.taint or c.taint)

    def v_Tuple(self, e, st):
        vals = [self.val(x, st) for x in e.elts]
        elem = None
        for v in vals:
            elem = v if elem is None else join_val(elem, v)
        pos = None
        if isinstance(e, ast.Tuple) and 0 < len(vals) <= 8 and not any(isinstance(x, ast.Starred) for x in e.elts):
            pos = tuple((f"#{i}", v) for i, v in enumerate(vals))          # a small tuple keeps its positions (multi-value returns)
        return Val(any(v.taint for v in vals), "list", len(vals), len(vals), elem=elem, fields=pos)

    v_List = v_Tuple
    v_Set = v_Tuple

    def v_Dict(self, e, st):
        t = False
        elem = None
        for k, v in zip(e.keys, e.values):
            if k is not None:
                t = self.val(k, st).taint or t
            vv = self.val(v, st)
            elem = vv if elem is None else join_val(elem, vv)
        splat = any(k is None for k in e.keys)
        kw = None
        if not splat and e.keys and all(isinstance(k, ast.Constant) and isinstance(k.value, str) for k in e.keys) and len(e.keys) <= 32:
            kw = tuple((k.value, self.val(v, st)) for k, v in zip(e.keys, e.values))          # a literal mapping: its keys are known
        return Val(t if not splat else (t or deep_taint(elem)), "map", elem=elem, kw=kw)

    def v_JoinedStr(self, e, st):
        t = False
        for v in e.values:
            if isinstance(v, ast.FormattedValue):
                t = self.val(v.value, st).taint or t
        return Val(t, "str")

    def v_FormattedValue(self, e, st):
        return self.val(e.value, st)

    def v_NamedExpr(self, e, st):
        v = self.val(e.value, st)
        self.assign(e.target, v, st, e.value)
        return v

    def v_Await(self, e, st):
        self.awaited.add(id(e.value))
        if isinstance(e.value, ast.Name) and e.value.id in self.coros and st.env.get(e.value.id, CLEAN).kind == "coro":
            call = self.coros[e.value.id]
            self.awaited.add(id(call))
            try:
                v = self.val(call, st)          # `x = coro(...)` ... `await x`: the coroutine runs here
            finally:
                self.awaited.discard(id(call))
        else:
            v = self.val(e.value, st)
        if v.kind == "coro:conn":
            if self.R.cfg.env:
                self.pending.append(Exc("OSError").with_(site=self.site(e), chain=self.chain, why="connect failure (environment)"))
            return Val(False, "list", 2, 2)
        if self.R.cfg.include_cancel:
            self.pending.append(Exc("asyncio.CancelledError").with_(site=self.site(e), chain=self.chain, why="task cancelled while awaiting"))
        return v

    def v_Yield(self, e, st):
        v = self.val(e.value, st) if e.value is not None else NONE
        self.ret = v if self.ret is None else join_val(self.ret, v)
        return CLEAN

    def v_Starred(self, e, st):
        return self.val(e.value, st)

    def v_Lambda(self, e, st):
        # lambdas are scanned with every parameter tainted: a raiser inside is reported at the definition
        sub = st.copy()
        for p in e.args.posonlyargs + e.args.args:
            sub.env[p.arg] = Val(taint=True, kind="any")
        saved = self.pending
        self.pending = []
        self.val(e.body, sub)
        lam_raises = self.pending
        self.pending = saved
        for x in lam_raises:
            self.pending.append(x.with_(why=x.why + " (inside a lambda applied to peer data)"))
        return Val(kind="func")

    def _comp(self, e, st):
        sub = st.copy()
        t = False
        for g in e.generators:
            it = self.val(g.iter, sub)
            t = t or it.taint
            ev = it.elem if it.elem is not None else Val(taint=it.taint, kind="int" if it.kind == "bytes" else "any")
            if it.taint and not ev.taint:
                ev = ev.but(taint=True)
            self.assign(g.target, ev, sub, None)
            for c in g.ifs:
                self.val(c, sub)
                self.refine(c, True, sub)
        if isinstance(e, ast.DictComp):
            self.val(e.key, sub)
            ev = self.val(e.value, sub)
            return Val(t or ev.taint, "map", elem=ev)
        ev = self.val(e.elt, sub)
        return Val(t or ev.taint, "list", elem=ev)

    v_ListComp = _comp
    v_SetComp = _comp
    v_GeneratorExp = _comp
    v_DictComp = _comp

    # ---------------------------------------------------------------- calls
    def v_Call(self, e: ast.Call, st: St) -> Val:
        argv = [self.val(a, st) for a in e.args]
        kwv = {}
        for k in e.keywords:
            v = self.val(k.value, st)
            if k.arg is None:
                if v.kw is not None:
                    kwv.update(dict(v.kw))       # **kwargs forwarded with known contents
                else:
                    kwv[None] = v
            else:
                kwv[k.arg] = v
        any_taint = any(deep_taint(v) for v in argv) or any(deep_taint(v) for v in kwv.values())
        f = e.func
        # ---- super().m(...)
        if isinstance(f, ast.Attribute) and isinstance(f.value, ast.Call) and isinstance(f.value.func, ast.Name) and f.value.func.id == "super":
            if self.fn.cls is not None:
                target = self.prog.lookup_method(self.self_cls or self.fn.cls, f.attr, after=self.fn.cls)
                if target is not None:
                    recv = st.env.get(self.recv, CLEAN) if self.recv else CLEAN
                    return self.call_repo(e, target, self.self_cls, [recv] + argv, kwv, st)
            return Val(taint=any_taint)
        # ---- plain names
        if isinstance(f, ast.Name):
            name = f.id
            if name in self.local_defs:
                return self.call_local(e, self.local_defs[name], argv, kwv, st)
            if name in st.env and st.env[name].kind == "cls" and st.env[name].classes:
                return self.construct(e, st.env[name].classes, argv, kwv, st)
            if name in st.env and st.env[name].kind == "bmeth" and st.env[name].types:
                # a bound method of the receiver held in a local (encode = self._encode_x; table.get(kind)): call every candidate
                outv = None
                recv_v = st.env.get(self.recv, CLEAN) if self.recv else CLEAN
                for q in sorted(st.env[name].types):
                    tf = self.prog.funcs.get(q)
                    if tf is None:
                        continue
                    v = self.call_repo(e, tf, self.self_cls or tf.cls, ([recv_v] if tf.kind in ("method", "property") else []) + argv, kwv, st)
                    outv = v if outv is None else join_val(outv, v)
                if outv is not None:
                    return outv
            if name in st.env and st.env[name].kind != "cls":
                # call through a local variable holding a function / unknown callable
                self.R.calls_unresolved += 1
                self.R.note(f"{self.fn.qual}: call through local `{name}` assumed benign")
                return Val(taint=any_taint or st.env[name].taint)
            r = self.prog.resolve_name(self.m, name, self.fn.cls)
            if isinstance(r, FuncInfo):
                return self.call_repo(e, r, None, argv, kwv, st)
            if isinstance(r, ClassInfo):
                return self.construct(e, frozenset([r.qual]), argv, kwv, st)
            if name in self.class_assigns:
                return self.construct(e, self.class_assigns[name], argv, kwv, st)
            ext = r.name if isinstance(r, External) else name
            return self.call_ext(e, ext, None, argv, kwv, st)
        # ---- attribute calls
        if isinstance(f, ast.Attribute):
            recv = self.val(f.value, st)
            r = self.prog.resolve_expr(self.m, f, self.fn.cls)
            if isinstance(r, FuncInfo) and not (isinstance(f.value, ast.Name) and f.value.id in st.env and st.env[f.value.id].kind != "cls"):
                # Class.method(...) / module.function(...)
                owner = r.cls
                if r.kind in ("classmethod", "staticmethod", "function"):
                    args = ([Val(kind="cls", classes=frozenset([owner.qual]))] if r.kind == "classmethod" else []) + argv
                    return self.call_repo(e, r, owner, args, kwv, st)
                return self.call_repo(e, r, owner, argv, kwv, st)
            if isinstance(r, ClassInfo):
                return self.construct(e, frozenset([r.qual]), argv, kwv, st)
            # classmethod / nested class via class-valued receiver (cls.X(...), self.PacketType(...))
            if recv.kind == "cls" and recv.classes:
                outv = None
                hit = False
                for q in recv.classes:
                    c = self.prog.classes.get(q)
                    if not c:
                        continue
                    if f.attr in c.nested:
                        hit = True
                        v = self.construct(e, frozenset([c.nested[f.attr].qual]), argv, kwv, st)
                    else:
                        t = self.prog.lookup_method(c, f.attr)
                        if t is None:
                            continue
                        hit = True
                        args = ([recv] if t.kind == "classmethod" else []) + argv
                        v = self.call_repo(e, t, c, args, kwv, st)
                    outv = v if outv is None else join_val(outv, v)
                if hit:
                    return outv
            # nested class reached through an instance (self.PacketType(x))
            if recv.types:
                nested = set()
                for q in recv.types:
                    c = self.prog.classes.get(q)
                    if c:
                        for k2 in self.prog.mro(c):
                            if f.attr in k2.nested:
                                nested.add(k2.nested[f.attr].qual)
                if nested:
                    return self.construct(e, frozenset(nested), argv, kwv, st)
            # instance method through the receiver's classes
            if recv.types:
                outv, hit = None, False
                for q in sorted(recv.types):
                    c = self.prog.classes.get(q)
                    if not c:
                        continue
                    t = self.prog.lookup_method(c, f.attr)
                    if t is None:
                        continue
                    hit = True
                    if t.kind in ("classmethod",):
                        args = [Val(kind="cls", classes=frozenset([q]))] + argv
                    elif t.kind == "staticmethod":
                        args = argv
                    else:
                        args = [recv] + argv
                    v = self.call_repo(e, t, c, args, kwv, st)
                    outv = v if outv is None else join_val(outv, v)
                if hit:
                    return outv
            # queue get on self.<attr>
            if f.attr in ("get", "get_nowait") and not argv and self.recv and isinstance(f.value, ast.Attribute) \
                    and isinstance(f.value.value, ast.Name) and f.value.value.id == self.recv and self.self_cls is not None:
                qv = self.queue_model(f.value.attr)
                if qv is not None:
                    if f.attr == "get_nowait" and ("<nonempty>", self.key_of(f.value)) in st.members:
                        st.members = st.members - {("<nonempty>", self.key_of(f.value))}
                        return qv
                    if f.attr == "get_nowait" and self.R.cfg.env:
                        self.pending.append(Exc("asyncio.QueueEmpty").with_(site=self.site(e), chain=self.chain, why="queue empty (environment)"))
                    return qv
            if f.attr == "put_nowait" and self.collect_puts and isinstance(f.value, ast.Attribute) and f.value.attr == self.collect_puts and argv:
                self.puts.append(argv[0])
                return NONE
            ext = None
            if isinstance(r, External):
                ext = r.name
            return self.call_ext(e, ext, (recv, f.attr), argv, kwv, st)
        # ---- anything else (call of a call / subscript result)
        fv = self.val(f, st)
        self.R.calls_unresolved += 1
        self.R.note(f"{self.fn.qual}: dynamic call `{norm(f)[:60]}` assumed benign")
        return Val(taint=any_taint or fv.taint)

    def queue_model(self, attr: str) -> Optional[Val]:
        """self.<attr> is an asyncio.Queue filled by the class's producer callbacks."""
        c = self.self_cls
        init_has_queue = False
        for k in self.prog.mro(c):
            ini = k.methods.get("__init__")
            if ini is None:
                continue
            for n in ast.walk(ini.node):
                if isinstance(n, ast.Assign) and any(isinstance(t, ast.Attribute) and t.attr == attr for t in n.targets):
                    if isinstance(n.value, ast.Call) and norm(n.value.func).endswith("Queue"):
                        init_has_queue = True
        if not init_has_queue:
            return None
        return self.R.queue_items(c, attr)

    def call_local(self, e, node, argv, kwv, st) -> Val:
        # nested def: analysed inline with the caller's environment for free names
        fi = FuncInfo(name=node.name, qual=f"{self.fn.qual}.<locals>.{node.name}", module=self.m, node=node, cls=self.fn.cls, kind="function")
        names = [a.arg for a in node.args.posonlyargs + node.args.args]
        args = {n: v for n, v in zip(names, argv)}
        args.update({k: v for k, v in kwv.items() if k})
        self.R.calls_resolved += 1
        self.R.local_scopes[fi.qual] = dict(self.local_defs)
        rv, esc = self.R.summary(fi, self.self_cls, args, st.ctl, self.chain)
        self.pending += esc
        return rv

    def call_repo(self, e, target: FuncInfo, owner, argv: List[Val], kwv, st) -> Val:
        self.R.calls_resolved += 1
        override = self.R.cfg.ret_sources.get(target.qual)
        if target.qual in self.R.cfg.stop_at:
            self.R.note(f"{target.qual}: outside the analysed boundary (treated as opaque)")
            return Val(taint=any(v.taint for v in argv))
        if target.is_async and id(e) not in self.awaited and not any(isinstance(n, (ast.Yield, ast.YieldFrom)) for n in ast.walk(target.node)):
            # calling a coroutine function only creates the coroutine; it runs where it is awaited / scheduled
            return Val(taint=any(deep_taint(v) for v in argv), kind="coro")
        a = target.node.args
        names = [x.arg for x in a.posonlyargs + a.args]
        args: Dict[str, Val] = {}
        for n, v in zip(names, argv):
            args[n] = v
        for k, v in kwv.items():
            if k:
                args[k] = v
        if a.vararg and len(argv) > len(names):
            extra = argv[len(names):]
            ev = None
            for v in extra:
                ev = v if ev is None else join_val(ev, v)
            args[a.vararg.arg] = Val(any(v.taint for v in extra), "list", len(extra), len(extra), elem=ev)
        self_cls = owner
        if target.cls is not None and target.kind in ("method", "property", "setter") and argv:
            # dynamic receiver class: keep the most specific known class for MRO-based lookups inside the callee
            rt = argv[0].types
            if rt:
                cands = [self.prog.classes[q] for q in rt if q in self.prog.classes and target.cls in self.prog.mro(self.prog.classes[q])]
                if len(cands) == 1:
                    self_cls = cands[0]
                elif owner is not None and owner in cands:
                    self_cls = owner
        elif target.kind == "classmethod" and argv and argv[0].classes:
            cands = [self.prog.classes[q] for q in argv[0].classes if q in self.prog.classes]
            if len(cands) == 1:
                self_cls = cands[0]
        if target.qual in self.chain and (st.ctl or any(deep_taint(v) for v in argv)) and self.R.cfg.sources is not None:
            # a function re-entering itself as often as the peer's data says: the depth is not bounded by the code
            self.raiser(e, "RecursionError", f"{target.name} calls itself on a path selected by peer data: the recursion depth is peer-controlled")
        rv, esc = self.R.summary(target, self_cls or target.cls, args, st.ctl, self.chain)
        self.pending += esc
        if override is not None:
            self.R.source_hits[target.qual] = self.R.source_hits.get(target.qual, 0) + 1
            return override       # the body was analysed for its raisers; its result is the configured taint source
        return rv

    def construct(self, e, classes: frozenset, argv, kwv, st) -> Val:
        any_taint = any(deep_taint(v) for v in argv) or any(deep_taint(v) for v in kwv.values())
        out_types = set()
        for q in sorted(classes):
            c = self.prog.classes.get(q)
            if c is None:
                continue
            out_types.add(q)
            if self.prog.is_enum(c):
                if argv and argv[0].taint:
                    ak = self.key_of(e.args[0]) if e.args else None
                    if ak and (ak, "enum:" + q) in st.members:
                        self.raiser(e, "ValueError", "", proved=f"`{ak} in {c.name}` members established on this path")
                    else:
                        self.raiser(e, "ValueError", f"{c.name}(<peer value>): not every value is a member")
                continue
            ext = self.prog.ext_bases(c)
            rf = self.prog.record_fields(c)
            if rf is not None and len(classes) == 1 and len(argv) <= len(rf) and (not getattr(e, "keywords", None) or all(k.arg for k in e.keywords)):
                # NamedTuple / plain dataclass: the object is its arguments, under the field names (and by position for a NamedTuple)
                fd = {}
                for i, (f, default) in enumerate(rf):
                    if i < len(argv):
                        fd[f] = argv[i]
                    elif f in kwv:
                        fd[f] = kwv[f]
                    elif default is not None:
                        fd[f] = self.val(default, st) if isinstance(default, ast.Constant) else CLEAN
                    else:
                        fd = None
                        break
                if fd is not None:
                    return Val(taint=any_taint, kind="obj", types=frozenset([q]), built=True, fields=tuple(sorted(fd.items(), key=lambda kv: kv[0])),
                               elem=None, exact=len(rf) if self.prog.is_namedtuple(c) else None, lb=len(rf) if self.prog.is_namedtuple(c) else 0)
            ini = self.prog.lookup_method(c, "__init__")
            if ini is not None:
                obj = Val(taint=any_taint, kind="obj", types=frozenset([q]), built=True)
                self.call_repo(e, ini, c, [obj] + argv, kwv, st)
            elif any(b.endswith("Exception") or b.endswith("Error") for b in ext) or not ext:
                pass
        if any(self.prog.is_enum(self.prog.classes[q]) for q in out_types if q in self.prog.classes):
            return Val(taint=any_taint, kind="int", types=frozenset(out_types))
        return Val(taint=any_taint, kind="obj", types=frozenset(out_types), built=True)

    def call_ext(self, e, ext: Optional[str], meth, argv: List[Val], kwv, st) -> Val:
        """Library / builtin / unresolved-method call: the library model."""
        self.R.calls_library += 1
        any_taint = any(deep_taint(v) for v in argv) or any(deep_taint(v) for v in kwv.values())
        a0 = argv[0] if argv else CLEAN
        name = ext or ""
        short = name.split(".")[-1]
        cfg = self.R.cfg
        # ---- environment raisers
        if meth is not None and meth[1] in ("create_connection", "create_datagram_endpoint", "open_connection"):
            # creating the coroutine does not raise; awaiting it (directly or through wait_for) does
            return Val(False, "coro:conn")
        if cfg.env and name in ENV_RAISERS:
            for exc in ENV_RAISERS[name]:
                self.pending.append(Exc(exc).with_(site=self.site(e), chain=self.chain, why=f"{name} (environment)"))
            if name == "asyncio.wait_for" and a0.kind == "coro:conn":
                self.pending.append(Exc("OSError").with_(site=self.site(e), chain=self.chain, why="connect failure surfaces at the awaited wait_for (environment)"))
        if name == "asyncio.wait_for":
            return a0 if a0.kind not in ("coro:conn",) else Val(False, "list", 2, 2)
        # ---- precompiled struct.Struct constants: S.unpack_from(buf[, off]) is struct.unpack_from(fmt, buf[, off])
        if meth is not None and meth[1] in ("unpack_from", "unpack") and isinstance(e.func, ast.Attribute):
            fmt = self.struct_const_fmt(e.func.value)
            if fmt is not None:
                buf = argv[0] if argv else CLEAN
                if buf.taint:
                    try:
                        size = _struct.calcsize(fmt)
                    except _struct.error:
                        size = None
                    offn = e.args[1] if (meth[1] == "unpack_from" and len(e.args) > 1) else dict((k.arg, k.value) for k in e.keywords).get("offset")
                    off = self.cint(offn) if offn is not None else 0
                    rem = None
                    if off is None and isinstance(offn, ast.Name) and offn.id in st.env and (st.env[offn.id].ilb or -1) >= 0:
                        bk = self.key_of(e.args[0]) if e.args else None
                        rem = max((p[2] for p in st.lenge if len(p) == 3 and p[0] == bk and p[1] == offn.id), default=None)
                    if meth[1] == "unpack" and size is not None and buf.exact == size:
                        self.raiser(e, "struct.error", "", proved=f"exactly {size} bytes")
                    elif meth[1] == "unpack_from" and size is not None and rem is not None and rem >= size:
                        self.raiser(e, "struct.error", "", proved=f"len(buffer) - {offn.id} >= {rem} >= {size} and {offn.id} >= 0")
                    elif meth[1] == "unpack_from" and size is not None and off is not None and off >= 0 and buf.lb >= off + size:
                        self.raiser(e, "struct.error", "", proved=f"buffer length >= {buf.lb} >= offset {off} + {size}")
                    else:
                        self.raiser(e, "struct.error", f"Struct({fmt!r}).{meth[1]} on peer data whose length is only known to be >= {buf.lb}")
                signed = any(c in "bhilqfd" for c in fmt)
                return Val(buf.taint, "list", elem=Val(buf.taint, "any" if any(c in "sp" for c in fmt) else "int", ilb=None if signed or any(c in "sp" for c in fmt) else 0))
        # ---- builtins and library functions
        if meth is None or ext:
            if name == "dict" and not e.args and e.keywords and all(k.arg for k in e.keywords):
                # dict(a=x, b=y) is the literal {"a": x, "b": y}: constant keys, the values are its elements
                elem = None
                for k in e.keywords:
                    vv = self.val(k.value, st)
                    elem = vv if elem is None else join_val(elem, vv)
                return Val(False, "map", elem=elem)
            if name == "slice" and not any(v.taint for v in argv):
                return Val(False, "slice")          # a slice object with bounds the peer does not choose: indexing with it is slicing
            if name == "len":
                return Val(a0.taint, "int", ilb=a0.lb, len_of=self.key_of(e.args[0]) if e.args else None)
            if name in ("bytes", "bytearray") and argv and a0.kind == "list" and a0.elem is not None:
                self.none_raiser(e, a0.elem, "bytes([...]) element")
            if name in ("math.modf", "math.floor", "math.ceil", "round", "abs") and argv:
                self.none_raiser(e, a0, name)
            if name in ("memoryview", "bytes", "bytearray"):
                if argv and a0.kind in ("bytes", "any", "list") and (a0.taint or a0.kind == "bytes"):
                    return a0.but(kind="bytes")
                return Val(any_taint, "bytes")
            if name in ("int", "float") and argv:
                self.none_raiser(e, a0, f"{name}()")
            if name == "int":
                if argv and a0.taint and a0.kind in ("str", "bytes", "any"):
                    self.raiser(e, "ValueError", "int() of a peer-controlled string")
                return Val(any_taint, "int")
            if name == "float":
                if argv and a0.taint and a0.kind in ("str", "bytes", "any"):
                    self.raiser(e, "ValueError", "float() of a peer-controlled string")
                return Val(any_taint, "float")
            if name in ("bool", "isinstance", "callable", "hasattr"):
                return Val(any_taint, "bool")
            if name in ("str", "repr", "hex", "bin", "format"):
                return Val(any_taint, "str")
            if name in ("range",):
                return Val(any_taint, "range")
            if name in ("list", "tuple", "set", "sorted", "reversed", "filter", "frozenset"):
                v = argv[-1] if argv else CLEAN
                return Val(any_taint, "list", elem=v.elem)
            if name in ("min", "max", "sum", "abs", "round", "any", "all", "divmod", "pow"):
                return Val(any_taint, "int" if name != "round" else "float")
            if name in ("typing.cast", "cast"):
                v = argv[1] if len(argv) > 1 else CLEAN
                ts = self.annotation_types(e.args[0]) if e.args else frozenset()
                if v.built and v.types:
                    return v                   # typing.cast is a no-op at run time: the value keeps the classes it really has
                return v.but(types=ts) if ts else v
            if name == "getattr":
                return Val(any_taint)
            if name == "struct.unpack":
                fmt = e.args[0].value if e.args and isinstance(e.args[0], ast.Constant) and isinstance(e.args[0].value, str) else None
                buf = argv[1] if len(argv) > 1 else CLEAN
                if buf.taint:
                    size = _struct.calcsize(fmt) if fmt else None
                    if size is not None and buf.exact == size:
                        self.raiser(e, "struct.error", "", proved=f"buffer length is exactly {size}")
                    else:
                        self.raiser(e, "struct.error", f"struct.unpack({fmt!r}) on peer data whose length is not known to be exactly {size}")
                return Val(buf.taint, "list", elem=Val(buf.taint, "int"))
            if name == "struct.unpack_from":
                fmt = e.args[0].value if e.args and isinstance(e.args[0], ast.Constant) and isinstance(e.args[0].value, str) else None
                buf = argv[1] if len(argv) > 1 else CLEAN
                off = self.cint(e.args[2]) if len(e.args) > 2 else (self.cint(dict((k.arg, k.value) for k in e.keywords).get("offset")) if any(k.arg == "offset" for k in e.keywords) else 0)
                if buf.taint:
                    size = _struct.calcsize(fmt) if fmt else None
                    offn = e.args[2] if len(e.args) > 2 else dict((k.arg, k.value) for k in e.keywords).get("offset")
                    rem = None
                    if off is None and isinstance(offn, ast.Name) and offn.id in st.env and (st.env[offn.id].ilb or -1) >= 0:
                        bk = self.key_of(e.args[1]) if len(e.args) > 1 else None
                        rem = max((p[2] for p in st.lenge if len(p) == 3 and p[0] == bk and p[1] == offn.id), default=None)
                    if size is not None and rem is not None and rem >= size:
                        self.raiser(e, "struct.error", "", proved=f"len(buffer) - {offn.id} >= {rem} >= {size} and {offn.id} >= 0")
                    elif size is not None and off is not None and off >= 0 and buf.lb >= off + size:
                        self.raiser(e, "struct.error", "", proved=f"buffer length >= {buf.lb} >= offset {off} + {size}")
                    else:
                        self.raiser(e, "struct.error", f"struct.unpack_from({fmt!r}, offset {off}) on peer data whose length is only known to be >= {buf.lb}")
                signed = fmt is not None and any(c in "bhilq" for c in fmt)
                return Val(buf.taint, "list", elem=Val(buf.taint, "int", ilb=None if signed else 0))
            if name == "int.from_bytes":
                signed = any(k.arg == "signed" for k in e.keywords)
                width = a0.exact if (a0.exact is not None and a0.exact <= 8) else None
                if width is None and e.args and isinstance(e.args[0], ast.Subscript) and isinstance(e.args[0].slice, ast.Slice) and e.args[0].slice.step is None:
                    lo_, hi_ = self.cint(e.args[0].slice.lower) if e.args[0].slice.lower is not None else 0, self.cint(e.args[0].slice.upper)
                    if lo_ is not None and hi_ is not None and 0 <= lo_ <= hi_ <= lo_ + 8:
                        width = hi_ - lo_          # a constant slice is at most that wide, however long the buffer is
                return Val(any_taint, "int", ilb=None if signed else 0, iub=(256 ** width - 1) if (width is not None and not signed) else None)
            if name == "ipaddress.IPv4Address":
                if a0.taint:
                    if a0.exact == 4:
                        self.raiser(e, "ipaddress.AddressValueError", "", proved="exactly 4 bytes")
                    else:
                        self.raiser(e, "ipaddress.AddressValueError", "IPv4Address of peer bytes not known to be exactly 4 long")
                return Val(any_taint, "obj")
            if name in ("xml.etree.ElementTree.fromstring", "ET.fromstring"):
                if a0.taint:
                    self.raiser(e, "xml.etree.ElementTree.ParseError", "XML parse of peer-controlled data")
                return Val(any_taint, "obj")
            if name in ("json.loads",):
                if a0.taint:
                    self.raiser(e, "json.JSONDecodeError", "JSON parse of peer-controlled data")
                return Val(any_taint, "any")
            if name in ("bytes.fromhex",):
                if a0.taint:
                    self.raiser(e, "ValueError", "fromhex of peer-controlled text")
                return Val(any_taint, "bytes")
            if name in ("Crypto.Util.Padding.unpad",):
                if a0.taint:
                    self.raiser(e, "ValueError", "PKCS7 unpad of peer-controlled plaintext (padding may be invalid)")
                return Val(any_taint, "bytes")
            if name in ("Crypto.Util.Padding.pad",):
                return Val(any_taint, "bytes")
            if name in ("Crypto.Util.strxor.strxor",):
                a1 = argv[1] if len(argv) > 1 else CLEAN
                if any_taint and not (a0.exact is not None and a0.exact == a1.exact):
                    # lengths must match; the session key side is not peer data, the decrypted side has a proved length
                    if a0.exact is None and a0.taint:
                        self.raiser(e, "ValueError", "strxor operands of different length (peer-controlled length)")
                return Val(any_taint, "bytes", a0.lb, a0.exact)
            if name in ("Crypto.Cipher.AES.new",):
                return Val(False, "cipher")
            if name in ("hashlib.md5", "hashlib.sha256", "hashlib.sha1"):
                return Val(any_taint, "hash")
            if name in ("asyncio.create_task", "asyncio.ensure_future"):
                # the coroutine runs as its own task: its exceptions do not escape here
                return Val(False, "obj")
            if name in BENIGN_EXT or short in BENIGN_EXT:
                return Val(any_taint)
            import builtins as _b
            bo = getattr(_b, name, None)
            if isinstance(bo, type) and issubclass(bo, BaseException):
                return Val(False, "exc")
        # ---- methods on unresolved receivers
        if meth is not None:
            recv, mname = meth
            taint = recv.taint or any_taint
            if mname in ("decrypt", "encrypt") and recv.kind in ("cipher", "any", "obj"):
                if a0.taint:
                    if a0.exact is not None and a0.exact % 16 == 0:
                        self.raiser(e, "ValueError", "", proved=f"ciphertext length is exactly {a0.exact} (multiple of 16)")
                    else:
                        self.raiser(e, "ValueError", "AES block operation on peer data whose length is not known to be a multiple of 16")
                return Val(a0.taint, "bytes", a0.lb, a0.exact)
            if mname == "decode" and recv.kind in ("bytes", "any") and recv.taint:
                self.raiser(e, "UnicodeDecodeError", "decode() of peer-controlled bytes")
                return Val(True, "str")
            if mname in ("digest",):
                return Val(taint, "bytes", 16, None)
            if mname in ("hexdigest", "hex"):
                return Val(taint, "str")
            if mname in ("tobytes", "cast", "toreadonly"):
                return recv.but(kind="bytes")
            if mname == "split" and recv.kind in ("str", "any", "bytes"):
                return Val(recv.taint, "strlist", 1, None, elem=Val(recv.taint, "str"))
            if mname == "to_bytes":
                n = const_int(e.args[0]) if e.args else None
                if recv.taint:
                    self.R.note(f"{self.fn.qual}: `{norm(e)[:60]}` on a peer-derived integer assumed to fit (OverflowError not modelled)")
                return Val(taint, "bytes", n or 0, n)
            if mname in ("find", "index", "count", "startswith", "endswith"):
                if mname == "index" and recv.taint:
                    self.raiser(e, "ValueError", ".index() on peer-controlled data")
                return Val(taint, "int")
            if mname in STR_METHODS:
                # strip / replace / ljust ... exist on bytes as well: the result has the receiver's kind (a later .decode() is still a decode of bytes)
                if recv.kind == "bytes" and mname not in ("format",):
                    return Val(taint, "bytes")
                return Val(taint, "str")
            if mname in BYTES_RESULT_METHODS:
                return Val(taint, "bytes")
            if mname == "_asdict" and not argv and recv.built and recv.fields and not any(k.startswith("#") for k, _v in recv.fields):
                # NamedTuple._asdict(): the mapping of its field names to its fields
                return Val(recv.taint, "map", kw=tuple(recv.fields))
            if mname == "get" and recv.elem is not None and (recv.elem.kind in ("bmeth", "cls") or (
                    recv.kind == "map" and not recv.taint and recv.elem.fields and any(fv.kind in ("bmeth", "cls") for _fk, fv in recv.elem.fields))):
                # a dispatch table of bound methods / classes: any of its values, or the default (None when absent)
                dflt = argv[1] if len(argv) > 1 else kwv.get("default")
                return join_val(recv.elem, dflt) if dflt is not None else recv.elem.but(may_none=True)
            if mname in ("get", "find") and taint:
                # mapping.get(key[, default]) / Element.get / Element.find on peer-controlled content: absent -> None (or the default)
                dflt = argv[1] if (mname == "get" and len(argv) > 1) else (kwv.get("default") if mname == "get" else None)
                none = dflt is None or dflt.may_none or dflt.kind == "none"
                return Val(taint, "any", elem=recv.elem, may_none=none)
            if mname in ("get", "items", "keys", "values", "find", "findall", "copy"):
                return Val(taint, "any", elem=recv.elem)
            if mname in ("append", "extend", "add", "update", "insert", "put_nowait"):
                k = self.key_of(e.func.value)
                if k and any_taint and k not in st.env:
                    st.env[k] = recv                  # (first mutation of an attribute that this function never assigned)
                if k and any_taint and k in st.env:
                    el = st.env[k].elem
                    new_el = a0 if el is None else join_val(el, a0)
                    st.env[k] = st.env[k].but(taint=True, elem=new_el if mname in ("append", "add", "insert") else (a0.elem or new_el))
                elif k and k in st.env and mname in ("append", "add", "insert"):
                    el = st.env[k].elem
                    st.env[k] = st.env[k].but(elem=a0 if el is None else join_val(el, a0))
                return NONE
            if mname == "is_closing" and self.R.cfg.env:
                # whether the transport is closing is decided by the peer (it can close the connection at any moment, also while this
                # coroutine is suspended): with environment raisers included the answer is peer-controlled
                return Val(True, "bool")
            if mname in BENIGN_METHODS:
                return Val(taint)
            if mname in ("read",) and recv.kind in ("obj", "any") and not recv.types:
                # namedtuple reader field holding a comparison lambda (scanned at its definition)
                return Val(taint, "bool")
            if recv.taint or any_taint:
                self.R.calls_unresolved += 1
                self.R.note(f"{self.fn.qual}: `.{mname}()` on an untyped receiver assumed benign")
            return Val(taint)
        if any_taint and name:
            self.R.note(f"{self.fn.qual}: library call `{name}` on peer data assumed benign")
        return Val(any_taint)
