"""Seeing through helpers that a refactoring extracted: functions that are not in sa/known_functions.txt are treated as
part of their callers (the rules were written against the known functions; a new private helper is an implementation
detail of whoever calls it)."""
from __future__ import annotations

import ast
from typing import Dict, List, Optional, Set

from .model import ClassInfo, FuncInfo, Program


def _strip(t):
    from .facts import strip
    return strip(t)


def resolve_call(prog: Program, fn: FuncInfo, call: ast.Call) -> Optional[FuncInfo]:
    f = call.func
    if isinstance(f, ast.Attribute):
        v = f.value
        if isinstance(v, ast.Name) and fn.cls is not None and fn.params and v.id == fn.params[0] and fn.kind in ("method", "classmethod", "property", "setter"):
            return prog.lookup_method(fn.cls, f.attr)
        if isinstance(v, ast.Call) and isinstance(v.func, ast.Name) and v.func.id == "super" and fn.cls is not None:
            return prog.lookup_method(fn.cls, f.attr, after=fn.cls)
        r = prog.resolve_expr(fn.module, f, fn.cls)
        return r if isinstance(r, FuncInfo) else None
    if isinstance(f, ast.Name):
        r = prog.resolve_name(fn.module, f.id, fn.cls)
        return r if isinstance(r, FuncInfo) else None
    return None


def unknown_callee(prog: Program, fn: FuncInfo, call: ast.Call) -> Optional[FuncInfo]:
    t = resolve_call(prog, fn, call)
    if t is not None and not prog.is_known(t.qual) and t.qual != fn.qual:
        return t
    return None


def with_helpers(prog: Program, fn: FuncInfo, depth=4) -> List[FuncInfo]:
    """fn followed by the unknown helpers it (transitively) calls."""
    out, seen = [fn], {fn.qual}
    todo = [(fn, 0)]
    while todo:
        f, d = todo.pop(0)
        if d >= depth:
            continue
        for n in ast.walk(f.node):
            if isinstance(n, ast.Call):
                t = unknown_callee(prog, f, n)
                if t is not None and t.qual not in seen:
                    seen.add(t.qual)
                    out.append(t)
                    todo.append((t, d + 1))
    return out


def known_owners(prog: Program, helper: FuncInfo) -> List[str]:
    """The known functions through which an unknown helper is reached (callers, transitively)."""
    owners: Set[str] = set()
    seen = {helper.qual}
    todo = [helper]
    while todo:
        h = todo.pop()
        for f in prog.all_functions():
            for n in ast.walk(f.node):
                if isinstance(n, ast.Call):
                    t = resolve_call(prog, f, n)
                    if t is not None and t.qual == h.qual and t.kind == h.kind:
                        if prog.is_known(f.qual):
                            owners.add(f.qual)
                        elif f.qual not in seen:
                            seen.add(f.qual)
                            todo.append(f)
    return sorted(owners)


def contains_call(prog: Program, fn: FuncInfo, node: ast.AST, pred, depth=0) -> bool:
    """Does `node` (inside fn) contain a call satisfying pred - directly or inside an unknown helper it calls?"""
    for n in ast.walk(node):
        if isinstance(n, ast.Call):
            if pred(n):
                return True
            if depth < 4:
                t = unknown_callee(prog, fn, n)
                if t is not None and contains_call(prog, t, t.node, pred, depth + 1):
                    return True
    return False


def find_loop(prog: Program, fn: FuncInfo, pred):
    """(loop node, owning function) of the first while-loop - in fn or in an unknown helper it calls - whose body reaches a
    call satisfying pred."""
    for f in with_helpers(prog, fn):
        for n in ast.walk(f.node):
            if isinstance(n, ast.While) and contains_call(prog, f, n, pred):
                return n, f
    return None, None


def inlined_summaries(prog: Program, fn: FuncInfo, args=None, depth=0, outer=None, site_pc=(), sink=None):
    """[(summary, mapping)] for fn and every unknown helper it calls; the helpers are summarised with their parameters bound to
    the caller's argument terms, and `mapping` rewrites their reads of receiver attributes into the caller's values at the call
    (so that terms inside a helper are expressed over the *anchor's* parameters and state)."""
    from .terms import bind_args, const, replace, summarize
    s = summarize(prog, fn, args or {}, depth=depth)
    out = [(s, dict(outer or {}))]
    if sink is not None:
        sink.append((s, dict(outer or {}), tuple(site_pc)))          # (+ the path condition, in the anchor's frame, under which fn is entered)
    if depth >= 4:
        return out
    par = {}
    for n in ast.walk(fn.node):
        for c in ast.iter_child_nodes(n):
            par[c] = n
    for n in ast.walk(fn.node):
        if not isinstance(n, ast.Call):
            continue
        t = unknown_callee(prog, fn, n)
        if t is None:
            continue
        argt = []
        ok = True
        for a in n.args:
            if a in s.ta.terms_at:
                argt.append(s.ta.terms_at[a])
            else:
                ok = False
        if not ok:
            continue
        kw = tuple((k.arg, s.ta.terms_at[k.value]) for k in n.keywords if k.arg and k.value in s.ta.terms_at)
        mapping = dict(outer or {})
        if isinstance(n.func, ast.Attribute) and t.cls is not None and t.kind in ("method", "property"):
            recv = s.ta.terms_at.get(n.func.value)
            rkey = None
            if isinstance(n.func.value, ast.Call):       # super()
                recv = ("param", fn.params[0]) if fn.params else None
                rkey = fn.params[0] if fn.params else None
            elif isinstance(n.func.value, ast.Name):
                rkey = n.func.value.id
            if recv is None:
                continue
            argt = [recv] + argt
            # caller's attribute values at the statement holding the call
            st = n
            while st in par and st not in s.ta.env_at:
                st = par[st]
            env = s.ta.env_at[st].env if st in s.ta.env_at else {}
            if rkey:
                for k, v in env.items():
                    if k.startswith(rkey + ".") and "." not in k[len(rkey) + 1:]:
                        at = ("attr", recv, k[len(rkey) + 1:])
                        v2 = replace(v, outer) if outer else v
                        if v2 != at:
                            mapping[at] = v2
        if outer:
            argt = [replace(x, outer) for x in argt]
            kw = tuple((k, replace(v, outer)) for k, v in kw)
        amap = bind_args(t, tuple(argt), kw)
        a = t.node.args
        pos = a.posonlyargs + a.args
        for p, d in list(zip(pos[len(pos) - len(a.defaults):], a.defaults)):
            if p.arg not in amap and isinstance(d, ast.Constant):
                amap[p.arg] = const(d.value)
        pc_here = ()
        if sink is not None:
            st_ = n
            while st_ in par and st_ not in s.ta.env_at:
                st_ = par[st_]
            own = tuple(s.ta.env_at[st_].pc) if st_ in s.ta.env_at else ()
            pc_here = tuple(site_pc) + tuple((replace(c_, outer) if outer else c_, tr_) for c_, tr_ in own)
        out += inlined_summaries(prog, t, amap, depth + 1, mapping, pc_here, sink)
    return out


def pc_lookup(prog: Program, anchor: FuncInfo):
    """statement node -> path condition (in the anchor's frame) for statements of the anchor *or of the unknown helpers it calls*: the
    condition under which the helper is entered followed by the helper's own condition at the statement."""
    from .terms import replace
    sink = []
    inlined_summaries(prog, anchor, sink=sink)

    def get(node):
        for s, mapping, site_pc in sink:
            if node in s.ta.env_at:
                own = tuple((replace(c, mapping) if mapping else c, tr) for c, tr in s.ta.env_at[node].pc)
                return tuple(site_pc) + own
        return None
    return get


def term_lookup(prog: Program, fns):
    """node -> value-flow term for nodes of an anchor function *or of the unknown helpers it calls* (helper terms are
    expressed over the anchor's parameters and state).  `fns`: a FuncInfo or a list whose first element is the anchor."""
    from .terms import replace
    anchor = fns[0] if isinstance(fns, list) else fns
    sums = inlined_summaries(prog, anchor)

    def get(node):
        for s, mapping in sums:
            if node in s.ta.terms_at:
                t = s.ta.terms_at[node]
                return replace(t, mapping) if mapping else t
        return None
    get.summaries = [s for s, _m in sums]
    return get


def collect_loop(fs, f, acc):
    """acc is the value, after a loop, of a list that starts empty and on *every* iteration (no condition, break or continue) is
    extended by all of X (acc.extend(X) / acc += X / for r in X: acc.append(r)): returns X, else None."""
    if not (isinstance(acc, tuple) and acc and acc[0] == "loopvar"):
        return None
    name, line = acc[1], acc[2]
    loop = next((l for l in fs.loops if getattr(l, "lineno", None) == line and isinstance(l, ast.For)), None)
    if loop is None:
        return None
    info = fs.loops[loop]
    if info["breaks"] or info["continues"] or not info["ends"] or info["body_entry"] is None:
        return None
    if _strip(info["entry"].env.get(name, ("top",))) != ("list", ()):
        return None
    srcs = set()
    for st in info["ends"]:
        if st.pc != info["body_entry"].pc:
            return None
        v = _strip(st.env.get(name, ("top",)))
        if v[0] == "mut" and v[1] == "extend" and _strip(v[2]) == acc and len(v[3]) == 1:
            srcs.add(_strip(v[3][0]))
        elif v[0] == "bin" and v[1] == "+" and _strip(v[2]) == acc:
            srcs.add(_strip(v[3]))
        elif v[0] == "loopvar" and v[1] == name and v[2] != line:
            # nested `for r in X: acc.append(r)`
            inner = next((l for l in fs.loops if getattr(l, "lineno", None) == v[2] and isinstance(l, ast.For)), None)
            ii = fs.loops.get(inner) if inner is not None else None
            if ii is None or ii["breaks"] or ii["continues"] or ii["body_entry"] is None or _strip(ii["entry"].env.get(name, ("top",))) != acc:
                return None
            x = None
            for ist in ii["ends"]:
                iv = _strip(ist.env.get(name, ("top",)))
                if ist.pc != ii["body_entry"].pc or not (iv[0] == "mut" and iv[1] == "append" and _strip(iv[2]) == ("loopvar", name, v[2]) and len(iv[3]) == 1
                                                         and iv[3][0][0] == "iter"):
                    return None
                x = _strip(iv[3][0][1])
            if x is None:
                return None
            srcs.add(x)
        else:
            return None
    return srcs.pop() if len(srcs) == 1 else None



def flag_tracks_list(fs, flag, lst, entry=None, depth=0) -> bool:
    """flag and lst are the values after one loop (('loopvar', name, line) of the same loop) of a boolean and a list such that
    flag == (len(lst) > 0) is an invariant: False / empty before the loop, and every way round the loop either leaves both alone or
    appends to the list and raises the flag (also when that happens in a nested loop).  `entry` = (flag, lst) values required at loop
    entry (default: False and the empty list)."""
    from .facts import cases, simplify
    flag, lst = _strip(flag), _strip(lst)
    if not (flag[0] == "loopvar" and lst[0] == "loopvar" and flag[2] == lst[2]) or depth > 2:
        return False
    loop_ = next((l for l in fs.loops if getattr(l, "lineno", None) == flag[2]), None)
    info_ = fs.loops.get(loop_) if loop_ is not None else None
    if info_ is None:
        return False
    want = entry or (("const", False), ("list", ()))
    if _strip(info_["entry"].env.get(flag[1], ("top",))) != want[0] or _strip(info_["entry"].env.get(lst[1], ("top",))) != want[1]:
        return False

    def paired(lv, fv, d=0):
        lv, fv = _strip(lv), _strip(fv)
        if lv[0] == "ite" and fv[0] == "ite" and lv[1] == fv[1] and d < 8:
            return paired(lv[2], fv[2], d + 1) and paired(lv[3], fv[3], d + 1)       # merged after the same test
        if lv[0] == "loopvar" and fv[0] == "loopvar" and lv[2] == fv[2] and lv[2] != flag[2]:
            return flag_tracks_list(fs, fv, lv, entry=(flag, lst), depth=depth + 1)     # a nested loop doing the same
        appended = lv[0] == "mut" and lv[1] == "append" and _strip(lv[2]) == lst
        return (appended and fv == ("const", True)) or (lv == lst and fv == flag)
    for st_ in info_["ends"] + info_["continues"] + [b for b in info_["breaks"] if hasattr(b, "env")]:
        for case in (cases(st_.pc, cap=64) or [[]]):
            fv_ = simplify(st_.env.get(flag[1], flag), case)
            lv_ = simplify(st_.env.get(lst[1], lst), case)
            if not paired(lv_, fv_):
                return False
    return True


def flows_from(fs, f, t, pred, depth=0) -> bool:
    """Some sub-term of t satisfies pred - looking through lists collected by an unconditional accumulate loop."""
    from .terms import subterms
    for x in subterms(t):
        if pred(x):
            return True
        if x[0] == "loopvar" and depth < 3:
            src = collect_loop(fs, f, x)
            if src is not None and flows_from(fs, f, src, pred, depth + 1):
                return True
    return False


def ancestor_chains(prog: Program, root: FuncInfo, pred, depth=4):
    """For every call node satisfying pred(fn, call) in root or in the unknown helpers it calls: (call, [chains]) where a chain is
    the list of enclosing AST nodes from the call outwards, continued through the helper's call site(s) up to root's body
    (the helper's own FunctionDef node marks the boundary)."""
    def parents(fn):
        par = {}
        for n in ast.walk(fn.node):
            for c in ast.iter_child_nodes(n):
                par[c] = n
        return par

    def up(fn, node, d, nest=0):
        par = parents(fn)
        chain, n = [], node
        while n in par:
            # which field of the parent holds n matters for try statements: record (parent, field)
            p = par[n]
            fld = next((f for f, v in ast.iter_fields(p) if v is n or (isinstance(v, list) and any(x is n for x in v))), None)
            chain.append((p, fld))
            if isinstance(p, (ast.FunctionDef, ast.AsyncFunctionDef)) and p is not fn.node and nest < 3:
                # a nested function: what encloses the call at run time is what encloses the places the function is called from
                # (or handed to map() / filter(), which call it once per element)
                inside = {id(x) for x in ast.walk(p)}
                outs = []
                for c in ast.walk(fn.node):
                    if id(c) in inside or not isinstance(c, ast.Call):
                        continue
                    if isinstance(c.func, ast.Name) and c.func.id == p.name:
                        outs += [chain + rest for rest in up(fn, c, d, nest + 1)]
                    elif isinstance(c.func, ast.Name) and c.func.id in ("map", "filter") and c.args and isinstance(c.args[0], ast.Name) and c.args[0].id == p.name:
                        outs += [chain + [(ast.GeneratorExp(elt=c, generators=[]), "elt")] + rest for rest in up(fn, c, d, nest + 1)]
                if outs:
                    return outs
            n = p
        if fn.qual == root.qual or d >= depth:
            return [chain]
        outs = []
        for caller in with_helpers(prog, root):
            for c in ast.walk(caller.node):
                if isinstance(c, ast.Call):
                    t = unknown_callee(prog, caller, c)
                    if t is not None and t.qual == fn.qual:
                        for rest in up(caller, c, d + 1):
                            outs.append(chain + rest)
        return outs

    res = []
    for f in with_helpers(prog, root):
        for n in ast.walk(f.node):
            if isinstance(n, ast.Call) and pred(f, n):
                res.append((f, n, up(f, n, 0)))
    return res


def delegate(prog: Program, fn: FuncInfo, depth: int = 0) -> FuncInfo:
    """A known function whose whole work was moved into an unknown helper and that only wraps the call (a lock taken around it, a lazily
    created lock, a try / finally, log lines) stands for that helper: the rules about the function's body are rules about the moved body.
    Returns fn itself unless its body - docstring, logging, lazy `if self.x is None: self.x = <constructor>()` initialisers aside - is,
    possibly inside with / try wrappers, one awaited or plain call `self.<helper>(<own parameters>)` of an unknown helper, optionally returned."""
    def trivial(s):
        if isinstance(s, ast.Expr) and isinstance(s.value, ast.Constant):
            return True
        if isinstance(s, ast.Expr) and isinstance(s.value, ast.Call) and isinstance(s.value.func, ast.Attribute) and isinstance(s.value.func.value, ast.Name) \
                and s.value.func.value.id in ("_LOGGER", "logger", "LOGGER", "logging"):
            return True
        if isinstance(s, ast.If) and not s.orelse and all(isinstance(b, (ast.Assign, ast.AnnAssign)) and isinstance(getattr(b, "value", None), ast.Call) for b in s.body) \
                and isinstance(s.test, ast.Compare) and len(s.test.ops) == 1 and isinstance(s.test.ops[0], ast.Is) \
                and isinstance(s.test.comparators[0], ast.Constant) and s.test.comparators[0].value is None:
            return True
        return isinstance(s, ast.Pass)

    def core(stmts):
        rest = [s for s in stmts if not trivial(s)]
        if len(rest) != 1:
            return None
        s = rest[0]
        if isinstance(s, (ast.With, ast.AsyncWith)):
            return core(s.body)
        if isinstance(s, ast.Try) and not s.handlers and not s.orelse:
            return core(s.body)
        v = s.value if isinstance(s, (ast.Expr, ast.Return)) else None
        if isinstance(v, ast.Await):
            v = v.value
        return v if isinstance(v, ast.Call) else None
    if depth > 2 or fn is None:
        return fn
    c = core(fn.node.body)
    if c is None:
        return fn
    t = unknown_callee(prog, fn, c)
    if t is None or t.cls is not fn.cls:
        return fn
    own = set(fn.params)
    if not all(isinstance(a, ast.Name) and a.id in own for a in c.args) or not all(isinstance(k.value, ast.Name) and k.value.id in own for k in c.keywords):
        return fn
    return delegate(prog, t, depth + 1)

def passed_for(prog, chain, helper, param):
    """[(caller, caller summary, term)]: what the functions of the chain pass for `param` at their calls of `helper`"""
    from .terms import summarize
    out = []
    names = helper.params[1:] if helper.kind in ("method", "classmethod") else helper.params
    for cf in chain:
        if cf is helper:
            continue
        cs = summarize(prog, cf)
        for n in ast.walk(cf.node):
            if isinstance(n, ast.Call) and unknown_callee(prog, cf, n) is helper:
                arg = None
                if param in names and names.index(param) < len(n.args):
                    arg = n.args[names.index(param)]
                for k in n.keywords:
                    if k.arg == param:
                        arg = k.value
                t = cs.ta.terms_at.get(arg) if arg is not None else None
                if t is None:
                    return []
                out.append((cf, cs, t))
    return out
