"""E5 - retry-loop analysis: exploration of a loop's control automaton with a concrete retry budget.

The retry counter is propagated as a constant (sparse conditional constant propagation) for each budget of the
declared domain; the outcome of each designated awaited call (the *oracle*) is a non-deterministic abstract event
∈ {ok} ∪ exception classes chosen by the rule; designated calls are recorded as events.  Everything else has no effect
on the automaton.  The result is the finite set of terminal paths (exit kind, exception class, event trace) of the
statement(s) under analysis.  No repository code runs; exception matching uses the program model's hierarchy.
"""
from __future__ import annotations

import ast
from typing import Callable, Dict, List, Optional, Tuple

from .model import AnalysisError, FuncInfo, Program, norm

MAX_PATHS = 5000


class Path:
    __slots__ = ("kind", "exc", "env", "trace", "node", "ret")

    def __init__(self, kind, exc, env, trace, node=None, ret=None):
        self.kind, self.exc, self.env, self.trace, self.node = kind, exc, env, trace, node
        self.ret = ret          # what a seen-through helper returned on this path: an int / bool, a list of such (None = unknown), or None

    def __repr__(self):
        return f"<{self.kind} {self.exc or ''} {' '.join(self.trace)}>"


class Explorer:
    """classify(call_node) -> None | ('event', name) | ('oracle', name, [exception classes])"""

    def __init__(self, prog: Program, fn: FuncInfo, classify: Callable, counters: Dict[str, int], on_stmt: Optional[Callable] = None):
        self.prog, self.fn, self.classify = prog, fn, classify
        self.on_stmt = on_stmt            # on_stmt(simple statement) -> event name | None (recorded after the statement's calls)
        self.counters = dict(counters)
        self.handler_stack: List[Tuple[Optional[str], str]] = []
        self.n = 0
        self._depth = 0

    # ------------------------------------------------------------------ helpers
    def _calls(self, node) -> List[ast.Call]:
        """Calls in evaluation order (inner before outer, left to right) - without nested defs / lambdas."""
        out = []

        def walk(n):
            if isinstance(n, (ast.Lambda, ast.FunctionDef, ast.AsyncFunctionDef, ast.ClassDef)):
                return
            for c in ast.iter_child_nodes(n):
                walk(c)
            if isinstance(n, ast.Call):
                out.append(n)
        walk(node)
        return out

    def test(self, t, env) -> Optional[bool]:
        if isinstance(t, ast.Constant):
            return bool(t.value)
        if isinstance(t, ast.UnaryOp) and isinstance(t.op, ast.Not):
            v = self.test(t.operand, env)
            return None if v is None else not v
        if isinstance(t, ast.Name) and t.id in env:
            return bool(env[t.id])
        if isinstance(t, ast.Compare) and len(t.ops) == 1:
            a = self.value(t.left, env)
            b = self.value(t.comparators[0], env)
            if a is None or b is None:
                return None
            return {"Gt": a > b, "GtE": a >= b, "Lt": a < b, "LtE": a <= b, "Eq": a == b, "NotEq": a != b}.get(type(t.ops[0]).__name__)
        if isinstance(t, ast.BoolOp):
            vals = [self.test(v, env) for v in t.values]
            if isinstance(t.op, ast.And):
                if any(v is False for v in vals):
                    return False
                return True if all(v is True for v in vals) else None
            if any(v is True for v in vals):
                return True
            return False if all(v is False for v in vals) else None
        return None

    def value(self, e, env) -> Optional[int]:
        if isinstance(e, ast.Constant) and isinstance(e.value, int):
            return e.value
        if isinstance(e, ast.Name) and e.id in env:
            return env[e.id]
        if isinstance(e, ast.UnaryOp) and isinstance(e.op, ast.USub):
            v = self.value(e.operand, env)
            return -v if v is not None else None
        if isinstance(e, ast.BinOp):
            a, b = self.value(e.left, env), self.value(e.right, env)
            if a is None or b is None:
                return None
            if isinstance(e.op, ast.Add):
                return a + b
            if isinstance(e.op, ast.Sub):
                return a - b
        return None

    def const_of(self, e, env) -> Optional[int]:
        """integer / boolean value of an expression over the tracked locals, if it has one"""
        v = self.value(e, env)
        if v is None:
            t = self.test(e, env) if isinstance(e, (ast.Compare, ast.BoolOp, ast.UnaryOp, ast.Constant, ast.Name)) else None
            v = int(t) if t is not None else None
        return v

    def exc_name(self, e) -> str:
        return self.prog.exc_name(self.fn.module, e.func if isinstance(e, ast.Call) else e, self.fn.cls)

    # ------------------------------------------------------------------ execution
    def run(self, stmts, env, trace) -> List[Path]:
        states = [Path("normal", None, env, trace)]
        for s in stmts:
            nxt = []
            for p in states:
                if p.kind != "normal":
                    nxt.append(p)
                else:
                    nxt.extend(self.stmt(s, p.env, p.trace))
            states = nxt
            self.n += len(states)
            if self.n > MAX_PATHS * 50:
                raise AnalysisError(f"{self.fn.qual}: retry-loop exploration does not terminate (counter not decreasing?)")
        return states

    def effects(self, node, env, trace) -> List[Path]:
        outs = [Path("normal", None, env, trace)]
        for c in self._calls(node):
            k = self.classify(c)
            if k is None:
                # a helper the rules do not know: its body is part of this function
                from .helpers import unknown_callee
                t = unknown_callee(self.prog, self.fn, c) if self._depth < 4 else None
                if t is not None:
                    new = []
                    for p in outs:
                        if p.kind != "normal":
                            new.append(p)
                            continue
                        saved = self.fn
                        # callee environment: parameters bound from evaluable arguments (counters are passed by value)
                        a = t.node.args
                        pnames = [x.arg for x in a.posonlyargs + a.args]
                        if t.cls is not None and t.kind in ("method", "classmethod") and isinstance(c.func, ast.Attribute):
                            pnames = pnames[1:]
                        cenv = {}
                        for pn, an in zip(pnames, c.args):
                            v = self.const_of(an, p.env)
                            if v is not None:
                                cenv[pn] = v
                        for kw in c.keywords:
                            v = self.const_of(kw.value, p.env) if kw.arg else None
                            if v is not None:
                                cenv[kw.arg] = v
                        pos = a.posonlyargs + a.args
                        for pa, d in list(zip(pos[len(pos) - len(a.defaults):], a.defaults)):
                            if pa.arg not in cenv and isinstance(d, ast.Constant) and isinstance(d.value, int):
                                cenv[pa.arg] = d.value
                        self.fn = t
                        self._depth += 1
                        try:
                            sub = self.run(t.node.body, cenv, p.trace)
                        finally:
                            self.fn = saved
                            self._depth -= 1
                        for q in sub:
                            if q.kind in ("normal", "return"):
                                rv = None
                                if q.kind == "return" and isinstance(q.node, ast.Return) and q.node.value is not None:
                                    rn = q.node.value
                                    rv = [self.const_of(x, q.env) for x in rn.elts] if isinstance(rn, ast.Tuple) else self.const_of(rn, q.env)
                                new.append(Path("normal", None, p.env, q.trace, ret=rv))
                            else:
                                new.append(Path(q.kind, q.exc, p.env, q.trace, q.node))
                    outs = new
                continue
            new = []
            for p in outs:
                if p.kind != "normal":
                    new.append(p)
                elif k[0] == "event":
                    new.append(Path("normal", None, p.env, p.trace + (k[1],)))
                else:
                    new.append(Path("normal", None, p.env, p.trace + (k[1] + ":ok",)))
                    for ex in k[2]:
                        new.append(Path("raise", ex, p.env, p.trace + (f"{k[1]}:{ex.split('.')[-1]}",), c))
            outs = new
        return outs

    def stmt(self, s, env, trace) -> List[Path]:
        if isinstance(s, ast.While):
            out, work, guard = [], [(env, trace, frozenset())], 0
            while work:
                guard += 1
                if guard > MAX_PATHS:
                    raise AnalysisError(f"{self.fn.qual}: retry-loop exploration exceeds {MAX_PATHS} iterations for counters {self.counters}")
                e, tr, seen = work.pop()
                ek = tuple(sorted(e.items()))
                if ek in seen:
                    # the same counter state recurs on one path: the loop can iterate (and transmit) without bound
                    out.append(Path("diverge", None, e, tr + ("...repeats forever",), s))
                    continue
                seen = seen | {ek}
                t = self.test(s.test, e)
                if t is None:
                    raise AnalysisError(f"{self.fn.qual}: loop condition `{norm(s.test)}` is not a function of the retry counter")
                if not t:
                    out.extend(self.run(s.orelse, e, tr) if s.orelse else [Path("normal", None, e, tr)])
                    continue
                for p in self.run(s.body, e, tr):
                    if p.kind in ("normal", "continue"):
                        work.append((p.env, p.trace, seen))
                    elif p.kind == "break":
                        out.append(Path("normal", None, p.env, p.trace))
                    else:
                        out.append(p)
            return out
        if isinstance(s, ast.If):
            pre = self.effects(s.test, env, trace)
            out = []
            for p in pre:
                if p.kind != "normal":
                    out.append(p)
                    continue
                t = self.test(s.test, p.env)
                if t is not False:
                    out += self.run(s.body, p.env, p.trace)
                if t is not True:
                    out += self.run(s.orelse, p.env, p.trace) if s.orelse else [Path("normal", None, p.env, p.trace)]
            return out
        if isinstance(s, ast.Try):
            res = []
            body = self.run(s.body, env, trace)
            if s.orelse:
                body2 = []
                for p in body:
                    body2 += self.run(s.orelse, p.env, p.trace) if p.kind == "normal" else [p]
                body = body2
            for p in body:
                if p.kind != "raise":
                    res.append(p)
                    continue
                for h in s.handlers:
                    names = self.prog.handler_names(self.fn.module, h, self.fn.cls)
                    if any(self.prog.exc_is(p.exc, n) for n in names):
                        self.handler_stack.append((h.name, p.exc))
                        try:
                            hp = self.run(h.body, p.env, p.trace + (f"except {'/'.join(n.split('.')[-1] for n in names)}",))
                        finally:
                            self.handler_stack.pop()
                        for q in hp:
                            if q.kind == "raise" and q.exc == "<reraise>":
                                q.exc = p.exc
                        res += hp
                        break
                else:
                    res.append(p)
            if s.finalbody:
                fin = []
                for p in res:
                    for q in self.run(s.finalbody, p.env, p.trace):
                        fin.append(Path(p.kind, p.exc, q.env, q.trace, p.node) if q.kind == "normal" else q)
                res = fin
            return res
        if isinstance(s, (ast.With, ast.AsyncWith)):
            pre = [Path("normal", None, env, trace)]
            for it in s.items:
                nxt = []
                for p in pre:
                    nxt += self.effects(it.context_expr, p.env, p.trace) if p.kind == "normal" else [p]
                pre = nxt
            out = []
            for p in pre:
                out += self.run(s.body, p.env, p.trace) if p.kind == "normal" else [p]
            return out
        if isinstance(s, ast.Break):
            return [Path("break", None, env, trace)]
        if isinstance(s, ast.Continue):
            return [Path("continue", None, env, trace)]
        if isinstance(s, ast.Return):
            outs = self.effects(s, env, trace) if s.value is not None else [Path("normal", None, env, trace)]
            return [Path("return" if p.kind == "normal" else p.kind, p.exc, p.env, p.trace + (("return",) if p.kind == "normal" else ()), s) for p in outs]
        if isinstance(s, ast.Raise):
            outs = self.effects(s, env, trace)
            res = []
            for p in outs:
                if p.kind != "normal":
                    res.append(p)
                    continue
                if s.exc is None:
                    name = self.handler_stack[-1][1] if self.handler_stack else "<reraise>"
                elif isinstance(s.exc, ast.Name) and any(hn == s.exc.id for hn, _ in self.handler_stack):
                    name = [hx for hn, hx in self.handler_stack if hn == s.exc.id][-1]
                else:
                    name = self.exc_name(s.exc)
                res.append(Path("raise", name, p.env, p.trace + (f"raise {name.split('.')[-1]}",), s))
            return res
        if isinstance(s, ast.AugAssign) and isinstance(s.target, ast.Name) and s.target.id in env:
            d = self.value(s.value, env)
            e = dict(env)
            if d is None:
                raise AnalysisError(f"{self.fn.qual}: retry counter updated by a non-constant `{norm(s)}`")
            e[s.target.id] = e[s.target.id] - d if isinstance(s.op, ast.Sub) else (e[s.target.id] + d if isinstance(s.op, ast.Add) else None)
            if e[s.target.id] is None:
                raise AnalysisError(f"{self.fn.qual}: unsupported counter update `{norm(s)}`")
            return self.effects(s.value, e, trace)
        if isinstance(s, ast.Assign) and len(s.targets) == 1 and isinstance(s.targets[0], ast.Name) and s.targets[0].id in env:
            v = self.value(s.value, env)
            if v is None and s.targets[0].id not in self.counters:
                # a tracked local (flag / attempt count) receives something the explorer does not follow: it is unknown from here on
                outs = self.effects(s, env, trace)
                return [Path(p.kind, p.exc, {k: x for k, x in p.env.items() if k != s.targets[0].id}, p.trace, p.node) for p in outs]
            if v is None:
                raise AnalysisError(f"{self.fn.qual}: retry counter assigned a non-constant `{norm(s)}`")
            e = dict(env)
            e[s.targets[0].id] = v
            return [Path("normal", None, e, trace)]
        if isinstance(s, ast.Assign) and len(s.targets) == 1 and isinstance(s.value, (ast.Call, ast.Await)):
            call = s.value.value if isinstance(s.value, ast.Await) else s.value
            outs = self.effects(s, env, trace)
            if isinstance(call, ast.Call) and any(p.kind == "normal" and p.ret is not None for p in outs):
                tg = s.targets[0]
                names = [t for t in (tg.elts if isinstance(tg, (ast.Tuple, ast.List)) else [tg])]
                res = []
                for p in outs:
                    if p.kind != "normal":
                        res.append(p)
                        continue
                    vals = p.ret if isinstance(p.ret, list) else [p.ret]
                    e2 = dict(p.env)
                    for i, t in enumerate(names):
                        if not isinstance(t, ast.Name):
                            continue
                        v = vals[i] if p.ret is not None and i < len(vals) and len(vals) == len(names) else None
                        if v is not None:
                            e2[t.id] = v          # the helper's result is a constant on this path (a done flag, an attempt count)
                        elif t.id in e2:
                            if t.id in self.counters:
                                raise AnalysisError(f"{self.fn.qual}: retry counter assigned a non-constant `{norm(s)}`")
                            del e2[t.id]
                    res.append(Path("normal", None, e2, p.trace))
                ev = self.on_stmt(s) if self.on_stmt else None
                if ev:
                    evs = tuple(ev) if isinstance(ev, (list, tuple)) else (ev,)
                    res = [Path(p.kind, p.exc, p.env, p.trace + (evs if p.kind == "normal" else ()), p.node) for p in res]
                return res
        if isinstance(s, ast.Assert):
            return [Path("normal", None, env, trace)]
        if isinstance(s, (ast.Expr, ast.Assign, ast.AugAssign, ast.AnnAssign)):
            outs = self.effects(s, env, trace)
            ev = self.on_stmt(s) if self.on_stmt else None
            if ev:
                evs = tuple(ev) if isinstance(ev, (list, tuple)) else (ev,)
                outs = [Path(p.kind, p.exc, p.env, p.trace + (evs if p.kind == "normal" else ()), p.node) for p in outs]
            return outs
        if isinstance(s, ast.For) and isinstance(s.iter, ast.Call) and isinstance(s.iter.func, ast.Name) and s.iter.func.id == "range" \
                and isinstance(s.target, ast.Name) and 1 <= len(s.iter.args) <= 3 and not s.iter.keywords and not s.orelse:
            # a retry loop written over range(<budget>, 0, -1) / range(<budget>): one round per value, exactly (the bounds are constants of the
            # explored state)
            bounds = [self.const_of(a, env) for a in s.iter.args]
            if all(b is not None for b in bounds) and (len(bounds) < 3 or bounds[2] != 0) and len(range(*bounds)) <= 8:
                cur = [Path("normal", None, env, trace)]
                out = []
                for v in range(*bounds):
                    nxt = []
                    for p in cur:
                        e2 = dict(p.env)
                        e2[s.target.id] = v
                        for q in self.run(s.body, e2, p.trace):
                            if q.kind in ("normal", "continue"):
                                nxt.append(Path("normal", None, q.env, q.trace))
                            elif q.kind == "break":
                                out.append(Path("normal", None, q.env, q.trace))
                            else:
                                out.append(q)
                    cur = nxt
                return out + cur
        if isinstance(s, (ast.For, ast.AsyncFor)):
            # drains / iteration: zero or one pass is enough for the event automaton (events inside are recorded once)
            pre = self.effects(s.iter, env, trace)
            out = []
            for p in pre:
                if p.kind != "normal":
                    out.append(p)
                    continue
                out.append(p)
                for q in self.run(s.body, p.env, p.trace):
                    out.append(Path("normal", None, q.env, q.trace) if q.kind in ("normal", "continue", "break") else q)
            return out
        return [Path("normal", None, env, trace)]


def loop_budget(owner: FuncInfo, loop: ast.While) -> List[str]:
    """Names that can play the retry budget of `loop`: preferably the one parameter of the owning function the loop's tests compare
    (count-down: the parameter itself is decremented; count-up: a local is compared with it); else the names the condition tests."""
    tests = [loop.test] + [n.test for n in ast.walk(loop) if isinstance(n, (ast.If, ast.IfExp, ast.While))]
    compared = {x.id for t in tests for x in ast.walk(t) if isinstance(x, ast.Name)}
    recv = owner.params[0] if owner.params and owner.kind in ("method", "classmethod", "property", "setter") else None
    params = [p for p in owner.params if p in compared and p != recv]          # (`self.x` in a test does not make the receiver a budget)
    if len(params) == 1:
        return params
    updated = {n.target.id for n in ast.walk(loop) if isinstance(n, ast.AugAssign) and isinstance(n.target, ast.Name)}
    updated |= {t.id for n in ast.walk(loop) if isinstance(n, ast.Assign) for t in n.targets
                if isinstance(t, ast.Name) and isinstance(n.value, ast.BinOp) and any(isinstance(x, ast.Name) and x.id == t.id for x in ast.walk(n.value))}
    tested = {n.id for n in ast.walk(loop.test) if isinstance(n, ast.Name)}
    return sorted((updated & compared) or tested)


def loop_env(owner: FuncInfo, loop: ast.While, budget: str, R: int) -> Dict[str, int]:
    """Exploration state at loop entry: the budget plus every local the function initialises with a constant before the loop
    (attempt counters, done flags) - the explorer then tracks their constant updates like the budget's."""
    env = {budget: R}
    names = {x.id for n in ast.walk(loop) for x in ast.walk(n) if isinstance(x, ast.Name)}
    for st in ast.walk(owner.node):
        if isinstance(st, ast.Assign) and len(st.targets) == 1 and isinstance(st.targets[0], ast.Name) and st.targets[0].id in names \
                and st.targets[0].id != budget and getattr(st, "lineno", 0) < loop.lineno and isinstance(st.value, ast.Constant) \
                and isinstance(st.value.value, (int, bool)) and not any(st is x for x in ast.walk(loop)):
            env[st.targets[0].id] = int(st.value.value)
    return env
