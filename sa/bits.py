"""E2 - bit-field / linear-form abstract domain over value-flow terms.

Abstract integer values:

  int                         constant
  LinV(coefs, const)          Σ coef·source + const  (exact rationals); sources have declared domains (interval sets)
  Bits(fields)                disjoint bit fields [(lo, width, atom)], zero elsewhere; atom ∈
                                 ('src', name, off)     the bits hold  source + off   (proved to fit `width` bits)
                                 ('pred', p) / ('npred', p)   one bit = predicate p / its negation
                                 ('free', label)        unconstrained input bit(s) (reference "don't care")
                                 ('lossy', text)        bits of a value that a mask truncated on the declared domain
  Pred(p)                     boolean predicate over sources
  Top(reason)                 unknown

A *region* restricts source domains (e.g. int(T) ∈ [17,30]) and fixes predicate truth values; `ite` gates whose
condition is not decided by the region raise NeedSplit so that the caller splits the region (guard regions are
abstract elements, not concrete executions).
"""
from __future__ import annotations

from fractions import Fraction
from typing import Callable, Dict, List, Optional, Tuple

from .facts import call_is, strip
from .terms import Term, is_const, show

IvSet = List[Tuple[int, int]]     # sorted disjoint closed integer intervals


def iv_norm(parts) -> IvSet:
    parts = sorted((a, b) for a, b in parts if a <= b)
    out: IvSet = []
    for a, b in parts:
        if out and a <= out[-1][1] + 1:
            out[-1] = (out[-1][0], max(out[-1][1], b))
        else:
            out.append((a, b))
    return out


def iv_inter(s: IvSet, lo, hi) -> IvSet:
    return iv_norm([(max(a, lo), min(b, hi)) for a, b in s])


def iv_minus(s: IvSet, lo, hi) -> IvSet:
    out = []
    for a, b in s:
        if b < lo or a > hi:
            out.append((a, b))
        else:
            if a < lo:
                out.append((a, lo - 1))
            if b > hi:
                out.append((hi + 1, b))
    return iv_norm(out)


class Top:
    def __init__(self, reason):
        self.reason = reason

    def __repr__(self):
        return f"⊤({self.reason})"


class Pred:
    """Boolean predicate, as a normalised text over sources (opaque but comparable)."""

    def __init__(self, text, neg=False):
        self.text, self.neg = text, neg

    def __repr__(self):
        return ("¬" if self.neg else "") + self.text

    def __eq__(self, o):
        return isinstance(o, Pred) and (self.text, self.neg) == (o.text, o.neg)

    def __hash__(self):
        return hash((self.text, self.neg))

    def negate(self):
        return Pred(self.text, not self.neg)


class LinV:
    def __init__(self, coefs: Dict[str, Fraction] = None, const=0):
        self.coefs = {k: Fraction(v) for k, v in (coefs or {}).items() if v != 0}
        self.const = Fraction(const)

    def __repr__(self):
        parts = []
        for k, v in sorted(self.coefs.items()):
            parts.append(k if v == 1 else f"{v}·{k}")
        if self.const or not parts:
            parts.append(str(self.const))
        return " + ".join(parts)

    def __eq__(self, o):
        if isinstance(o, (int, Fraction)):
            o = LinV({}, o)
        return isinstance(o, LinV) and self.coefs == o.coefs and self.const == o.const

    def __hash__(self):
        return hash((tuple(sorted(self.coefs.items())), self.const))

    def add(self, o):
        if isinstance(o, (int, float, Fraction)):
            return LinV(self.coefs, self.const + Fraction(o).limit_denominator(1000))
        c = dict(self.coefs)
        for k, v in o.coefs.items():
            c[k] = c.get(k, 0) + v
        return LinV(c, self.const + o.const)

    def scale(self, k):
        k = Fraction(k).limit_denominator(1000)
        return LinV({s: v * k for s, v in self.coefs.items()}, self.const * k)

    def single(self) -> Optional[Tuple[str, int]]:
        """(source, integer offset) when the form is source + k."""
        if len(self.coefs) == 1:
            (s, c), = self.coefs.items()
            if c == 1 and self.const.denominator == 1:
                return s, int(self.const)
        return None


class Bits:
    def __init__(self, fields):
        self.fields = sorted(fields, key=lambda f: f[0])

    def __repr__(self):
        def atom(a):
            if a[0] == "src":
                return a[1] + (f"{a[2]:+d}" if a[2] else "")
            if a[0] in ("pred", "npred"):
                return ("¬" if a[0] == "npred" else "") + a[1]
            return f"{a[0]}:{a[1] if len(a) > 1 else ''}"
        return "{" + ", ".join(f"[{lo}:{lo + w}]={atom(a)}" for lo, w, a in self.fields) + "}"

    def __eq__(self, o):
        return isinstance(o, Bits) and self.fields == o.fields

    def top_bit(self):
        return max((lo + w for lo, w, _ in self.fields), default=0)

    @staticmethod
    def const(v: int) -> "Bits":
        fs, i = [], 0
        while v >> i:
            if (v >> i) & 1:
                fs.append((i, 1, ("one",)))
            i += 1
        return Bits(fs)

    def to_const(self) -> Optional[int]:
        v = 0
        for lo, w, a in self.fields:
            if a != ("one",):
                return None
            v |= 1 << lo
        return v


class NeedSplit(Exception):
    """The region must be split on `source` into  source < cut  and  source >= cut."""

    def __init__(self, source, cut, why=""):
        self.source, self.cut, self.why = source, cut, why


class NeedPred(Exception):
    def __init__(self, pred):
        self.pred = pred


class Region:
    def __init__(self, domains: Dict[str, IvSet], preds: Dict[str, bool] = None):
        self.domains = {k: list(v) for k, v in domains.items()}
        self.preds = dict(preds or {})

    def copy(self):
        return Region(self.domains, self.preds)

    def describe(self) -> str:
        parts = []
        for k, v in self.preds.items():
            parts.append(("" if v else "¬") + k)
        return ", ".join(parts)

    # symbol -> (base symbol, monotone non-decreasing int function): a value derived from one source (e.g. trunc(d/2 - 25)); its range follows
    # the base's range in the region and a split on it is a split of the base at the first value that reaches the cut
    DERIVED: Dict[str, tuple] = {}

    def lo(self, s):
        if s.startswith("["):
            return int(self.preds[s[1:-1]]) if s[1:-1] in self.preds else 0
        if s in self.DERIVED and s not in self.domains:
            base, f = self.DERIVED[s]
            return f(self.lo(base))
        return self.domains[s][0][0]

    def hi(self, s):
        if s.startswith("["):
            return int(self.preds[s[1:-1]]) if s[1:-1] in self.preds else 1
        if s in self.DERIVED and s not in self.domains:
            base, f = self.DERIVED[s]
            return f(self.hi(base))
        return self.domains[s][-1][1]

    def split(self, source, cut):
        a, b = self.copy(), self.copy()
        a.domains[source] = iv_inter(self.domains[source], -10**9, cut - 1)
        b.domains[source] = iv_inter(self.domains[source], cut, 10**9)
        return [r for r in (a, b) if r.domains[source]]

    def split_pred(self, p):
        a, b = self.copy(), self.copy()
        a.preds[p], b.preds[p] = True, False
        return [a, b]


def eval_regions(terms: Dict[str, Term], leaf, base: Region, max_regions=64, decide=("PC",)):
    """Evaluate every term in every guard region.  Returns [(region, {name: value}, evaluator)]."""
    todo, done = [base], []
    while todo:
        if len(todo) + len(done) > max_regions:
            raise RuntimeError("too many guard regions")
        r = todo.pop()
        be = BitEval(leaf, r)
        try:
            vals = {k: be.ev(t) for k, t in terms.items()}
            for k in decide:
                if k in vals:
                    v = be.truth(vals[k])
                    if isinstance(v, Pred):
                        raise NeedPred(v.text)
                    vals[k] = v
        except NeedSplit as ns:
            parts = r.split(ns.source, ns.cut)
            if len(parts) < 2:
                raise RuntimeError(f"region split on {ns.source} at {ns.cut} made no progress ({ns.why})")
            todo += parts
            continue
        except NeedPred as np_:
            if np_.pred in r.preds:
                raise RuntimeError(f"predicate {np_.pred} already fixed")
            todo += r.split_pred(np_.pred)
            continue
        done.append((r, vals, be))
    return done


class BitEval:
    """Evaluates integer / boolean terms over declared sources in one region."""

    def __init__(self, leaf: Callable[[Term, "BitEval"], object], region: Region, watch: Optional[set] = None):
        self.leaf, self.region = leaf, region
        self.notes: List[str] = []
        self.lossy: List[str] = []
        self.collisions: List[str] = []

    # ---------------------------------------------------------------- conversions
    def lin_range(self, v: LinV) -> Tuple[Fraction, Fraction]:
        lo = hi = v.const
        for s, c in v.coefs.items():
            a, b = self.region.lo(s), self.region.hi(s)
            lo += min(c * a, c * b)
            hi += max(c * a, c * b)
        return lo, hi

    def to_bits(self, v) -> object:
        if isinstance(v, Bits):
            return v
        if isinstance(v, bool):
            return Bits.const(int(v))
        if isinstance(v, int):
            if v < 0:
                return Top("negative constant in a bit operation")
            return Bits.const(v)
        if isinstance(v, Pred):
            return Bits([(0, 1, ("npred" if v.neg else "pred", v.text))])
        if isinstance(v, LinV):
            sg = v.single()
            if not v.coefs and v.const.denominator == 1:
                return self.to_bits(int(v.const))
            if sg is None:
                return Top(f"bit operation on a non-unit linear form {v}")
            s, off = sg
            lo, hi = self.region.lo(s) + off, self.region.hi(s) + off
            if lo < 0:
                return Top(f"{s}{off:+d} can be negative ({lo}) in a bit operation")
            return Bits([(0, max(1, int(hi).bit_length()), ("src", s, off))])
        return v if isinstance(v, Top) else Top(f"cannot place {v!r} in bits")

    # ---------------------------------------------------------------- bit operations
    def bor(self, a, b):
        if isinstance(a, int) and isinstance(b, int) and not isinstance(a, bool) and not isinstance(b, bool):
            return a | b
        a, b = self.to_bits(a), self.to_bits(b)
        if isinstance(a, Top):
            return a
        if isinstance(b, Top):
            return b
        used: Dict[int, tuple] = {}
        out = []
        for lo, w, atom in a.fields:
            for i in range(lo, lo + w):
                used[i] = atom
            out.append((lo, w, atom))
        for lo, w, atom in b.fields:
            clash = [i for i in range(lo, lo + w) if i in used and not (used[i] == atom == ("one",))]
            if clash:
                msg = f"bit {clash[0]} carries both {used[clash[0]]} and {atom}"
                self.collisions.append(msg)
                return Top("collision: " + msg)
            if atom == ("one",) and all(i in used for i in range(lo, lo + w)):
                continue
            out.append((lo, w, atom))
        return Bits(out)

    def band(self, a, m):
        if isinstance(a, int) and isinstance(m, int):
            return a & m
        if not isinstance(m, int):
            a, m = m, a
        if not isinstance(m, int):
            return Top("& of two non-constant values")
        a = self.to_bits(a)
        if isinstance(a, Top):
            return a
        out = []
        for lo, w, atom in a.fields:
            keep = [i for i in range(lo, lo + w) if (m >> i) & 1]
            if not keep:
                if atom[0] == "src":
                    self.lossy.append(f"mask 0x{m:X} drops all bits of {atom[1]}")
                    out.append((lo, 0, ("lossy", f"{atom[1]} fully masked")))
                continue
            if len(keep) == w:
                out.append((lo, w, atom))
            elif atom[0] == "src" and keep == list(range(lo, keep[-1] + 1)):
                # low part kept: lossless only if the value always fits the kept width
                s, off = atom[1], atom[2]
                hi = self.region.hi(s) + off
                if hi < (1 << len(keep)):
                    out.append((lo, len(keep), atom))
                else:
                    msg = f"mask 0x{m:X} keeps {len(keep)} bits of {s}{off:+d} whose maximum {hi} needs {int(hi).bit_length()}"
                    self.lossy.append(msg)
                    out.append((lo, len(keep), ("lossy", msg)))
            elif atom[0] == "free":
                out.append((keep[0], len(keep), atom))
            elif atom == ("one",):
                for i in keep:
                    out.append((i, 1, atom))
            else:
                msg = f"mask 0x{m:X} cuts through {atom}"
                self.lossy.append(msg)
                out.append((keep[0], len(keep), ("lossy", msg)))
        return Bits([f for f in out if f[1] > 0])

    def shl(self, a, k):
        if isinstance(a, int):
            return a << k
        a = self.to_bits(a)
        if isinstance(a, Top):
            return a
        return Bits([(lo + k, w, atom) for lo, w, atom in a.fields])

    def shr(self, a, k):
        if isinstance(a, int):
            return a >> k
        a = self.to_bits(a)
        if isinstance(a, Top):
            return a
        out = []
        for lo, w, atom in a.fields:
            if lo >= k:
                out.append((lo - k, w, atom))
            elif lo + w <= k:
                continue
            else:
                if atom[0] == "free":
                    out.append((0, lo + w - k, atom))
                else:
                    msg = f">> {k} cuts through {atom}"
                    self.lossy.append(msg)
                    out.append((0, lo + w - k, ("lossy", msg)))
        return Bits(out)

    def as_lin(self, v) -> Optional[LinV]:
        """Numeric value of v as a linear form (a single field at bit 0, or a constant)."""
        if isinstance(v, LinV):
            return v
        if isinstance(v, bool):
            return LinV({}, int(v))
        if isinstance(v, (int, Fraction)):
            return LinV({}, v)
        if isinstance(v, float):
            return LinV({}, Fraction(v).limit_denominator(1000))
        if isinstance(v, Bits):
            c = v.to_const()
            if c is not None:
                return LinV({}, c)
            if len(v.fields) == 1:
                lo, w, atom = v.fields[0]
                k = 1 << lo
                if atom[0] == "src":
                    return LinV({atom[1]: k}, atom[2] * k)
                if atom[0] == "pred":
                    return LinV({f"[{atom[1]}]": k}, 0)
            return None
        return None

    def truth(self, v):
        """bool(v) as Pred / bool / Top."""
        if isinstance(v, (bool, int)):
            return bool(v)
        if isinstance(v, Pred):
            if v.text in self.region.preds:
                return self.region.preds[v.text] != v.neg
            return v
        if isinstance(v, Bits):
            c = v.to_const()
            if c is not None:
                return bool(c)
            if len(v.fields) == 1:
                lo, w, atom = v.fields[0]
                if atom[0] == "pred":
                    return self.truth(Pred(atom[1]))
                if atom[0] == "npred":
                    return self.truth(Pred(atom[1], True))
                if atom[0] == "src":
                    s, off = atom[1], atom[2]
                    lo_v, hi_v = self.region.lo(s) + off, self.region.hi(s) + off
                    if lo_v > 0:
                        return True
                    if hi_v == 0 and lo_v == 0:
                        return False
                    if w == 1 and off == 0 and self.region.lo(s) == 0 and self.region.hi(s) <= 1:
                        return self.truth(Pred(s))
                    raise NeedSplit(s, -off if lo_v < 0 or self.region.lo(s) < -off else -off + 1, "truthiness of a multi-bit field")
                if atom[0] == "free":
                    return Top(f"truth of an unconstrained bit ({atom[1]})")
                if atom[0] == "lossy":
                    return Top(f"truth of truncated bits: {atom[1]}")
            if any(a == ("one",) for _, _, a in v.fields):
                return True
            # a value made of several fields is truthy when one of them is: decide field by field, splitting the region on the first
            # field it does not settle (bool(a | b) is bool(a) or bool(b) for fields that do not overlap)
            if all(a[0] in ("pred", "npred", "src") for _, _, a in v.fields):
                undecided = None
                for lo_, w_, a in v.fields:
                    one = Bits([(0, w_, a)]) if hasattr(Bits, "__init__") else None
                    try:
                        tv = self.truth(one)
                    except (NeedSplit, NeedPred) as ex:
                        undecided = undecided or ex
                        continue
                    if tv is True:
                        return True
                    if tv is not False:
                        if isinstance(tv, Pred):
                            undecided = undecided or NeedPred(tv.text)
                        else:
                            return Top(f"truth of a multi-field value {v}")
                if undecided is None:
                    return False
                raise undecided
            return Top(f"truth of a multi-field value {v}")
        if isinstance(v, LinV):
            lo, hi = self.lin_range(v)
            if lo > 0 or hi < 0:
                return True
            if lo == hi == 0:
                return False
            sg = v.single()
            if sg and self.region.lo(sg[0]) == 0 and self.region.hi(sg[0]) <= 1 and sg[1] == 0:
                return self.truth(Pred(sg[0]))
            if sg:
                raise NeedSplit(sg[0], -sg[1] if self.region.lo(sg[0]) < -sg[1] else -sg[1] + 1, "truthiness of a numeric value")
            if len(v.coefs) == 1:
                (s_, c_), = v.coefs.items()
                if s_.startswith("["):
                    raise NeedPred(s_[1:-1])
                zero = -v.const / c_
                if zero.denominator != 1:
                    return True
                z = int(zero)
                raise NeedSplit(s_, z if self.region.lo(s_) < z else z + 1, "truthiness of a numeric value")
            return Top(f"truth of {v}")
        return v if isinstance(v, Top) else Top(f"truth of {v!r}")

    # ---------------------------------------------------------------- comparisons
    def compare(self, op, a, b):
        la, lb = self.as_lin(a), self.as_lin(b)
        if la is None or lb is None:
            if isinstance(a, Top):
                return a
            if isinstance(b, Top):
                return b
            # whole-value comparison of a multi-field byte with a constant: decidable only if every field is determined
            return Top(f"comparison of {a} with {b}")
        d = la.add(lb.scale(-1))
        lo, hi = self.lin_range(d)
        res = {"==": (lo == hi == 0, lo > 0 or hi < 0), "!=": (lo > 0 or hi < 0, lo == hi == 0), "<": (hi < 0, lo >= 0), "<=": (hi <= 0, lo > 0),
               ">": (lo > 0, hi <= 0), ">=": (lo >= 0, hi < 0)}.get(op)
        if res is None:
            return Top(f"comparison {op}")
        if res[0]:
            return True
        if res[1]:
            return False
        if len(d.coefs) == 1:
            import math
            (s, c), = d.coefs.items()
            if s.startswith("["):
                raise NeedPred(s[1:-1])
            thr = -d.const / c          # c*s + k  op  0   <=>   s  op'  thr
            fl, ce = math.floor(thr), math.ceil(thr)
            pos = c > 0
            if op == "<":
                cut = ce if pos else fl + 1
            elif op == "<=":
                cut = fl + 1 if pos else ce
            elif op == ">":
                cut = fl + 1 if pos else ce
            elif op == ">=":
                cut = ce if pos else fl + 1
            else:                      # == / !=
                if thr.denominator != 1:
                    return op == "!="
                cut = int(thr) if self.region.lo(s) < thr else int(thr) + 1
            if s in Region.DERIVED and s not in self.region.domains:
                base, f = Region.DERIVED[s]
                first = next((v for v in range(self.region.lo(base), self.region.hi(base) + 1) if f(v) >= cut), None)
                if first is None or first == self.region.lo(base):
                    return Top(f"comparison {la} {op} {lb} not decided in region")
                raise NeedSplit(base, first, why=f"{la} {op} {lb}")
            raise NeedSplit(s, cut, why=f"{la} {op} {lb}")
        return Top(f"comparison {la} {op} {lb} not decided in region")

    # ---------------------------------------------------------------- terms
    def ev(self, t: Term):
        t = strip(t)
        k = t[0]
        if k == "const":
            v = t[1]
            if isinstance(v, float):
                return LinV({}, Fraction(v).limit_denominator(1000))
            if isinstance(v, (int, bool)) or v is None:
                return v
            return Top(f"constant {v!r}")
        if k == "enum":
            return t[3]
        r = self.leaf(t, self)
        if r is not None:
            return r
        if k == "ite":
            # x = A; if p: x |= c   is   A | (c if p else 0): factor the common operand out instead of splitting on p
            a_, b_ = strip(t[2]), strip(t[3])
            for hi_, lo_, flip in ((a_, b_, False), (b_, a_, True)):
                if hi_[0] == "bin" and hi_[1] in ("|", "+") and (strip(hi_[2]) == lo_ or strip(hi_[3]) == lo_):
                    extra = hi_[3] if strip(hi_[2]) == lo_ else hi_[2]
                    gated = ("ite", t[1], ("const", 0), extra) if flip else ("ite", t[1], extra, ("const", 0))
                    return self.ev(("bin", hi_[1], lo_, gated))
            c = self.truth(self.ev(t[1]))
            if isinstance(c, bool):
                return self.ev(t[2] if c else t[3])
            if isinstance(c, Pred):
                a, b = self.ev(t[2]), self.ev(t[3])
                return self.ite_pred(c, a, b)
            return c if isinstance(c, Top) else Top("undecided ite")
        if k == "bin":
            op = t[1]
            # on non-negative bit vectors  x % 2^k  is  x & (2^k - 1)  and  x // 2^k  is  x >> k
            rc_ = strip(t[3])
            if op in ("%", "//") and is_const(rc_) and isinstance(rc_[1], int) and not isinstance(rc_[1], bool) and rc_[1] > 0 and (rc_[1] & (rc_[1] - 1)) == 0:
                if op == "%":
                    return self.ev(("bin", "&", t[2], ("const", rc_[1] - 1)))
                return self.ev(("bin", ">>", t[2], ("const", rc_[1].bit_length() - 1)))
            a, b = self.ev(t[2]), self.ev(t[3])
            if isinstance(a, Top):
                return a
            if isinstance(b, Top):
                return b
            if op in ("|", "&") and isinstance(a, (Pred, bool)) and isinstance(b, (Pred, bool)):
                if isinstance(a, bool) or isinstance(b, bool):
                    x, y = (a, b) if isinstance(a, bool) else (b, a)
                    if op == "|":
                        return True if x else y
                    return y if x else False
                parts = sorted([repr(a), repr(b)])
                return Pred(f"({parts[0]} {'or' if op == '|' else 'and'} {parts[1]})")
            if op == "|":
                return self.bor(a, b)
            if op == "&":
                return self.band(a, b)
            if op == "<<" and isinstance(b, int):
                return self.shl(a, b)
            if op == ">>" and isinstance(b, int):
                return self.shr(a, b)
            if op in ("+", "-"):
                la, lb = self.as_lin(a), self.as_lin(b)
                if la is None or lb is None:
                    return Top(f"arithmetic on a multi-field value ({a} {op} {b})")
                return la.add(lb if op == "+" else lb.scale(-1))
            if op == "*":
                la, lb = self.as_lin(a), self.as_lin(b)
                if la is not None and lb is not None:
                    if not la.coefs:
                        return lb.scale(la.const)
                    if not lb.coefs:
                        return la.scale(lb.const)
                return Top("non-linear product")
            if op == "/":
                la, lb = self.as_lin(a), self.as_lin(b)
                if la is not None and lb is not None and not lb.coefs and lb.const != 0:
                    return la.scale(1 / lb.const)
                return Top("division")
            if op == "^":
                if isinstance(a, int) and isinstance(b, int):
                    return a ^ b
                return Top("xor on a source field")
            return Top(f"operator {op}")
        if k == "un":
            a = self.ev(t[2])
            if t[1] == "not":
                c = self.truth(a)
                if isinstance(c, bool):
                    return not c
                if isinstance(c, Pred):
                    return c.negate()
                return c
            if t[1] == "neg":
                la = self.as_lin(a)
                return la.scale(-1) if la is not None else Top("negation")
            if t[1] == "~" and isinstance(a, int):
                return ~a
            return Top(f"unary {t[1]}")
        if k == "cmp":
            # x != 0 / x == 0 / x > 0 (x >= 0 bits) are the truth value of x and its negation: no case split needed
            l_, r_ = strip(t[2]), strip(t[3])
            if is_const(r_) and r_[1] == 0 and not isinstance(r_[1], bool) and t[1] in ("!=", "==", ">"):
                tv = self.truth(self.ev(l_))
                if isinstance(tv, bool):
                    return tv if t[1] != "==" else (not tv)
                if isinstance(tv, Pred):
                    return tv if t[1] != "==" else Pred(tv.text, not tv.neg)
            if t[1] in ("is", "is not", "==", "!=") and (l_ == ("const", None) or r_ == ("const", None)):
                # None test: a value of the domain (number / bits / predicate) is not None; None is
                other = self.ev(r_ if l_ == ("const", None) else l_)
                if isinstance(other, Top):
                    return other
                return (other is None) == (t[1] in ("is", "=="))
            return self.compare(t[1], self.ev(t[2]), self.ev(t[3]))
        if k == "bool":
            vals = [self.truth(self.ev(x)) for x in t[2]]
            if t[1] == "and":
                if any(v is False for v in vals):
                    return False
                if all(v is True for v in vals):
                    return True
                rest = [v for v in vals if v is not True]
                if len(rest) == 1:
                    return rest[0]
                for v in rest:
                    if isinstance(v, Pred):
                        raise NeedPred(v.text)
                return Top("conjunction of " + ", ".join(repr(v) for v in rest))
            if any(v is True for v in vals):
                return True
            if all(v is False for v in vals):
                return False
            rest = [v for v in vals if v is not False]
            if len(rest) == 1:
                return rest[0]
            for v in rest:
                if isinstance(v, Pred):
                    raise NeedPred(v.text)
            return Top("disjunction of " + ", ".join(repr(v) for v in rest))
        if k == "call":
            if call_is(t, "bool") and len(t[2]) == 1:
                return self.truth(self.ev(t[2][0]))
            if call_is(t, "int") and len(t[2]) == 1:
                a = self.ev(t[2][0])
                if isinstance(a, (Pred, bool)):
                    return self.to_bits(a)          # int(flag) is the flag as a 0 / 1 bit
                la = self.as_lin(a)
                if la is not None and all(c.denominator == 1 for c in la.coefs.values()) and la.const.denominator == 1:
                    return a
                return Top(f"int() of a non-integral form {a}")
            if call_is(t, "float") and len(t[2]) == 1:
                return self.ev(t[2][0])
        return Top(f"unmodelled term {show(t)[:60]}")

    def ite_pred(self, p: Pred, a, b):
        """Value of `a if p else b` with an undecided predicate: representable when both are constants."""
        if isinstance(a, bool):
            a = int(a)
        if isinstance(b, bool):
            b = int(b)
        if isinstance(a, (int,)) and isinstance(b, (int,)):
            fs = []
            for i in range(max(a.bit_length(), b.bit_length())):
                x, y = (a >> i) & 1, (b >> i) & 1
                if x and y:
                    fs.append((i, 1, ("one",)))
                elif x:
                    fs.append((i, 1, ("npred" if p.neg else "pred", p.text)))
                elif y:
                    fs.append((i, 1, ("pred" if p.neg else "npred", p.text)))
            return Bits(fs)
        la, lb = self.as_lin(a), self.as_lin(b)
        if la is not None and lb is not None and not la.coefs and not lb.coefs:
            # numeric constants (e.g. 0.5 / 0.0): value = b + [p]*(a-b)
            name = f"[{p.text}]" if not p.neg else None
            if name is not None:
                return LinV({name: la.const - lb.const}, lb.const)
            return LinV({f"[{p.text}]": lb.const - la.const}, la.const)
        raise NeedPred(p.text)
