"""E1 - structured abstract interpreter.

Python's control flow is structured, so the engine interprets the statement tree directly:
a statement list maps an abstract state to a set of *completions*
{normal, return, raise(T), break, continue}, each with its own state.  `if` refines the state
on both branches; loops are iterated to a fixpoint; try/except/else/finally, with / async with,
for / async for and while are modelled; `except T` catches exactly the raised classes that are
subclasses of T in the program's exception hierarchy (first matching handler wins).

An *analysis* object supplies the domain:

    join(states)            -> state                      (states: non-empty list)
    stmt(node, state)       -> state                      simple statements (Assign, Expr, ...)
    branch(test, truth, st) -> state | None               None = branch infeasible
    raises(node, state)     -> [(exc_name, state)]        exceptions `node` may raise (simple stmt or expression)
    bind_handler(h, exc, st)-> state                      entering `except T as e`
    for_bind(node, state)   -> state                      entering a for body
    with_bind(item, state)  -> state                      binding of one with-item
    visit(node, state)      -> None                       called once per statement with the state before it
                                                           (fixpoint state for statements inside loops)
    leq(a, b)               -> bool                       a == b suffices; used for loop convergence

All have defaults in `Analysis`.
"""
from __future__ import annotations

import ast
from typing import Any, Callable, Dict, List, Optional, Tuple

from .model import AnalysisError, FuncInfo, Program, norm

MAX_ITER = 40


class Completions:
    __slots__ = ("normal", "returns", "raises", "breaks", "continues")

    def __init__(self):
        self.normal: List[Any] = []                      # states
        self.returns: List[Tuple[Any, ast.AST]] = []     # (state, Return node | None for fall-off)
        self.raises: List[Tuple[Any, str, ast.AST]] = []  # (state, exc name, node)
        self.breaks: List[Any] = []
        self.continues: List[Any] = []

    def absorb(self, o: "Completions", normal=True):
        if normal:
            self.normal += o.normal
        self.returns += o.returns
        self.raises += o.raises
        self.breaks += o.breaks
        self.continues += o.continues


class Analysis:
    """Default (trivial) domain: state is an opaque value that never changes."""

    prog: Program = None

    def join(self, states):
        return states[0]

    def stmt(self, node, state):
        return state

    def branch(self, test, truth, state):
        return state

    def raises(self, node, state):
        return []

    def bind_handler(self, handler, exc, state):
        return state

    def for_bind(self, node, state):
        return state

    def with_bind(self, item, state):
        return state

    def visit(self, node, state):
        return None

    def leq(self, a, b):
        return a == b

    def scope_exit(self, entry_state, state, partial=False, test=None):
        """Called on states that leave a compound statement (if / loop / try) normally or loop back.
        partial=True: an `if` one of whose branches did not complete normally (early exit); test = its condition."""
        return state

    def exc_matches(self, exc: str, handler_types: List[str]) -> bool:
        return any(self.prog.exc_is(exc, h) for h in handler_types)

    def handler_types(self, h: ast.ExceptHandler) -> List[str]:
        raise NotImplementedError


class Engine:
    def __init__(self, prog: Program, fn: FuncInfo, analysis: Analysis):
        self.prog, self.fn, self.a = prog, fn, analysis
        analysis.prog = prog
        self.recording = True
        self.handler_stack = []   # (bound name, exception class) of the enclosing except clauses
        self._inline_depth = 0

    # ------------------------------------------------------------------ helpers
    def _join(self, states):
        states = [s for s in states if s is not None]
        if not states:
            return None
        if len(states) == 1:
            return states[0]
        return self.a.join(states)

    def _htypes(self, h: ast.ExceptHandler) -> List[str]:
        return self.prog.handler_names(self.fn.module, h, self.fn.cls)

    def _visit(self, node, state):
        if self.recording:
            self.a.visit(node, state)

    def _expr_raises(self, node, state, out: Completions):
        for exc, st in self.a.raises(node, state):
            out.raises.append((st, exc, node))

    # ------------------------------------------------------------------ run
    def run(self, init_state, body: Optional[List[ast.stmt]] = None) -> Completions:
        body = self.fn.node.body if body is None else body
        out = self.block(body, init_state)
        for s in out.normal:
            out.returns.append((s, None))
        out.normal = []
        return out

    def block(self, stmts: List[ast.stmt], state) -> Completions:
        out = Completions()
        cur = state
        for s in stmts:
            if cur is None:
                break
            r = self.statement(s, cur)
            out.absorb(r, normal=False)
            cur = self._join(r.normal)
        if cur is not None:
            out.normal.append(cur)
        return out

    def _inline_unknown(self, s: ast.stmt, state, out: Completions):
        """For analyses without an environment (event sets): run the bodies of unknown helpers called by this simple
        statement in place, so that events / branches inside an extracted helper are seen.  Returns the state after them."""
        from .helpers import unknown_callee
        if not getattr(self.a, "inline_unknown", False) or self._inline_depth >= 4:
            return state
        cur = state
        for n in ast.walk(s):
            if isinstance(n, ast.Call):
                t = unknown_callee(self.prog, self.fn, n)
                if t is None or cur is None:
                    continue
                saved = self.fn
                self.fn = t
                self._inline_depth += 1
                try:
                    r = self.block(t.node.body, cur)
                finally:
                    self.fn = saved
                    self._inline_depth -= 1
                out.raises += r.raises
                cur = self._join(r.normal + [st for st, _n in r.returns])
        return cur

    def statement(self, s: ast.stmt, state) -> Completions:
        out = Completions()
        self._visit(s, state)
        if isinstance(s, (ast.Assign, ast.AugAssign, ast.AnnAssign, ast.Expr, ast.Return)):
            state = self._inline_unknown(s, state, out)
            if state is None:
                return out
        if isinstance(s, ast.Expr) and isinstance(s.value, ast.Call) and (
                (isinstance(s.value.func, ast.Name) and s.value.func.id in ("exit", "quit")) or
                (isinstance(s.value.func, ast.Attribute) and s.value.func.attr == "exit" and isinstance(s.value.func.value, ast.Name)
                 and s.value.func.value.id == "sys")):
            # exit() never returns: it is a raise of SystemExit
            self._expr_raises(s, state, out)
            out.raises.append((self.a.stmt(s, state), "SystemExit", s))
            return out
        if isinstance(s, (ast.Assign, ast.AugAssign, ast.AnnAssign, ast.Expr, ast.Pass, ast.Delete, ast.Global,
                          ast.Nonlocal, ast.Import, ast.ImportFrom, ast.FunctionDef, ast.AsyncFunctionDef, ast.ClassDef)):
            self._expr_raises(s, state, out)
            nxt = self.a.stmt(s, state)
            if nxt is not None:          # (None: the statement calls a helper that was seen through and never returns - it only raises / exits)
                out.normal.append(nxt)
        elif isinstance(s, ast.Assert):
            self._expr_raises(s, state, out)
            self.a.in_assert = True          # (an analysis may refuse to take an assert for a guard: `python -O` removes it)
            try:
                ok = self.a.branch(s.test, True, state)
                bad = self.a.branch(s.test, False, state)
            finally:
                self.a.in_assert = False
            if bad is not None and hasattr(self.a, "assert_holds") and self.a.assert_holds(s, state):
                bad = None          # an assertion of something the path already guarantees (a defensive no-op): it has no failing way out
                if getattr(self.a, "IMPLIED_ASSERT_ADDS_NOTHING", False):
                    ok = state      # ... and it adds nothing to the path condition
            if bad is not None:
                out.raises.append((bad, "AssertionError", s))
            if ok is not None:
                out.normal.append(self.a.stmt(s, ok))
        elif isinstance(s, ast.Return):
            self._expr_raises(s, state, out)
            out.returns.append((self.a.stmt(s, state), s))
        elif isinstance(s, ast.Raise):
            self._expr_raises(s, state, out)
            st = self.a.stmt(s, state)
            if s.exc is None:
                out.raises.append((st, "<reraise>", s))
            else:
                e = s.exc.func if isinstance(s.exc, ast.Call) else s.exc
                name = self.a.raise_name(s, st) if hasattr(self.a, "raise_name") else None
                if name is None and isinstance(s.exc, ast.Name):
                    for hn, hexc in reversed(self.handler_stack):
                        if hn == s.exc.id:
                            name = hexc
                            break
                if name is None:
                    name = self.prog.exc_name(self.fn.module, e, self.fn.cls)
                out.raises.append((st, name, s))
        elif isinstance(s, ast.Break):
            out.breaks.append(state)
        elif isinstance(s, ast.Continue):
            out.continues.append(state)
        elif isinstance(s, ast.If):
            self._expr_raises(s.test, state, out)
            if getattr(self.a, "inline_unknown", False):
                state = self._inline_unknown(ast.Expr(value=s.test), state, out)
                if state is None:
                    return out
            t = self.a.branch(s.test, True, state)
            f = self.a.branch(s.test, False, state)
            t_norm = f_norm = False
            if t is not None:
                bo = self.block(s.body, t)
                t_norm = bool(bo.normal)
                out.absorb(bo)
            if f is not None:
                if s.orelse:
                    bo = self.block(s.orelse, f)
                    f_norm = bool(bo.normal)
                    out.absorb(bo)
                else:
                    f_norm = True
                    out.normal.append(f)
            partial = (t is not None and not t_norm) or (f is not None and not f_norm)
            out.normal = [self.a.scope_exit(state, x, partial=partial, test=s.test) for x in out.normal]
        elif isinstance(s, (ast.While, ast.For, ast.AsyncFor)):
            out = self.loop(s, state)
        elif isinstance(s, (ast.With, ast.AsyncWith)):
            cur = state
            for it in s.items:
                self._expr_raises(it.context_expr, cur, out)
                cur = self.a.with_bind(it, cur)
            out.absorb(self.block(s.body, cur))
        elif isinstance(s, ast.Try):
            out = self.try_(s, state)
            out.normal = [self.a.scope_exit(state, x) for x in out.normal]
        else:
            raise AnalysisError(f"unsupported statement {type(s).__name__} in {self.fn.qual}: {norm(s)[:80]}")
        return out

    # ------------------------------------------------------------------ loops
    def loop(self, s, state) -> Completions:
        is_while = isinstance(s, ast.While)
        const_true = is_while and isinstance(s.test, ast.Constant) and bool(s.test.value) is True
        saved = self.recording
        self.recording = False
        head = state
        body_out = None
        for it_ in range(MAX_ITER):
            entry, _exit = self._loop_entry(s, head, is_while, const_true, Completions())
            body_out = self.block(s.body, entry) if entry is not None else Completions()
            back = self._join([state] + [self.a.scope_exit(state, x) for x in body_out.normal + body_out.continues])
            if self.a.leq(back, head) and self.a.leq(head, back):
                break
            if it_ >= 3 and hasattr(self.a, "widen"):
                back = self.a.widen(head, back)          # bounds that keep moving (a counter counting up) are given up
            head = back
        else:
            raise AnalysisError(f"loop fixpoint not reached in {self.fn.qual}")
        self.recording = saved
        out = Completions()
        entry, exit_state = self._loop_entry(s, head, is_while, const_true, out)
        body_out = self.block(s.body, entry) if entry is not None else Completions()   # recording pass
        out.returns += body_out.returns
        out.raises += body_out.raises
        exits = []
        if exit_state is not None:
            if s.orelse:
                oe = self.block(s.orelse, exit_state)
                out.absorb(oe, normal=False)
                exits += oe.normal
            else:
                exits.append(exit_state)
        exits += body_out.breaks
        j = self._join([self.a.scope_exit(state, x) for x in exits])
        if j is not None:
            out.normal.append(j)
        return out

    def _loop_entry(self, s, head, is_while, const_true, out: Completions):
        if is_while:
            self._expr_raises(s.test, head, out)
            if const_true:
                return head, None
            return self.a.branch(s.test, True, head), self.a.branch(s.test, False, head)
        self._expr_raises(s.iter, head, out)
        return self.a.for_bind(s, head), head

    # ------------------------------------------------------------------ try
    def try_body_enter(self, s):
        pass

    def try_body_exit(self, s):
        pass

    def try_(self, s: ast.Try, state) -> Completions:
        self.try_body_enter(s)
        try:
            body = self.block(s.body, state)
        finally:
            self.try_body_exit(s)
        res = Completions()
        res.returns += body.returns
        res.breaks += body.breaks
        res.continues += body.continues
        # else clause runs after normal completion of the body (its exceptions are not caught here)
        if s.orelse:
            j = self._join(body.normal)
            if j is not None:
                res.absorb(self.block(s.orelse, j))
        else:
            res.normal += body.normal
        for st, exc, node in body.raises:
            handled = False
            for h in s.handlers:
                if exc == "<reraise>":
                    break
                if self.a.exc_matches(exc, self._htypes(h)):
                    hs = self.a.bind_handler(h, exc, st)
                    self._visit(h, hs)
                    self.handler_stack.append((h.name, exc))
                    try:
                        ho = self.block(h.body, hs)
                    finally:
                        self.handler_stack.pop()
                    # bare `raise` inside the handler re-raises the caught class
                    ho.raises = [(a, exc if e == "<reraise>" else e, n) for a, e, n in ho.raises]
                    res.absorb(ho)
                    handled = True
                    break
            if not handled:
                res.raises.append((st, exc, node))
        if not s.finalbody:
            return res
        # finally: re-run on every completion channel
        out = Completions()

        def through(states, sink):
            for item in states:
                st = item[0] if isinstance(item, tuple) else item
                fo = self.block(s.finalbody, st)
                out.returns += fo.returns
                out.raises += fo.raises
                out.breaks += fo.breaks
                out.continues += fo.continues
                for n in fo.normal:
                    sink(item, n)
        through(res.normal, lambda it, n: out.normal.append(n))
        through(res.returns, lambda it, n: out.returns.append((n, it[1])))
        through(res.raises, lambda it, n: out.raises.append((n, it[1], it[2])))
        through(res.breaks, lambda it, n: out.breaks.append(n))
        through(res.continues, lambda it, n: out.continues.append(n))
        return out


# ---------------------------------------------------------------------------------------
# Must/may event-set analysis (dominance and must-pass-through queries)
# ---------------------------------------------------------------------------------------
class EventAnalysis(Analysis):
    """State = frozenset of event tokens.  must=True: join is intersection (an event in the state at a
    node has happened on *every* path to it); must=False: join is union.

    Subclasses / callers supply:
        on_stmt(node, state)           -> iterable of events generated by a simple statement
        on_branch(test, truth, state)  -> iterable of events | None (infeasible)
        on_raises(node, state)         -> [(exc, events)]
    and receive `at[node] = state` for every visited statement.
    """

    inline_unknown = True

    def __init__(self, must=True, on_stmt=None, on_branch=None, on_raises=None, on_handler=None, kill=None):
        self.must = must
        self._on_stmt, self._on_branch, self._on_raises, self._on_handler = on_stmt, on_branch, on_raises, on_handler
        self._kill = kill
        self.at: Dict[ast.AST, frozenset] = {}

    def join(self, states):
        out = states[0]
        for s in states[1:]:
            out = (out & s) if self.must else (out | s)
        return out

    def stmt(self, node, state):
        if self._kill:
            state = frozenset(e for e in state if not self._kill(node, e))
        if self._on_stmt:
            ev = self._on_stmt(node, state)
            if ev:
                state = state | frozenset(ev)
        return state

    def branch(self, test, truth, state):
        if self._on_branch:
            ev = self._on_branch(test, truth, state)
            if ev is None:
                return None
            if ev:
                state = state | frozenset(ev)
        return state

    def raises(self, node, state):
        if self._on_raises:
            return [(exc, state | frozenset(ev)) for exc, ev in self._on_raises(node, state)]
        return []

    def bind_handler(self, h, exc, state):
        if self._on_handler:
            ev = self._on_handler(h, exc, state)
            if ev:
                state = state | frozenset(ev)
        return state

    def visit(self, node, state):
        if node in self.at:
            self.at[node] = self.join([self.at[node], state])
        else:
            self.at[node] = state


def run_events(prog: Program, fn: FuncInfo, analysis: EventAnalysis, init=frozenset(), body=None) -> Completions:
    eng = Engine(prog, fn, analysis)
    return eng.run(init, body)
