"""Frozen library model: facts about third-party / stdlib calls (never about /repo).

Each entry is a documented property of the library.  Unknown library calls on tainted data are assumed benign
and listed in the evidence as assumptions (usable over sound; see DESIGN.md §1.5).
"""

# environment raisers: call -> exception classes it may raise regardless of peer data
ENV_RAISERS = {
    "asyncio.wait_for": ["TimeoutError"],                      # asyncio.TimeoutError is TimeoutError on 3.11+
    "loop.create_connection": ["OSError", "TimeoutError"],     # OSError family incl. ConnectionRefusedError; TimeoutError ⊂ OSError
    "loop.create_datagram_endpoint": ["OSError"],
}

# library functions that never raise on any bytes / ints
BENIGN_EXT = {
    "print", "id", "type", "vars", "dir", "iter", "next", "enumerate", "zip", "map", "ord", "chr",
    "logging.getLogger", "time.time", "datetime.datetime.now", "datetime.now", "round",
    "collections.namedtuple", "namedtuple", "functools.wraps", "math.modf", "math.floor", "math.ceil",
    "asyncio.sleep", "asyncio.get_event_loop", "asyncio.Lock", "asyncio.Queue", "asyncio.gather",
    "Crypto.Random.get_random_bytes", "secrets.token_hex", "secrets.token_urlsafe", "super", "property",
    "xml.etree.ElementTree.tostring", "ET.tostring", "dict", "object", "setattr", "exit", "open",
}

# methods (on receivers of unknown type) that never raise on any content
BENIGN_METHODS = {
    "debug", "info", "warning", "error", "exception", "critical", "log",         # logging
    "hex", "isoformat", "total_seconds", "strftime", "is_closing", "close", "write", "sendto", "get_extra_info",
    "setsockopt", "release", "acquire", "locked", "cancel", "done", "result", "qsize", "empty", "clear", "discard",
    "pop", "remove", "sort", "reverse", "setdefault", "union", "intersection", "difference", "issubset",
    "startswith", "endswith", "isdigit", "isalpha", "bit_length", "list", "get_from_value", "get_from_name",
}

STR_METHODS = {"upper", "lower", "strip", "lstrip", "rstrip", "capitalize", "title", "replace", "format", "join",
               "zfill", "ljust", "rjust", "casefold", "swapcase"}
BYTES_RESULT_METHODS = {"encode", "ljust_bytes"}
