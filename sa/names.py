"""Canonical private names.

The rules name the private methods, attributes and module-level helpers of the tree they were written against (the anchors of the
given properties).  A maintainer may rename any of them consistently - a change with no behaviour at all.  This pass undoes such renames
before anything else is analysed:

  * reference_names.json (frozen from the tree the rules were confirmed on: `python -m sa.names freeze`) holds, for every private
    identifier of the package, a fingerprint of where and how it occurs (definition sites, load/store/call occurrences by module,
    class and function, and for functions the identifiers their bodies use);
  * identifiers of the reference that do not occur in the current tree any more ("missing") are matched against private identifiers of
    the current tree that the reference does not know ("extra") by fingerprint similarity; a pair is accepted only if it is the mutual
    best match, clearly better than the runner-up;
  * accepted pairs are applied to the syntax trees as a package-wide identifier substitution new -> old.

Soundness: the substitution is a bijection on identifiers whose target does not occur in the tree (that is what "missing" means), so
the analysed program is alpha-equivalent to the program on disk - whatever the matching decides, it cannot hide a defect; a wrong or
missed match can only make a rule fail to recognise its anchor.  Nothing is matched when nothing is missing (the usual case).
"""
import ast
import json
import os
import sys
from collections import Counter
from typing import Dict, Tuple

HERE = os.path.dirname(os.path.abspath(__file__))
REF = os.path.join(HERE, "reference_names.json")
REFLECTIVE = {"getattr", "setattr", "hasattr", "delattr", "attrgetter"}


def private(name: str) -> bool:
    return name.startswith("_") and not (name.startswith("__") and name.endswith("__")) and name != "_" and len(name) > 1


class _Occ(ast.NodeVisitor):
    """occurrences of identifiers in one module: ident -> list of (type, ctx, receiver, class, function); functions: ident -> used idents"""

    def __init__(self, module: str, defined: set):
        self.module = module
        self.defined = defined          # module-/class-level names of the package (a bare Name counts only if it is one of these)
        self.cls = []
        self.fn = []
        self.occ = {}
        self.seq = 0
        self.kinds = {}
        self.uses = {}

    def add(self, ident, typ, ctx="", recv=""):
        if not private(ident):
            return
        self.seq += 1
        self.occ.setdefault(ident, []).append((typ, ctx, recv, self.cls[-1] if self.cls else "", self.fn[-1] if self.fn else "", self.seq))

    def kind(self, ident, k, cls=None):
        if private(ident):
            self.kinds.setdefault(((self.cls[-1] if self.cls else "") if cls is None else cls, ident), set()).add(k)

    def use(self, ident):
        for f in self.fn:
            self.uses.setdefault((self.cls[-1] if self.cls else "", f), Counter())[ident] += 1

    def visit_ClassDef(self, n):
        self.add(n.name, "defclass")
        self.kind(n.name, "class")
        for d in n.decorator_list + n.bases:
            self.visit(d)
        self.cls.append(n.name)
        saved, self.fn = self.fn, []
        for s in n.body:
            if not self.fn and isinstance(s, (ast.Assign, ast.AnnAssign)):
                for t in (s.targets if isinstance(s, ast.Assign) else [s.target]):
                    if isinstance(t, ast.Name):
                        self.add(t.id, "defvar")
                        self.kind(t.id, "attr")
            self.visit(s)
        self.fn = saved
        self.cls.pop()

    def _func(self, n):
        self.add(n.name, "def")
        deco = {d.id if isinstance(d, ast.Name) else (d.attr if isinstance(d, ast.Attribute) else "") for d in n.decorator_list}
        self.kind(n.name, "attr" if deco & {"property", "setter", "getter", "cached_property"} else "func")
        for d in n.decorator_list:
            self.visit(d)
        self.fn.append(n.name)
        self.visit(n.args)
        for s in n.body:
            self.visit(s)
        self.fn.pop()

    visit_FunctionDef = visit_AsyncFunctionDef = _func

    def visit_Module(self, n):
        for s in n.body:
            if isinstance(s, (ast.Assign, ast.AnnAssign)):
                for t in (s.targets if isinstance(s, ast.Assign) else [s.target]):
                    if isinstance(t, ast.Name):
                        self.add(t.id, "defvar")
                        self.kind(t.id, "var")
            self.visit(s)

    def visit_ImportFrom(self, n):
        for a in n.names:
            self.add(a.name, "import")

    def visit_Attribute(self, n):
        recv = n.value.id if isinstance(n.value, ast.Name) and n.value.id in ("self", "cls") else "other"
        ctx = type(n.ctx).__name__.lower()
        self.add(n.attr, "attr", ctx, recv)
        if isinstance(n.ctx, ast.Store):
            self.kind(n.attr, "attr")
        self.use(n.attr)
        self.visit(n.value)

    def visit_Call(self, n):
        f = n.func
        if isinstance(f, ast.Attribute):
            self.add(f.attr, "call", "", f.value.id if isinstance(f.value, ast.Name) and f.value.id in ("self", "cls") else "other")
        elif isinstance(f, ast.Name) and f.id in self.defined:
            self.add(f.id, "call", "", "name")
        name = f.attr if isinstance(f, ast.Attribute) else (f.id if isinstance(f, ast.Name) else "")
        if name in REFLECTIVE:
            for a in n.args:
                if isinstance(a, ast.Constant) and isinstance(a.value, str):
                    self.add(a.value, "reflect")
        self.generic_visit(n)

    def visit_AugAssign(self, n):
        if isinstance(n.target, ast.Attribute):
            self.add(n.target.attr, "aug", "", "self" if isinstance(n.target.value, ast.Name) and n.target.value.id in ("self", "cls") else "other")
        self.generic_visit(n)

    def visit_Name(self, n):
        if n.id in self.defined:
            self.add(n.id, "name", type(n.ctx).__name__.lower())
        self.use(n.id)


def _defined(trees: Dict[str, ast.AST]) -> set:
    out = set()
    for t in trees.values():
        for s in ast.walk(t):
            if isinstance(s, (ast.FunctionDef, ast.AsyncFunctionDef, ast.ClassDef)):
                out.add(s.name)
        for scope in [t] + [c for c in ast.walk(t) if isinstance(c, ast.ClassDef)]:
            for s in scope.body:
                if isinstance(s, (ast.Assign, ast.AnnAssign)):
                    for tg in (s.targets if isinstance(s, ast.Assign) else [s.target]):
                        if isinstance(tg, ast.Name):
                            out.add(tg.id)
    return {n for n in out if private(n)}


def _bases(trees) -> Dict[Tuple[str, str], list]:
    out = {}
    for mod, t in trees.items():
        for c in ast.walk(t):
            if isinstance(c, ast.ClassDef):
                out[(mod, c.name)] = [b.id if isinstance(b, ast.Name) else (b.attr if isinstance(b, ast.Attribute) else "") for b in c.bases]
    return out


def survey(trees: Dict[str, ast.AST]) -> dict:
    """{"occ": [(ident, module, typ, ctx, recv, class, function, order in the module)], "kinds": {(module, class, ident): kinds},
        "uses": {(module, class, function): Counter(ident)}, "bases": {(module, class): [base names]}}"""
    defined = _defined(trees)
    occ, kinds, uses = [], {}, {}
    for mod, tree in sorted(trees.items()):
        v = _Occ(mod, defined)
        v.visit(tree)
        for ident, occs in v.occ.items():
            occ += [(ident, mod) + o for o in occs]
        for key, k in v.kinds.items():
            kinds.setdefault((mod,) + key, set()).update(k)
        for key, u in v.uses.items():
            uses.setdefault((mod,) + key, Counter()).update(u)
    return {"occ": occ, "kinds": kinds, "uses": uses, "bases": _bases(trees)}


def _is_test(rel: str) -> bool:
    return "/tests/" in "/" + rel or os.path.basename(rel).startswith("test_")


def _trees_of_root(root: str, tests=False) -> Dict[str, ast.AST]:
    trees = {}
    pkg = os.path.join(root, "msmart")
    for d, _dirs, fs in os.walk(pkg):
        for f in fs:
            if f.endswith(".py"):
                rel = os.path.relpath(os.path.join(d, f), root)
                if _is_test(rel) and not tests:
                    continue
                with open(os.path.join(d, f), encoding="utf-8") as fh:
                    trees[rel] = ast.parse(fh.read())
    return trees


def freeze(root: str):
    s = survey(_trees_of_root(root))
    data = {"occ": [list(o) for o in s["occ"]],
            "kinds": [[list(k), sorted(v)] for k, v in sorted(s["kinds"].items())],
            "uses": [[list(k), dict(v)] for k, v in sorted(s["uses"].items())],
            "bases": [[list(k), v] for k, v in sorted(s["bases"].items())]}
    with open(REF, "w") as fh:
        json.dump(data, fh, indent=0, sort_keys=True)
    return len({o[0] for o in s["occ"]})


_ref_cache = None


def reference() -> dict:
    global _ref_cache
    if _ref_cache is None:
        with open(REF) as fh:
            raw = json.load(fh)
        _ref_cache = {"occ": [tuple(o) for o in raw["occ"]],
                      "kinds": {tuple(k): set(v) for k, v in raw["kinds"]},
                      "uses": {tuple(k): Counter(v) for k, v in raw["uses"]},
                      "bases": {tuple(k): v for k, v in raw["bases"]}}
    return _ref_cache


def _jaccard(a: Counter, b: Counter) -> float:
    if not a and not b:
        return 0.0
    inter = sum(min(a[k], b[k]) for k in a if k in b)
    union = sum((a | b).values())
    return inter / union if union else 0.0


def members(sv: dict, canon=lambda x: x) -> Dict[Tuple[str, str], Dict[str, list]]:
    """scope (module, class; '' = module level) -> {identifier: occurrences (typ, ctx, recv, function) that make it a member of the scope}"""
    out = {}
    first = FIRST.setdefault(id(sv), {})
    for ident, mod, typ, ctx, recv, cls, fn, seq in sv["occ"]:
        for sc in ((mod, ""), (mod, cls)):
            first[(sc, ident)] = min(seq, first.get((sc, ident), seq))
        if typ in ("name", "import") or (typ == "call" and recv == "name") or (not cls and typ in ("def", "defvar", "defclass")):
            # a bare name resolves in the module: evidence for the module-level definition wherever it is used
            out.setdefault((mod, ""), {}).setdefault(canon(ident), []).append((typ, ctx, canon(cls), canon(fn)))
        elif cls and (typ in ("def", "defvar") or (typ in ("attr", "aug", "call") and recv in ("self", "cls"))):
            out.setdefault((mod, canon(cls)), {}).setdefault(canon(ident), []).append((typ, ctx, recv, canon(fn)))
    return out


FIRST = {}          # id(survey) -> {(scope, identifier as spelled): order of its first occurrence}


def _kinds(sv, scope, ident, occs) -> set:
    k = set(sv["kinds"].get(scope + (ident,), ()))
    if not k:
        k = {"attr", "func", "var", "class"} if not any(o[0] in ("aug",) or o[1] == "store" for o in occs) else {"attr", "var"}
    return k


def _family(bases: dict, scope) -> set:
    """the class, its ancestors and its descendants inside the package (classes resolved by simple name), as scopes"""
    by_name = {}
    for (m, c) in bases:
        by_name.setdefault(c, []).append((m, c))
    up, todo = set(), [scope]
    while todo:
        s = todo.pop()
        if s in up or s not in bases:
            continue
        up.add(s)
        for b in bases[s]:
            todo += by_name.get(b, [])
    down, todo = set(), [scope]
    while todo:
        s = todo.pop()
        if s in down:
            continue
        down.add(s)
        todo += [o for o, bs in bases.items() if s[1] in bs]
    return up | down | {scope}


ACCEPT, MARGIN = 0.4, 0.1


def match(cur: dict, ref: dict) -> Tuple[Dict[str, str], dict]:
    """-> ({current name: reference name}, diagnostics)"""
    back: Dict[str, str] = {}
    diag = {"missing": [], "scores": {}, "rejected": []}
    ref_m = members(ref)
    raw_m = members(cur)

    def canon(x):
        return back.get(x, x)
    for _round in range(6):
        cur_m = members(cur, canon)
        proposals = {}
        for scope, rmem in ref_m.items():
            cmem = cur_m.get(scope)
            if cmem is None:
                continue
            missing = [k for k in rmem if k not in cmem and private(k)]
            extra = [k for k in cmem if k not in rmem and private(k) and k not in back.values()]
            if _round == 0:
                diag["missing"] += [f"{scope[1] or scope[0]}.{k}" for k in missing]
            if not missing or not extra:
                continue
            table = {}
            # the kinds of the current names are recorded under their real (un-canonicalised) scope
            real = next((s for s in raw_m if s[0] == scope[0] and canon(s[1]) == scope[1]), scope)
            for old in missing:
                ko = _kinds(ref, scope, old, rmem[old])
                for new in extra:
                    if not (ko & _kinds(cur, real, new, cmem[new])):
                        continue
                    ro, co = rmem[old], cmem[new]
                    sc = 0.5 * _jaccard(Counter(o[:3] for o in ro), Counter(o[:3] for o in co)) + 0.5 * _jaccard(Counter(ro), Counter(co))
                    ru, cu = ref["uses"].get(scope + (old,)), cur["uses"].get(real + (new,))
                    if ru is not None and cu is not None:
                        cc = Counter()
                        for k, n in cu.items():
                            cc[canon(k)] += n
                        sc = 0.5 * sc + 0.5 * _jaccard(ru, cc)
                    table[(old, new)] = sc
            got = set()
            # candidates that are used alike are told apart by how they are spelled (a renamed identifier usually keeps part of its name):
            # the spelling never makes a pair acceptable, it only decides between pairs that already are
            import difflib
            lexed = {k: sc + 0.3 * difflib.SequenceMatcher(None, k[0], k[1]).ratio() for k, sc in table.items()}
            for (old, new), sc in table.items():
                row = max([s for (a, b), s in table.items() if a == old and b != new] or [0.0])
                col = max([s for (a, b), s in table.items() if b == new and a != old] or [0.0])
                if sc >= ACCEPT and not (sc - row >= MARGIN and sc - col >= MARGIN):
                    me = lexed[(old, new)]
                    row = max([lexed[(a, b)] for (a, b) in table if a == old and b != new and table[(a, b)] >= ACCEPT] or [0.0]) - (me - sc)
                    col = max([lexed[(a, b)] for (a, b) in table if b == new and a != old and table[(a, b)] >= ACCEPT] or [0.0]) - (me - sc)
                if sc >= ACCEPT and sc - row >= MARGIN and sc - col >= MARGIN:
                    proposals.setdefault(new, {}).setdefault(old, []).append((sc, scope))
                    got |= {old, new}
            # members that are used alike (two attributes set side by side, read side by side): k names vanished, k names appeared, every
            # pairing scores alike - pair them in source order
            olds = sorted({o for (o, n), sc in table.items() if sc >= ACCEPT and o not in got})
            news = sorted({n for (o, n), sc in table.items() if sc >= ACCEPT and n not in got})
            if len(olds) == len(news) >= 2 and all(table.get((o, n), 0) >= ACCEPT for o in olds for n in news):
                fr, fc = FIRST.get(id(ref), {}), FIRST.get(id(cur), {})
                olds.sort(key=lambda o: fr.get((scope, o), 0))
                news.sort(key=lambda n: fc.get((real, n), 0))
                for o, n in zip(olds, news):
                    proposals.setdefault(n, {}).setdefault(o, []).append((table[(o, n)], scope))
        new_pairs = {}
        for new, olds in proposals.items():
            if len(olds) != 1:
                diag["rejected"].append(f"{new}: ambiguous {sorted(olds)}")
                continue
            old = next(iter(olds))
            # collision: no class that has `new` as a member may have `old` as a member anywhere in its family (and likewise for modules)
            clash = False
            for scope, mem in raw_m.items():
                if new in mem:
                    fam = _family(cur["bases"], scope) if scope[1] else {scope}
                    if any(old in raw_m.get(f, {}) for f in fam):
                        clash = True
            if clash:
                diag["rejected"].append(f"{new} -> {old}: the target name is in use in the same class family / module")
                continue
            new_pairs[new] = old
            diag["scores"][f"{new}->{old}"] = round(max(sc for sc, _s in olds[old]), 3)
        if not new_pairs:
            break
        back.update(new_pairs)
    cur_m = members(cur, canon)
    diag["unresolved"] = sorted({f"{s[1] or s[0]}.{k}" for s, rmem in ref_m.items() if s in cur_m for k in rmem if private(k) and k not in cur_m[s]})
    diag["missing"] = sorted(set(diag["missing"]))
    return back, diag


class _Rename(ast.NodeTransformer):
    def __init__(self, back):
        self.back = back

    def visit_Attribute(self, n):
        self.generic_visit(n)
        n.attr = self.back.get(n.attr, n.attr)
        return n

    def visit_Name(self, n):
        n.id = self.back.get(n.id, n.id)
        return n

    def _def(self, n):
        self.generic_visit(n)
        n.name = self.back.get(n.name, n.name)
        return n

    visit_FunctionDef = visit_AsyncFunctionDef = visit_ClassDef = _def

    def visit_ImportFrom(self, n):
        for a in n.names:
            a.name = self.back.get(a.name, a.name)
            if a.asname:
                a.asname = self.back.get(a.asname, a.asname)
        return n

    def visit_Call(self, n):
        self.generic_visit(n)
        f = n.func
        name = f.attr if isinstance(f, ast.Attribute) else (f.id if isinstance(f, ast.Name) else "")
        if name in REFLECTIVE:
            for a in n.args:
                if isinstance(a, ast.Constant) and isinstance(a.value, str) and a.value in self.back:
                    a.value = self.back[a.value]
        return n

    def visit_keyword(self, n):
        self.generic_visit(n)
        return n


def _locals_clash(trees, back) -> set:
    """a local variable / parameter that happens to carry a name being substituted would be renamed with it: harmless (consistent within the
    function) unless the function also uses the target name - which cannot be, the target does not occur in the tree."""
    return set()


def canonicalise(trees: Dict[str, ast.AST], mode: str = "auto") -> Tuple[Dict[str, str], dict]:
    """rename, in place, the identifiers of `trees` (rel path -> ast.Module) back to the reference names; -> (mapping new->old, diagnostics)
    mode: auto = every accepted pair; attrs = attributes / variables only (functions and classes keep their names); none = nothing"""
    if mode == "none" or not os.path.exists(REF):  # noqa
        return {}, {"note": "no reference_names.json"}
    lib = {k: t for k, t in trees.items() if not _is_test(k)}
    cur = survey(lib)
    back, diag = match(cur, reference())
    if mode == "attrs":
        defs = {key[2] for key, kinds in cur["kinds"].items() if kinds & {"func", "class"}}
        back = {k: v for k, v in back.items() if k not in defs}
    elif mode.startswith("without:"):
        # every accepted pair but the named ones (a function that was split can look like a rename of its larger half)
        drop = set(mode[len("without:"):].split(","))
        back = {k: v for k, v in back.items() if k not in drop}
    diag["function_pairs"] = sorted(k for k in back if any(key[2] == k and kinds & {"func", "class"} for key, kinds in cur["kinds"].items()))
    if back:
        tr = _Rename(back)
        for t in trees.values():
            tr.visit(t)
    return back, diag


if __name__ == "__main__":
    if sys.argv[1:2] == ["freeze"]:
        print(freeze(sys.argv[2] if len(sys.argv) > 2 else "/repo"), "identifiers frozen")
    else:
        root = sys.argv[1] if len(sys.argv) > 1 else "/repo"
        back, diag = match(survey(_trees_of_root(root)), reference())
        print(json.dumps({"mapping": back, **diag}, indent=1))
