"""E6 - value-flow terms (gated def-use graph).

Every expression is turned into a *term*: the expression tree with local names replaced by the terms
they were assigned (through assignments, augmented assignments, tuple unpacking, with-bindings, walrus,
attribute stores on `self`, in-place mutations such as .append/.extend/.update/.clear), branch merges
turned into `ite` gates, and the path condition kept alongside.  Rules then match on terms of *resolved
entities* instead of on source text, so renaming a local, hoisting a sub-expression or switching between
if/else and a conditional expression does not change what a rule sees.

No path is checked for feasibility and nothing is solved: this is a def-use/value-numbering IR, which the
abstract domains (bits.py, seq.py, lens.py) interpret.

Terms are nested tuples (hashable):

  ('const', v)                      ('param', name)                 ('global', qualified-or-dotted-name)
  ('attr', base, name)              ('sub', base, index)            ('slice', base, lo, hi, step)
  ('call', fref, args, kwargs)      fref: ('func', qual) | ('ext', dotted) | ('meth', recv, name) | ('dyn', term)
  ('bin', op, a, b)  ('un', op, a)  ('cmp', op, a, b)  ('bool', 'and'|'or', (..))  ('ite', c, a, b)
  ('tuple', (..)) ('list', (..)) ('set', (..)) ('dict', ((k, v), ..))  ('item', t, i)
  ('mut', method, old, args)        in-place mutation result        ('store', old, index, value)  subscript store
  ('loopvar', name, loop_line)      value carried around a loop     ('iter', t)  element of iterable t
  ('bound', name)                   comprehension / lambda variable ('comp', kind, elt, gens)  ('lambda', params, body)
  ('await', t) ('yield', t) ('fstr', (..)) ('exc', class-name) ('top', reason)
"""
from __future__ import annotations

import ast
from typing import Any, Dict, List, Optional, Tuple

from .absint import Analysis, Completions, Engine
from .model import AnalysisError, ClassInfo, External, FuncInfo, Module, Program, norm

Term = tuple

OPS = {ast.Add: "+", ast.Sub: "-", ast.Mult: "*", ast.Div: "/", ast.FloorDiv: "//", ast.Mod: "%", ast.Pow: "**",
       ast.LShift: "<<", ast.RShift: ">>", ast.BitOr: "|", ast.BitAnd: "&", ast.BitXor: "^", ast.MatMult: "@"}
UOPS = {ast.Not: "not", ast.USub: "neg", ast.UAdd: "pos", ast.Invert: "~"}
CMPS = {ast.Eq: "==", ast.NotEq: "!=", ast.Lt: "<", ast.LtE: "<=", ast.Gt: ">", ast.GtE: ">=", ast.Is: "is",
        ast.IsNot: "is not", ast.In: "in", ast.NotIn: "not in"}
NEG = {"==": "!=", "!=": "==", "<": ">=", ">=": "<", ">": "<=", "<=": ">", "is": "is not", "is not": "is", "in": "not in",
       "not in": "in"}
FLIP = {"==": "==", "!=": "!=", "<": ">", ">": "<", "<=": ">=", ">=": "<="}

MUTATORS = {"append", "extend", "update", "add", "clear", "pop", "remove", "insert", "discard", "popleft", "sort",
            "reverse", "setdefault", "put_nowait", "merge"}
VIEW_FUNCS = {"memoryview", "bytes", "bytearray"}
from .model import LIBRARY_CONSTANTS  # noqa: E402  (documented constants of the libraries the package uses)


def const(v):
    return ("const", v)


def _table_key(k) -> bool:
    """a key of a literal dispatch table: a constant, an enum member, or a tuple of those"""
    return k[0] in ("const", "enum") or (k[0] == "tuple" and 0 < len(k[1]) <= 4 and all(e[0] in ("const", "enum") for e in k[1]))


def _key_eq(x, k):
    """x == k for a table key k; a tuple key against a tuple of the same length compares element by element (tuple equality),
    elements that are the same constant on both sides drop out"""
    if k[0] == "tuple" and x[0] == "tuple" and len(x[1]) == len(k[1]):
        parts = []
        for a, b in zip(x[1], k[1]):
            if a[0] in ("const", "enum") and b[0] in ("const", "enum"):
                if a == b or (a[0] == "const" and b[0] == "const" and a[1] == b[1] and type(a[1]) is type(b[1])):
                    continue
                if a[0] == "const" and b[0] == "const":
                    return ("const", False)
                if (a == ("const", None)) != (b == ("const", None)):
                    return ("const", False)        # None equals no enum member / number
            parts.append(("cmp", "==", a, b))
        if not parts:
            return ("const", True)
        return parts[0] if len(parts) == 1 else ("bool", "and", tuple(parts))
    return ("cmp", "==", x, k)


def lit(v):
    """Term of a folded Python value: dictionaries become 'dict' terms (a term must stay hashable)."""
    if isinstance(v, dict):
        return ("dict", tuple((lit(k), lit(x)) for k, x in v.items()))
    return ("const", v)


def is_const(t, v=...):
    return isinstance(t, tuple) and t and t[0] == "const" and (v is ... or (t[1] == v and type(t[1]) is type(v)))


def cval(t):
    return t[1]


def _negates(a, b) -> bool:
    return (isinstance(a, tuple) and a[:2] == ("un", "not") and a[2] == b) or (isinstance(b, tuple) and b[:2] == ("un", "not") and b[2] == a)


def simp_ite(t: Term, depth: int = 0) -> Term:
    """ite(c, a, a) is a;  ite(c, a, ite(not c, b, x)) is ite(c, a, b);  ite(c, a, ite(c, x, b)) is ite(c, a, b)   (top levels only)"""
    if not (isinstance(t, tuple) and t and t[0] == "ite") or depth > 6:
        return t
    c, a, b = t[1], simp_ite(t[2], depth + 1), simp_ite(t[3], depth + 1)
    if isinstance(b, tuple) and b and b[0] == "ite":
        if b[1] == c:
            b = b[3]
        elif _negates(b[1], c):
            b = b[2]
    if isinstance(a, tuple) and a and a[0] == "ite":
        if a[1] == c:
            a = a[2]
        elif _negates(a[1], c):
            a = a[3]
    if a == b:
        return a
    return ("ite", c, a, b)


def none_test(t: Term, depth: int = 0):
    """`t is None` as a term when every alternative of t is either None or something that cannot be None (a display, a number, an enum
    member): the test then only depends on the gates.  None when it cannot be said."""
    if not isinstance(t, tuple) or not t or depth > 6:
        return None
    if t == ("const", None):
        return ("const", True)
    if t[0] in ("tuple", "list", "dict", "set", "enum", "fstr") or (t[0] == "const" and t[1] is not None) or (t[0] == "bin" and t[1] in ("+", "-", "*", "&", "|", "^", "<<", ">>")):
        return ("const", False)
    if t[0] == "ite":
        a, b = none_test(t[2], depth + 1), none_test(t[3], depth + 1)
        if a is None or b is None:
            return None
        if a == b:
            return a
        if a == ("const", True) and b == ("const", False):
            return t[1]
        if a == ("const", False) and b == ("const", True):
            return ("un", "not", t[1])
        return simp_ite(("ite", t[1], a, b))
    return None


def unview(t: Term) -> Term:
    """Strip content-preserving wrappers: memoryview(x) / bytes(x) / bytearray(x) / x.tobytes() / cast(T, x); a conditional whose two
    alternatives are the same content either way (`bytes(x) if not x.c_contiguous else x`) is that content."""
    if isinstance(t, tuple) and t and t[0] == "ite":
        a, b = unview(t[2]), unview(t[3])
        if a == b and a[0] != "ite":
            return a
    while isinstance(t, tuple) and t and t[0] == "call":
        fref, args = t[1], t[2]
        if fref[0] == "ext" and fref[1] in VIEW_FUNCS and len(args) == 1 and not t[3]:
            a = args[0]
            if a[0] == "const" and isinstance(a[1], int):   # bytes(n) is not a view
                break
            if a[0] == "bin" and a[1] in ("-", "*", "//", "%") and any(isinstance(y, tuple) and y[:2] == ("call", ("ext", "len")) for y in subterms(a)):
                break                                        # bytes(40 - len(x)): n zero bytes, not a view either
            if a[0] in ("list", "tuple"):                    # bytes([..]) is a constructor
                break
            t = a
        elif fref[0] == "ext" and fref[1] == "int" and len(args) == 1 and not t[3] and (
                (args[0][0] == "bin" and args[0][1] in ("&", ">>", "<<", "|", "^")) or
                (args[0][0] == "sub" and args[0][2][0] == "const" and isinstance(args[0][2][1], int) and not isinstance(args[0][2][1], bool))):
            t = args[0]          # int(<bit arithmetic>) / int(buf[3]): already an int
        elif fref[0] == "meth" and fref[2] in ("tobytes",) and not args:
            t = fref[1]
        elif fref[0] == "ext" and fref[1] in ("typing.cast", "cast") and len(args) == 2:
            t = args[1]
        else:
            break
    return t


def show(t, depth=0) -> str:
    """Compact human-readable rendering (evidence / messages)."""
    if not isinstance(t, tuple) or not t:
        return repr(t)
    k = t[0]
    if depth > 8:
        return "…"
    S = lambda x: show(x, depth + 1)  # noqa: E731
    if k == "const":
        v = t[1]
        if isinstance(v, (bytes, bytearray)):
            return "b'" + bytes(v).hex() + "'" if len(v) <= 24 else f"b'{bytes(v)[:8].hex()}…'({len(v)})"
        return repr(v)
    if k == "param":
        return t[1]
    if k == "global":
        return t[1]
    if k == "attr":
        return f"{S(t[1])}.{t[2]}"
    if k == "sub":
        return f"{S(t[1])}[{S(t[2])}]"
    if k == "slice":
        f = lambda x: "" if x is None else S(x)  # noqa: E731
        return f"{S(t[1])}[{f(t[2])}:{f(t[3])}" + (f":{S(t[4])}]" if t[4] is not None else "]")
    if k == "call":
        fr = t[1]
        fn = fr[1] if fr[0] in ("func", "ext") else (f"{S(fr[1])}.{fr[2]}" if fr[0] == "meth" else S(fr[1]))
        args = [S(a) for a in t[2]] + [f"{n}={S(v)}" for n, v in t[3]]
        return f"{fn}({', '.join(args)})"
    if k == "bin":
        return f"({S(t[2])} {t[1]} {S(t[3])})"
    if k == "un":
        return f"({t[1]} {S(t[2])})"
    if k == "cmp":
        return f"({S(t[2])} {t[1]} {S(t[3])})"
    if k == "bool":
        return "(" + f" {t[1]} ".join(S(x) for x in t[2]) + ")"
    if k == "ite":
        return f"({S(t[2])} if {S(t[1])} else {S(t[3])})"
    if k in ("tuple", "list", "set"):
        return {"tuple": "(", "list": "[", "set": "{"}[k] + ", ".join(S(x) for x in t[1]) + {"tuple": ")", "list": "]", "set": "}"}[k]
    if k == "dict":
        return "{" + ", ".join(f"{S(a)}: {S(b)}" for a, b in t[1]) + "}"
    if k == "item":
        return f"{S(t[1])}#{t[2]}"
    if k == "mut":
        return f"{S(t[2])}.{t[1]}!({', '.join(S(a) for a in t[3])})"
    if k == "store":
        return f"{S(t[1])}[{S(t[2])}]:={S(t[3])}"
    if k == "loopvar":
        return f"⟳{t[1]}"
    if k == "iter":
        return f"∈{S(t[1])}"
    if k == "bound":
        return f"λ{t[1]}"
    if k == "await":
        return f"await {S(t[1])}"
    if k == "top":
        return f"⊤({t[1]})"
    if k == "exc":
        return f"exc:{t[1]}"
    if k == "enum":
        return f"{t[1].split('.')[-1]}.{t[2]}"
    if k == "localfunc":
        return f"def:{t[1]}"
    if k == "lambda":
        return f"lambda {','.join(t[1])}: {S(t[2])}"
    if k == "comp":
        return f"{t[1]}comp({S(t[2])} for …)"
    if k == "fstr":
        return "f'…'"
    return f"{k}(…)"


_STRUCT_W = {"B": 1, "b": 1, "H": 2, "h": 2, "I": 4, "i": 4, "L": 4, "l": 4, "Q": 8, "q": 8, "x": 1, "c": 1, "?": 1}


def struct_fields(fmt: str):
    """[(offset, width, code)] of a standard-size struct format with explicit byte order, or None."""
    if not fmt or fmt[0] not in "<>!":
        return None
    out, off, i, n = [], 0, 1, ""
    body = fmt[1:].replace(" ", "")
    for ch in body:
        if ch.isdigit():
            n += ch
            continue
        if ch == "s":
            w = int(n) if n else 1
            out.append((off, w, "s"))
            off += w
            n = ""
            continue
        if ch not in _STRUCT_W or ch in "c?":
            return None
        for _ in range(int(n) if n else 1):
            if ch != "x":
                out.append((off, _STRUCT_W[ch], ch))
            off += _STRUCT_W[ch]
        n = ""
    return (out, off) if not n else None


def field_read(value: Term, i) -> Optional[Term]:
    """Canonical form of element i of struct.unpack(fmt, X) / struct.unpack_from(fmt, X, off): a one-byte field is X[k], a wider
    one int.from_bytes(X[a:b], order) - the same term an int.from_bytes spelling of the read produces."""
    if isinstance(value, tuple) and value and value[0] == "call" and value[1] == ("ext", "divmod") and len(value[2]) == 2 and i in (0, 1) and not value[3]:
        a_, b_ = value[2]
        if is_const(b_) and isinstance(b_[1], int) and not isinstance(b_[1], bool) and b_[1] > 1 and (b_[1] & (b_[1] - 1)) == 0 and _integer_valued_loose(a_):
            return ("bin", ">>", a_, const(b_[1].bit_length() - 1)) if i == 0 else ("bin", "&", a_, const(b_[1] - 1))
        return ("bin", "//" if i == 0 else "%", a_, b_)
    if not (isinstance(value, tuple) and value and value[0] == "call" and value[1][0] == "ext"
            and value[1][1] in ("struct.unpack", "struct.unpack_from") and len(value[2]) >= 2 and isinstance(i, int)):
        return None
    fmt = value[2][0]
    if not (is_const(fmt) and isinstance(fmt[1], str)):
        return None
    sf = struct_fields(fmt[1])
    if sf is None or not (0 <= i < len(sf[0])):
        return None
    fields, total = sf
    off, w, code = fields[i]
    buf = value[2][1]
    order = "little" if fmt[1][0] == "<" else "big"
    kw = dict(value[3])
    if value[1][1] == "struct.unpack_from":
        base = value[2][2] if len(value[2]) > 2 else kw.get("offset", const(0))
    else:
        base = const(0)

    def plus(t, k):
        if is_const(t) and isinstance(t[1], int):
            return const(t[1] + k)
        return t if k == 0 else ("bin", "+", t, const(k))
    if code == "s":
        return ("slice", buf, plus(base, off), plus(base, off + w), None)          # the bytes themselves
    if w == 1 and code == "B":
        return ("sub", buf, plus(base, off))
    if value[1][1] == "struct.unpack" and len(fields) == 1 and off == 0 and w == total:
        src = buf
    else:
        src = ("slice", buf, plus(base, off), plus(base, off + w), None)
    kws = (("signed", const(True)),) if code.islower() else ()
    return ("call", ("ext", "int.from_bytes"), (src, const(order)), kws)


def bytes_compose(t) -> Optional[Term]:
    """(X[i] << 8) | X[i+1]  (or +, any order, n bytes)  ->  int.from_bytes(X[i:i+n], 'big');  X[i] | (X[i+1] << 8)  ->  ... 'little'.
    The indices may be terms (X[s + 2]): adjacency is decided on their affine forms."""
    parts = []

    def collect(x):
        if x[0] == "bin" and x[1] in ("|", "+"):
            collect(x[2])
            collect(x[3])
        else:
            parts.append(x)
    collect(t)
    if not (2 <= len(parts) <= 8):
        return None
    items = []          # (shift, buffer, index term)
    for p in parts:
        sh = 0
        if p[0] == "bin" and p[1] == "<<" and is_const(p[3]) and isinstance(p[3][1], int) and p[3][1] % 8 == 0 and p[3][1] >= 0:
            sh, p = p[3][1], p[2]
        if p[0] != "sub":
            return None
        items.append((sh, p[1], p[2]))
    if len({it[1] for it in items}) != 1 or sorted(it[0] for it in items) != [8 * k for k in range(len(items))]:
        return None
    from .affine import Lin, from_lin, lin
    try:
        byidx = sorted(items, key=lambda it: it[0])          # ascending shift
        base = lin(byidx[0][2])
        diffs = [lin(it[2]) - base for it in byidx]
    except Exception:
        return None
    n = len(items)
    if all(d == Lin(k) for k, d in enumerate(diffs)):
        order, first = "little", byidx[0][2]
    elif all(d == Lin(-k) for k, d in enumerate(diffs)):
        order, first = "big", byidx[-1][2]
    else:
        return None
    hi = from_lin(lin(first) + Lin(n))
    if hi is None:
        return None
    return ("call", ("ext", "int.from_bytes"), (("slice", items[0][1], first, hi, None), const(order)), ())


def subterms(t):
    """All sub-terms, pre-order."""
    todo = [t]
    while todo:
        x = todo.pop()
        if isinstance(x, tuple):
            if x and isinstance(x[0], str):
                yield x
            todo.extend(reversed([y for y in x if isinstance(y, tuple)]))


def contains(t, pred) -> bool:
    return any(pred(x) for x in subterms(t))


def mentions(t, sub) -> bool:
    return any(x == sub for x in subterms(t))


def replace(t, mapping: Dict[Term, Term]):
    if not isinstance(t, tuple):
        return t
    if t in mapping:
        return mapping[t]
    return tuple(replace(x, mapping) for x in t)


# ---------------------------------------------------------------------------------------
class State:
    """Immutable-by-convention analysis state: env (name / dotted self attr -> term) + path condition."""
    __slots__ = ("env", "pc")

    def __init__(self, env: Dict[str, Term], pc: Tuple[Tuple[Term, bool], ...] = ()):
        self.env, self.pc = env, pc

    def copy(self):
        return State(dict(self.env), self.pc)

    def __eq__(self, o):
        return isinstance(o, State) and self.env == o.env and self.pc == o.pc

    def __hash__(self):
        return hash((tuple(sorted(self.env.items(), key=lambda kv: kv[0])), self.pc))


def pc_term(pc) -> Term:
    parts = tuple(c if truth else ("un", "not", c) for c, truth in pc)
    if not parts:
        return const(True)
    if len(parts) == 1:
        return parts[0]
    return ("bool", "and", parts)


class TermAnalysis(Analysis):
    """Builds terms for one function.  `self_name` is the receiver parameter (self/cls) if any."""

    def __init__(self, prog: Program, fn: FuncInfo, args: Optional[Dict[str, Term]] = None, record=True):
        self.prog, self.fn = prog, fn
        self.m, self.cls = fn.module, fn.cls
        self.record = record
        self.env_at: Dict[ast.AST, State] = {}      # state before each statement
        self.terms_at: Dict[ast.AST, Term] = {}     # term of each evaluated expression node (last visit)
        self.args = args or {}
        self._local_funcs: Dict[str, ast.AST] = {}
        a = fn.node.args
        self.param_names = [x.arg for x in a.posonlyargs + a.args + a.kwonlyargs]
        if a.vararg:
            self.param_names.append(a.vararg.arg)
        if a.kwarg:
            self.param_names.append(a.kwarg.arg)
        self.defaults: Dict[str, ast.expr] = {}
        pos = a.posonlyargs + a.args
        for p, d in zip(pos[len(pos) - len(a.defaults):], a.defaults):
            self.defaults[p.arg] = d
        for p, d in zip(a.kwonlyargs, a.kw_defaults):
            if d is not None:
                self.defaults[p.arg] = d
        self.assigned = self._assigned_names(fn.node)
        self._inl: List[tuple] = []          # (kind, pc, exc) collected while evaluating one statement / test
        self._inlined_calls: set = set()     # ids of call nodes replaced by the value of an inlined helper
        self._closure_consts: Dict[str, Dict[str, Term]] = {}   # nested function -> constants it captures from this function
        self.inline_depth = 0

    # -------------------------------------------------------------- setup
    @staticmethod
    def _assigned_names(node) -> set:
        out = set()
        for n in ast.walk(node):
            if isinstance(n, ast.Name) and isinstance(n.ctx, (ast.Store, ast.Del)):
                out.add(n.id)
            elif isinstance(n, (ast.FunctionDef, ast.AsyncFunctionDef, ast.ClassDef)) and n is not node:
                out.add(n.name)
            elif isinstance(n, ast.ExceptHandler) and n.name:
                out.add(n.name)
        return out

    def initial(self) -> State:
        env = {}
        for p in self.param_names:
            env[p] = self.args.get(p, ("param", p))
        # closure constants handed to an inlined nested function (names it reads from the enclosing function)
        for k, v in self.args.items():
            if k.startswith("<closure>"):
                env[k[len("<closure>"):]] = v
            elif "." in k and k.split(".", 1)[0] in self.param_names:
                env[k] = v          # attribute state handed in by the caller (`self._buffer` as the caller left it)
        return State(env)

    # -------------------------------------------------------------- domain ops
    def join(self, states: List[State]) -> State:
        out = states[0]
        for s in states[1:]:
            out = self._join2(out, s)
        return out

    def _join2(self, a: State, b: State) -> State:
        if a.env == b.env and a.pc == b.pc:
            return a
        i = 0
        while i < len(a.pc) and i < len(b.pc) and a.pc[i] == b.pc[i]:
            i += 1
        prefix, ra, rb = a.pc[:i], a.pc[i:], b.pc[i:]
        if ra and rb and ra[0][0] == rb[0][0] and ra[0][1] != rb[0][1]:
            gate_c, gate_truth = ra[0]
        elif ra:
            gate_c, gate_truth = pc_term(ra), True
        elif rb:
            gate_c, gate_truth = pc_term(rb), False
        else:
            gate_c, gate_truth = ("top", "merge"), True
        env = {}
        for k in set(a.env) | set(b.env):
            va, vb = a.env.get(k), b.env.get(k)
            if va == vb:
                env[k] = va
            else:
                va = va if va is not None else self._unbound(k)
                vb = vb if vb is not None else self._unbound(k)
                env[k] = simp_ite(("ite", gate_c, va, vb) if gate_truth else ("ite", gate_c, vb, va))
        pc = prefix
        complementary = (len(ra) == 1 and len(rb) == 1 and ra[0][0] == rb[0][0] and ra[0][1] != rb[0][1])
        if not complementary and (ra or rb):
            if ra and rb:
                pc = prefix + ((("bool", "or", (pc_term(ra), pc_term(rb))), True),)
            # one side has no extra condition: the merged condition is just the prefix
        return State(env, pc)

    def _unbound(self, k: str) -> Term:
        """Value of an environment key one branch did not assign: an attribute of a parameter keeps the value it had on entry."""
        if k.count(".") == 1:
            base, name = k.split(".")
            if base in self.param_names:
                return ("attr", ("param", base), name)
        return ("top", f"unbound {k}")

    def leq(self, a, b):
        return a == b

    def raise_name(self, s, st):
        # `raise error(...)` where `error` holds a class (an exception class passed into a helper)
        e = s.exc.func if isinstance(s.exc, ast.Call) else s.exc
        if isinstance(e, ast.Name) and e.id in st.env:
            v = st.env[e.id]
            if v[0] == "global" and v[1] in self.prog.classes:
                return v[1]
        return None

    engine = None

    def raises(self, node, state):
        """Inside a try body, any statement that calls / indexes / awaits may raise each class the try handles
        (so that every handler is analysed).  Nothing is claimed about which exceptions are actually possible."""
        eng = self.engine
        out = []
        if isinstance(node, (ast.FunctionDef, ast.AsyncFunctionDef, ast.ClassDef)):
            return out
        # raises of helpers that are inlined (functions the rules do not know): dry evaluation on a copy
        if any(isinstance(n, ast.Call) for n in ast.walk(node)):
            saved_rec, self.record = self.record, False
            saved_inl, self._inl = self._inl, []
            try:
                st = state.copy()
                if isinstance(node, ast.stmt):
                    for ch in ast.iter_child_nodes(node):
                        if isinstance(ch, ast.expr) and not (isinstance(node, (ast.Assign, ast.AugAssign, ast.AnnAssign)) and isinstance(getattr(ch, "ctx", None), ast.Store)):
                            try:
                                self.ev(ch, st)
                            except AnalysisError:
                                pass
                else:
                    self.ev(node, st)
                for kind, pc, exc in self._inl:
                    if kind == "raise":
                        out.append((exc, State(state.env, state.pc + tuple(pc))))
            finally:
                self.record, self._inl = saved_rec, saved_inl
        if eng is None or not eng.try_stack or isinstance(node, ast.Raise):
            return out
        if not any(isinstance(n, (ast.Call, ast.Subscript, ast.Await, ast.BinOp)) for n in ast.walk(node)):
            return out
        need = self._index_need(node, state)
        for names in eng.try_stack[-1:]:
            for n in names:
                if need is not None and n in ("IndexError", "LookupError"):
                    # the statement's only way into this handler: one of its constant subscripts is past the end of the buffer
                    out.append((n, State(state.env, state.pc + ((("cmp", "<", ("call", ("ext", "len"), (need[0],), ()), const(need[1])), True),))))
                else:
                    out.append((n, state))
        return out

    def _index_need(self, node, state):
        """(buffer term, n): every subscript of the simple statement `node` is a constant index into one buffer and they all exist iff
        len(buffer) >= n; None when the statement has calls that may raise themselves, other subscripts, or no subscript"""
        if not isinstance(node, (ast.Assign, ast.AnnAssign, ast.AugAssign, ast.Expr, ast.Return)):
            return None
        subs = [n for n in ast.walk(node) if isinstance(n, ast.Subscript) and isinstance(n.ctx, ast.Load)]
        if not subs:
            return None
        for c in ast.walk(node):
            if isinstance(c, (ast.Await, ast.Yield, ast.YieldFrom)):
                return None
            if isinstance(c, ast.Call) and not (isinstance(c.func, ast.Name) and c.func.id in ("bool", "int", "float", "abs", "len", "bytes", "min", "max")):
                return None
        base, need = None, 0
        for sb in subs:
            if isinstance(sb.slice, ast.Slice):
                continue
            k = sb.slice.value if isinstance(sb.slice, ast.Constant) else (-sb.slice.operand.value if isinstance(sb.slice, ast.UnaryOp) and isinstance(sb.slice.op, ast.USub)
                                                                               and isinstance(sb.slice.operand, ast.Constant) else None)
            if not isinstance(k, int) or isinstance(k, bool):
                return None
            if base is not None and norm(sb.value) != norm(base):
                return None
            base = sb.value
            need = max(need, k + 1 if k >= 0 else -k)
        if base is None:
            return None
        saved = self.record
        self.record = False
        try:
            bt = self.ev(base, state.copy())
        except AnalysisError:
            return None
        finally:
            self.record = saved
        return bt, need

    # -------------------------------------------------------------- statements
    def visit(self, node, state):
        if self.record:
            self.env_at[node] = state

    def stmt(self, node, state: State) -> State:
        st = state.copy()
        self._inl = []
        need = None
        eng = self.engine
        if eng is not None and eng.try_stack and any(n in ("IndexError", "LookupError") for n in eng.try_stack[-1]):
            need = self._index_need(node, state)
        st = self._stmt(node, st)
        never = isinstance(node, ast.Expr) and any(kind == "never" for kind, _pc, _exc in self._inl)
        for kind, pc, _exc in self._inl:
            if kind == "normal" and pc:
                st.pc = st.pc + tuple(pc)
        self._inl = []
        if never:
            return None          # an expression statement whose (seen-through) helper never returns: control does not pass it
        if need is not None:
            # it completed: its subscripts existed (the complement of the handler's entry condition)
            st.pc = st.pc + ((("cmp", ">=", ("call", ("ext", "len"), (need[0],), ()), const(need[1])), True),)
        return st

    def _stmt(self, node, st: State) -> State:
        if isinstance(node, ast.Assign):
            v = self.ev(node.value, st)
            for t in node.targets:
                self.assign(t, v, st)
        elif isinstance(node, ast.AnnAssign):
            if node.value is not None:
                self.assign(node.target, self.ev(node.value, st), st)
        elif isinstance(node, ast.AugAssign):
            cur = self.ev(self._load(node.target), st)
            v = ("bin", OPS[type(node.op)], cur, self.ev(node.value, st))
            self.assign(node.target, v, st)
        elif isinstance(node, ast.Expr) and isinstance(node.value, ast.Call) and isinstance(node.value.func, ast.Name) and node.value.func.id == "setattr" \
                and len(node.value.args) == 3 and "setattr" not in st.env:
            # setattr(obj, "<constant name>", v) is obj.<name> = v
            nm = self.ev(node.value.args[1], st)
            k0 = self.key_of(node.value.args[0])
            v = self.ev(node.value.args[2], st)
            if k0 and is_const(nm) and isinstance(nm[1], str) and nm[1].isidentifier():
                st.env[f"{k0}.{nm[1]}"] = v
            self.ev(node.value, st)
        elif isinstance(node, ast.Expr):
            self.ev(node.value, st)
        elif isinstance(node, ast.Return):
            if node.value is not None:
                st.env["<return>"] = self.ev(node.value, st)
            else:
                st.env["<return>"] = const(None)
        elif isinstance(node, ast.Raise):
            if node.exc is not None:
                st.env["<raise>"] = self.ev(node.exc, st)
        elif isinstance(node, ast.Assert):
            pass
        elif isinstance(node, (ast.FunctionDef, ast.AsyncFunctionDef)):
            self._local_funcs[node.name] = node
            st.env[node.name] = ("localfunc", node.name, id(node))
        elif isinstance(node, ast.Delete):
            for t in node.targets:
                if isinstance(t, ast.Name):
                    st.env.pop(t.id, None)
                elif isinstance(t, ast.Subscript) and isinstance(t.slice, ast.Slice) and t.slice.step is None and self.key_of(t.value):
                    # del x[a:b]: x becomes x[:a] + x[b:]  (del x[:b] -> x[b:], del x[a:] -> x[:a])
                    k = self.key_of(t.value)
                    old = self.ev(t.value, st)
                    lo = self.ev(t.slice.lower, st) if t.slice.lower is not None else None
                    hi = self.ev(t.slice.upper, st) if t.slice.upper is not None else None
                    if lo is None or lo == const(0):
                        new = ("slice", old, hi, None, None) if hi is not None else ("call", ("ext", "bytearray"), (), ())
                    elif hi is None:
                        new = ("slice", old, None, lo, None)
                    else:
                        new = ("bin", "+", ("slice", old, None, lo, None), ("slice", old, hi, None, None))
                    st.env[k] = new
                    if "." not in k:
                        # the local names the object an attribute holds (x = self.buf; del x[:n]): that object is what shrinks
                        for a_ in ast.walk(self.fn.node):
                            if isinstance(a_, ast.Assign) and len(a_.targets) == 1 and isinstance(a_.targets[0], ast.Name) and a_.targets[0].id == k \
                                    and isinstance(a_.value, ast.Attribute):
                                ak = self.key_of(a_.value)
                                if ak and st.env.get(ak) == old:
                                    st.env[ak] = new
        return st

    @staticmethod
    def _load(target):
        t = ast.parse(ast.unparse(target), mode="eval").body
        return t

    def key_of(self, target) -> Optional[str]:
        """Dotted key for attribute chains rooted at a local name (self._x, cls._lock, cmd.beep_on)."""
        if isinstance(target, ast.Name):
            return target.id
        if isinstance(target, ast.Attribute):
            b = self.key_of(target.value)
            return f"{b}.{target.attr}" if b else None
        return None

    def assign(self, target, value: Term, st: State):
        if isinstance(target, ast.Name):
            st.env[target.id] = value
            self.terms_at[target] = value
            ro = getattr(self, "_returned_obj", None)
            if ro is not None and ro[0] == value:
                for k in [k for k in st.env if k.startswith(target.id + ".")]:
                    del st.env[k]
                for a, v in ro[1].items():
                    st.env[f"{target.id}.{a}"] = v
                self._returned_obj = None
        elif isinstance(target, (ast.Tuple, ast.List)):
            stars = [i for i, t in enumerate(target.elts) if isinstance(t, ast.Starred)]
            if len(stars) == 1 and value[0] in ("tuple", "list") and len(value[1]) >= len(target.elts) - 1 and not any(x[0] == "starred" for x in value[1]):
                # a, *rest, z = (v1, ..., vn)
                i = stars[0]
                after = len(target.elts) - 1 - i
                items = list(value[1])
                for t, v in zip(target.elts[:i], items[:i]):
                    self.assign(t, v, st)
                self.assign(target.elts[i].value, ("list", tuple(items[i:len(items) - after])), st)
                for t, v in zip(target.elts[i + 1:], items[len(items) - after:]):
                    self.assign(t, v, st)
            elif value[0] == "ite" and not stars and self._tuple_leaves(value, len(target.elts)):
                # a gated tuple (typically the Optional[tuple] result of a helper): each target gets the gated element; a None alternative
                # stays None - the unpacking is only reached where a guard has excluded it
                def pick(v, i):
                    if v[0] == "ite":
                        return ("ite", v[1], pick(v[2], i), pick(v[3], i))
                    return v[1][i] if v[0] in ("tuple", "list") else v
                for i, t in enumerate(target.elts):
                    self.assign(t, pick(value, i), st)
            elif value[0] in ("tuple", "list") and len(value[1]) == len(target.elts):
                for t, v in zip(target.elts, value[1]):
                    self.assign(t, v, st)
            elif is_const(value) and isinstance(value[1], (tuple, list)) and len(value[1]) == len(target.elts):
                for t, v in zip(target.elts, value[1]):
                    self.assign(t, const(v), st)
            elif (self._record(value) or {}).get("__tuple__") and len(self._record(value)["__order__"]) == len(target.elts):
                rec = self._record(value)
                for t, f in zip(target.elts, rec["__order__"]):
                    self.assign(t, rec[f], st)
            else:
                for i, t in enumerate(target.elts):
                    self.assign(t, field_read(value, i) or ("item", value, i), st)
        elif isinstance(target, ast.Attribute):
            k = self.key_of(target)
            if k:
                st.env[k] = value
            else:
                self.ev(target.value, st)
        elif isinstance(target, ast.Subscript):
            base_key = self.key_of(target.value)
            idx = self.ev_index(target.slice, st)
            if base_key:
                old = self.ev(target.value, st)
                st.env[base_key] = ("store", old, idx, value)
        elif isinstance(target, ast.Starred):
            self.assign(target.value, ("top", "starred"), st)

    # -------------------------------------------------------------- branches
    def branch(self, test, truth, state: State):
        st = state.copy()
        self._inl = []
        c = self.ev(test, st)
        for kind, pc, _exc in self._inl:
            if kind == "normal" and pc:
                st.pc = st.pc + tuple(pc)
        self._inl = []
        if is_const(c) and isinstance(c[1], (bool, int, type(None))):
            if bool(c[1]) != truth:
                return None
            return st
        st.pc = st.pc + ((c, truth),)
        return st

    IMPLIED_ASSERT_ADDS_NOTHING = True

    def assert_holds(self, node: ast.Assert, state: State) -> bool:
        """the asserted condition follows from the path condition and the value ranges of its operands (facts.provable)"""
        from .facts import provable
        saved_rec, self.record = self.record, False
        saved_inl, self._inl = self._inl, []
        try:
            c = self.ev(node.test, state.copy())
        except AnalysisError:
            return False
        finally:
            self.record, self._inl = saved_rec, saved_inl
        ann = {}
        if self.fn is not None:
            a_ = self.fn.node.args
            for p_ in a_.posonlyargs + a_.args + a_.kwonlyargs:
                if p_.annotation is not None:
                    ann[p_.arg] = norm(p_.annotation)

        def byte_leaf(t):
            # an element of a bytes-like parameter (through slices and views): 0..255
            if t[0] == "sub" and is_const(t[2]) and isinstance(t[2][1], int):
                b = unview(t[1])
                while b[0] == "slice":
                    b = unview(b[1])
                if b[0] == "param" and ann.get(b[1], "").split("[")[0] in ("bytes", "bytearray", "memoryview", "Union[bytes, bytearray]"):
                    return (0, 255)
            return None
        try:
            return provable(c, state.pc, byte_leaf, self.prog)
        except Exception:
            return False

    def for_bind(self, node, state: State):
        st = state.copy()
        it = self.ev(node.iter, st)
        el = ("iter", it)
        if it[0] == "comp" and it[1] in ("gen", "list") and len(it[3]) == 1 and not it[3][0][2] and it[3][0][0].isidentifier():
            # iterating over (f(x) for x in xs) visits f(<element of xs>)
            el = replace(it[2], {("bound", it[3][0][0]): ("iter", it[3][0][1])})
        elif it[0] == "call" and it[1] == ("ext", "enumerate") and 1 <= len(it[2]) <= 2 and isinstance(node.target, (ast.Tuple, ast.List)) and len(node.target.elts) == 2:
            # for i, x in enumerate(xs): x is an element of xs (the index keeps its own form)
            el = ("tuple", (("item", ("iter", it), 0), ("iter", it[2][0])))
        self.assign(node.target, el, st)
        return st

    def with_bind(self, item, state: State):
        st = state.copy()
        v = self.ev(item.context_expr, st)
        if item.optional_vars is not None:
            self.assign(item.optional_vars, v, st)
        return st

    def bind_handler(self, h, exc, state: State):
        st = state.copy()
        if h.name:
            st.env[h.name] = ("exc", exc)
        return st

    # loops: names assigned in the body become loop-carried unknowns at the head
    def widen_loop(self, node, state: State) -> State:
        st = state.copy()
        body_assigned = set()
        # (a `while` test is evaluated on every round: what it assigns - a walrus, a helper that takes the next item off a buffer - is loop-carried)
        scan_nodes = list(node.body) + list(getattr(node, "orelse", [])) + ([node.test] if isinstance(node, ast.While) else [])
        for n in scan_nodes:
            for x in ast.walk(n):
                if isinstance(x, ast.Name) and isinstance(x.ctx, ast.Store):
                    body_assigned.add(x.id)
                elif isinstance(x, (ast.Attribute, ast.Subscript)) and isinstance(x.ctx, ast.Store):
                    k = self.key_of(x if isinstance(x, ast.Attribute) else x.value)
                    if k:
                        body_assigned.add(k)
                elif isinstance(x, ast.AugAssign):
                    k = self.key_of(x.target)
                    if k:
                        body_assigned.add(k)
                elif isinstance(x, ast.Call) and isinstance(x.func, ast.Attribute) and x.func.attr in MUTATORS:
                    k = self.key_of(x.func.value)
                    if k:
                        body_assigned.add(k)
        # self attributes written by helpers the rules do not know (extracted by a refactoring) are loop-carried too
        if self.fn is not None and self.param_names and self.fn.kind in ("method", "classmethod", "property", "setter"):
            from .helpers import unknown_callee, with_helpers
            recv = self.param_names[0]
            for n in scan_nodes:
                for x in ast.walk(n):
                    if isinstance(x, ast.Call) and isinstance(x.func, ast.Attribute) and isinstance(x.func.value, ast.Name) and x.func.value.id == recv:
                        t = unknown_callee(self.prog, self.fn, x)
                        if t is None:
                            continue
                        for h in with_helpers(self.prog, t):
                            if not h.params:
                                continue
                            for y in ast.walk(h.node):
                                tgt = None
                                if isinstance(y, ast.Attribute) and isinstance(y.ctx, ast.Store):
                                    tgt = y
                                elif isinstance(y, ast.Subscript) and isinstance(y.ctx, ast.Store) and isinstance(y.value, ast.Attribute):
                                    tgt = y.value
                                elif isinstance(y, ast.Call) and isinstance(y.func, ast.Attribute) and y.func.attr in MUTATORS and isinstance(y.func.value, ast.Attribute):
                                    tgt = y.func.value
                                if tgt is not None and isinstance(tgt.value, ast.Name) and tgt.value.id == h.params[0]:
                                    body_assigned.add(f"{recv}.{tgt.attr}")
        # locals handed to an unknown helper that changes its parameter in place (buf += ..., buf.append(..)) are loop-carried as well
        if self.fn is not None:
            from .helpers import unknown_callee
            for n in scan_nodes:
                for x in ast.walk(n):
                    if not isinstance(x, ast.Call):
                        continue
                    t = unknown_callee(self.prog, self.fn, x)
                    if t is None:
                        continue
                    hp = t.params[1:] if (t.kind in ("method", "classmethod") and isinstance(x.func, ast.Attribute)) else t.params
                    changed = set()
                    for y in ast.walk(t.node):
                        if isinstance(y, ast.AugAssign) and isinstance(y.target, ast.Name):
                            changed.add(y.target.id)
                        elif isinstance(y, ast.Call) and isinstance(y.func, ast.Attribute) and y.func.attr in MUTATORS and isinstance(y.func.value, ast.Name):
                            changed.add(y.func.value.id)
                        elif isinstance(y, ast.Subscript) and isinstance(y.ctx, ast.Store) and isinstance(y.value, ast.Name):
                            changed.add(y.value.id)
                    for pn, an in zip(hp, x.args):
                        if pn in changed and isinstance(an, ast.Name):
                            body_assigned.add(an.id)
        for k in body_assigned:
            st.env[k] = ("loopvar", k, node.lineno)
        return st

    # -------------------------------------------------------------- expressions
    def ev_index(self, sl, st) -> Term:
        if isinstance(sl, ast.Slice):
            return ("sliceidx", self.ev(sl.lower, st) if sl.lower else None, self.ev(sl.upper, st) if sl.upper else None,
                    self.ev(sl.step, st) if sl.step else None)
        return self.ev(sl, st)

    def ev(self, e: ast.expr, st: State) -> Term:
        t = self._ev(e, st)
        if self.record:
            self.terms_at[e] = t
        return t

    def _global(self, name: str) -> Term:
        r = self.prog.resolve_name(self.m, name, self.cls)
        if isinstance(r, ClassInfo):
            return ("global", r.qual)
        if isinstance(r, FuncInfo):
            return ("global", r.qual)
        if isinstance(r, External):
            return ("global", r.name)
        if isinstance(r, Module):
            return ("global", r.name)
        if isinstance(r, tuple) and r[0] == "modconst":
            node = self.prog.module_assigns(r[1]).get(r[2])
            try:
                return lit(self.prog.fold(node, r[1]))
            except Exception:
                pass
            # a module-level literal table whose entries are not plain constants (classes, functions): its term, provided the
            # name is bound exactly once in its module (a table, not a variable)
            if isinstance(node, (ast.Dict, ast.Tuple, ast.List)) and r[1] is self.m and len(getattr(node, "keys", getattr(node, "elts", []))) <= 24:
                binds = sum(1 for n in ast.walk(r[1].tree) if isinstance(n, ast.Name) and isinstance(n.ctx, ast.Store) and n.id == r[2])
                mutated = any(isinstance(n, ast.Attribute) and isinstance(n.value, ast.Name) and n.value.id == r[2] and n.attr in MUTATORS for n in ast.walk(r[1].tree)) or \
                    any(isinstance(n, ast.Subscript) and isinstance(n.ctx, (ast.Store, ast.Del)) and isinstance(n.value, ast.Name) and n.value.id == r[2] for n in ast.walk(r[1].tree))
                if binds == 1 and not mutated:
                    saved = self.record
                    self.record = False
                    try:
                        return self.ev(node, State({}))
                    except AnalysisError:
                        pass
                    finally:
                        self.record = saved
            return ("global", f"{r[1].name}.{r[2]}")
        return ("global", name)

    def _gated_len(self, v, depth=0):
        """n when v is a tuple / list literal of n elements or an ite-tree of such with one common n"""
        if v[0] == "ite" and depth < 12:
            a_, b_ = self._gated_len(v[2], depth + 1), self._gated_len(v[3], depth + 1)
            return a_ if a_ is not None and a_ == b_ else None
        if v[0] in ("tuple", "list") and not any(x[0] == "starred" for x in v[1]):
            return len(v[1])
        return None

    def _tuple_leaves(self, v, n, depth=0) -> bool:
        if v[0] == "ite" and depth < 12:
            return self._tuple_leaves(v[2], n, depth + 1) and self._tuple_leaves(v[3], n, depth + 1)
        return v == ("const", None) or (v[0] in ("tuple", "list") and len(v[1]) == n and not any(x[0] == "starred" for x in v[1]))

    def _record(self, t: Term):
        """{field: term} when `t` constructs a record class (NamedTuple / plain dataclass) from known arguments"""
        if isinstance(t, tuple) and t and t[0] == "call" and t[1][0] == "meth" and t[1][2] == "_make" and t[1][1][0] == "global" and t[1][1][1] in self.prog.classes \
                and len(t[2]) == 1 and not t[3] and self.prog.is_namedtuple(self.prog.classes[t[1][1][1]]):
            # Record._make(values): the record of the positions of `values`
            c = self.prog.classes[t[1][1][1]]
            fields = self.prog.record_fields(c) or []
            src = t[2][0]
            vals = list(src[1]) if src[0] in ("tuple", "list") and len(src[1]) == len(fields) else [field_read(src, i) or ("item", src, i) for i in range(len(fields))]
            out = {f: v for (f, _d), v in zip(fields, vals)}
            out["__order__"] = [f for f, _d in fields]
            out["__tuple__"] = True
            return out if fields else None
        if not (isinstance(t, tuple) and t and t[0] == "call" and t[1][0] == "func" and t[1][1] in self.prog.classes):
            return None
        c = self.prog.classes[t[1][1]]
        fields = self.prog.record_fields(c)
        if fields is None or any(a[0] == "starred" for a in t[2]) or len(t[2]) > len(fields):
            return None
        out = {}
        kw = dict(t[3]) if t[3] else {}
        if "**" in kw:
            return None
        for i, (f, default) in enumerate(fields):
            if i < len(t[2]):
                out[f] = t[2][i]
            elif f in kw:
                out[f] = kw[f]
            elif default is not None:
                try:
                    out[f] = lit(self.prog.fold(default, c.module, c))
                except Exception:
                    return None
            else:
                return None
        out["__order__"] = [f for f, _d in fields]
        out["__tuple__"] = self.prog.is_namedtuple(c)
        return out

    def _attr(self, base: Term, name: str) -> Term:
        if is_const(base) and isinstance(base[1], tuple) and len(base[1]) == 2 and base[1][0] == "struct.Struct" and name in ("size", "format"):
            import struct as _st
            try:
                return const(_st.calcsize(base[1][1]) if name == "size" else base[1][1])
            except _st.error:
                pass
        if is_const(base) and isinstance(base[1], slice) and name in ("start", "stop", "step"):
            return const(getattr(base[1], name))
        if base[0] == "enum" and name in ("value", "name"):
            return const(base[3] if name == "value" else base[2])          # Member.value / Member.name
        rec = self._record(base)
        if rec is not None and name in rec:
            return rec[name]
        if base[0] == "ite" and (self._record(base[2]) is not None or self._record(base[3]) is not None):
            # (R(..) if c else None).field is R(..).field under c: the projection goes through the gate of an Optional record
            return ("ite", base[1], self._attr(base[2], name), self._attr(base[3], name))
        if rec is not None and self.inline_depth < 4:
            # a property of a record class: its getter applied to the record
            cq = base[1][1] if base[1][0] == "func" else base[1][1][1]
            pm = self.prog.lookup_method(self.prog.classes[cq], name) if cq in self.prog.classes else None
            if pm is not None and pm.kind == "property" and pm.params:
                try:
                    return summarize(self.prog, pm, {pm.params[0]: base}, depth=self.inline_depth + 1).return_term()
                except (AnalysisError, RecursionError):
                    pass
        # class / module attribute constants fold
        if base[0] == "global":
            q = base[1]
            if q in self.prog.classes:
                c = self.prog.classes[q]
                if name in c.nested:
                    return ("global", c.nested[name].qual)
                f = self.prog.lookup_method(c, name)
                if f:
                    return ("global", f.qual)
                if self.prog.is_enum(c):
                    mem = self.prog.enum_members(c)
                    if name in mem:
                        return ("enum", c.qual, name, mem[name])
                a = self.prog.lookup_class_attr(c, name)
                if a is not None:
                    try:
                        return lit(self.prog.fold(a[1], a[0].module, a[0]))
                    except Exception:
                        return ("attr", base, name)
            elif q in self.prog.modules:
                r = self.prog._resolve_import(q, name)
                if isinstance(r, (ClassInfo, FuncInfo)):
                    return ("global", r.qual)
                if isinstance(r, Module):
                    return ("global", r.name)
                if isinstance(r, External):
                    return ("global", r.name)
                if isinstance(r, tuple) and r[0] == "modconst":
                    try:
                        return const(self.prog.fold(self.prog.module_assigns(r[1])[r[2]], r[1]))
                    except Exception:
                        pass
                return ("global", f"{q}.{name}")
            else:
                if f"{q}.{name}" in LIBRARY_CONSTANTS:
                    return const(LIBRARY_CONSTANTS[f"{q}.{name}"])
                return ("global", f"{q}.{name}")
        return ("attr", base, name)

    def _ev(self, e, st: State) -> Term:
        if e is None:
            return const(None)
        if isinstance(e, ast.Constant):
            return const(e.value)
        if isinstance(e, ast.Name):
            if e.id in st.env:
                return st.env[e.id]
            if e.id in self.assigned:
                return ("top", f"unbound {e.id}")
            return self._global(e.id)
        if isinstance(e, ast.Attribute):
            k = self.key_of(e)
            if k and k in st.env:
                return st.env[k]
            base = self.ev(e.value, st)
            # self.CONST / cls.CONST fold through the class
            if base[0] == "param" and self.cls is not None and self.param_names and base[1] == self.param_names[0] \
                    and self.fn.kind in ("method", "classmethod", "property", "setter"):
                a = self.prog.lookup_class_attr(self.cls, e.attr)
                if a is not None and e.attr.isupper() and isinstance(a[1], ast.DictComp) and len(a[1].generators) == 1 and not a[1].generators[0].ifs \
                        and isinstance(a[1].generators[0].target, ast.Name) and isinstance(a[1].key, ast.Name) and a[1].key.id == a[1].generators[0].target.id \
                        and a[0].module is self.m and self.inline_depth < 4:
                    # a table precomputed at class level, {k: f(k) for k in <range>}: kept as the comprehension it is (a lookup is then f at that key)
                    saved = self.record
                    self.record = False
                    try:
                        t_ = self.ev(a[1], State({}))
                        if t_[0] == "comp" and is_const(t_[3][0][1]) and isinstance(t_[3][0][1][1], range):
                            return t_
                    except AnalysisError:
                        pass
                    finally:
                        self.record = saved
                if a is not None and e.attr.isupper():
                    try:
                        return const(self.prog.fold(a[1], a[0].module, a[0]))
                    except Exception:
                        pass
                    # a class-level literal table whose entries are not plain constants (classes, functions), never rebound or mutated
                    def plain(v):
                        return isinstance(v, (ast.Name, ast.Attribute, ast.Constant)) or (isinstance(v, (ast.Tuple, ast.List)) and all(plain(x) for x in v.elts))
                    if isinstance(a[1], (ast.Dict, ast.Tuple, ast.List)) and len(getattr(a[1], "keys", getattr(a[1], "elts", []))) <= 24 and a[0].module is self.m \
                            and all(plain(v) for v in (a[1].values if isinstance(a[1], ast.Dict) else a[1].elts)):
                        nm = e.attr
                        touched = any((isinstance(n, ast.Attribute) and n.attr == nm and isinstance(n.ctx, (ast.Store, ast.Del))) or
                                      (isinstance(n, ast.Attribute) and n.attr in MUTATORS and isinstance(n.value, ast.Attribute) and n.value.attr == nm) or
                                      (isinstance(n, ast.Subscript) and isinstance(n.ctx, (ast.Store, ast.Del)) and isinstance(n.value, ast.Attribute) and n.value.attr == nm)
                                      for n in ast.walk(self.m.tree))
                        if not touched:
                            saved = self.record
                            self.record = False
                            try:
                                return self.ev(a[1], State({}))
                            except AnalysisError:
                                pass
                            finally:
                                self.record = saved
                if e.attr in self.cls.nested:
                    return ("global", self.cls.nested[e.attr].qual)
                for k2 in self.prog.mro(self.cls):
                    if e.attr in k2.nested:
                        return ("global", k2.nested[e.attr].qual)
                # a property the rules do not know (cut out of a condition by a refactoring): its getter applied to the current state
                pm = self.prog.lookup_method(self.cls, e.attr)
                if pm is not None and pm.kind == "property" and pm.params and not self.prog.is_known(pm.qual) and pm.qual != self.fn.qual \
                        and self.inline_depth < 4 and isinstance(e.ctx, ast.Load):
                    try:
                        rt = summarize(self.prog, pm, {pm.params[0]: base}, depth=self.inline_depth + 1).return_term()
                    except (AnalysisError, RecursionError):
                        rt = None
                    if rt is not None:
                        recv = base[1]
                        mapping = {("attr", base, k[len(recv) + 1:]): v for k, v in st.env.items()
                                   if k.startswith(recv + ".") and "." not in k[len(recv) + 1:] and v != ("attr", base, k[len(recv) + 1:])}
                        return replace(rt, mapping) if mapping else rt
            return self._attr(base, e.attr)
        if isinstance(e, ast.Subscript):
            base = self.ev(e.value, st)
            if isinstance(e.slice, ast.Slice):
                lo = self.ev(e.slice.lower, st) if e.slice.lower else None
                hi = self.ev(e.slice.upper, st) if e.slice.upper else None
                step = self.ev(e.slice.step, st) if e.slice.step else None
                if lo is None and hi is None and step == const(-1) and base[0] == "call" and base[1][0] == "meth" and base[1][2] == "to_bytes" \
                        and len(base[2]) == 2 and is_const(base[2][1]) and base[2][1][1] in ("little", "big") and not base[3]:
                    # n.to_bytes(k, "little")[::-1] is n.to_bytes(k, "big")
                    return ("call", base[1], (base[2][0], const("big" if base[2][1][1] == "little" else "little")), ())
                return ("slice", base, lo, hi, step)
            idx = self.ev(e.slice, st)
            if is_const(idx) and isinstance(idx[1], slice):
                # x[NAMED_SLICE] with NAMED_SLICE = slice(a, b[, c]) is x[a:b:c]
                sl = idx[1]
                return ("slice", base, None if sl.start is None else const(sl.start), None if sl.stop is None else const(sl.stop),
                        None if sl.step is None else const(sl.step))
            if base[0] in ("tuple", "list") and is_const(idx) and isinstance(idx[1], int) and -len(base[1]) <= idx[1] < len(base[1]):
                return base[1][idx[1]]
            rec = self._record(base) if is_const(idx) and isinstance(idx[1], int) else None
            if rec and rec["__tuple__"] and -len(rec["__order__"]) <= idx[1] < len(rec["__order__"]):
                return rec[rec["__order__"][idx[1]]]
            if base[0] == "dict" and 0 < len(base[1]) <= 12 and all(_table_key(k) for k, _v in base[1]) and not (idx[0] in ("const", "enum")):
                # TABLE[x] for a literal table: v1 if x == k1 else v2 if x == k2 ... (a missing key raises KeyError)
                out = ("top", "KeyError: key not in the table")
                for k, v in reversed(base[1]):
                    out = ("ite", _key_eq(idx, k), v, out)
                return out
            if base[0] == "dict" and idx[0] in ("const", "enum"):
                for k, v in base[1]:
                    if k == idx:
                        return v
            if is_const(base) and isinstance(base[1], (tuple, list)) and 2 <= len(base[1]) <= 4 and not is_const(idx) \
                    and all(isinstance(x, (int, float, bool, str, bytes, type(None))) for x in base[1]):
                # TABLE[i] for a small constant table: the chain  TABLE[0] if i == 0 else TABLE[1] ... (an index outside the table raises)
                out = const(base[1][-1])
                for k_ in range(len(base[1]) - 2, -1, -1):
                    out = ("ite", ("cmp", "==", idx, const(k_)), const(base[1][k_]), out)
                return out
            if is_const(idx) and isinstance(idx[1], int):
                fr = field_read(base, idx[1])
                if fr is not None:
                    return fr
            if (base[0] == "slice" and base[4] is None and is_const(idx) and isinstance(idx[1], int) and not isinstance(idx[1], bool) and idx[1] >= 0
                    and (base[2] is None or (is_const(base[2]) and isinstance(base[2][1], int) and base[2][1] >= 0))
                    and not (base[3] is not None and is_const(base[3]) and isinstance(base[3][1], int) and 0 <= base[3][1] <= (base[2][1] if base[2] else 0) + idx[1])):
                # x[a:b][k] is x[a + k] (where it exists at all)
                return ("sub", base[1], const((base[2][1] if base[2] else 0) + idx[1]))
            return ("sub", base, idx)
        if isinstance(e, ast.BinOp):
            a, b = self.ev(e.left, st), self.ev(e.right, st)
            op = OPS[type(e.op)]
            if is_const(a) and is_const(b):
                try:
                    v = self.prog.fold(ast.BinOp(ast.Constant(a[1]), e.op, ast.Constant(b[1])), self.m)
                    return const(v)
                except Exception:
                    pass
            # integer arithmetic spellings of bit operations: n // 2^k is n >> k, n % 2^k is n & (2^k - 1), n * 2^k is n << k (all ints)
            if op in ("//", "%", "*") and is_const(b) and isinstance(b[1], int) and not isinstance(b[1], bool) and b[1] > 1 and (b[1] & (b[1] - 1)) == 0 \
                    and _integer_valued_loose(a):
                k_ = b[1].bit_length() - 1
                return ("bin", ">>", a, const(k_)) if op == "//" else (("bin", "&", a, const(b[1] - 1)) if op == "%" else ("bin", "<<", a, const(k_)))
            if op in ("|", "+"):
                bc = bytes_compose(("bin", op, a, b))
                if bc is not None:
                    return bc
            return ("bin", op, a, b)
        if isinstance(e, ast.UnaryOp):
            a = self.ev(e.operand, st)
            if is_const(a):
                try:
                    return const(self.prog.fold(ast.UnaryOp(e.op, ast.Constant(a[1])), self.m))
                except Exception:
                    pass
            return ("un", UOPS[type(e.op)], a)
        if isinstance(e, ast.BoolOp):
            vals = [self.ev(v, st) for v in e.values]
            is_and = isinstance(e.op, ast.And)
            # leading constants decide or drop out (short-circuit evaluation): `False and x` is False, `True and x` is x
            while len(vals) > 1 and is_const(vals[0]) and isinstance(vals[0][1], (bool, int, str, bytes, type(None))):
                if bool(vals[0][1]) != is_and:
                    return vals[0]
                vals = vals[1:]
            if len(vals) == 1:
                return vals[0]
            return ("bool", "and" if is_and else "or", tuple(vals))
        if isinstance(e, ast.Compare):
            left = self.ev(e.left, st)
            parts = []
            for op, c in zip(e.ops, e.comparators):
                r = self.ev(c, st)
                if isinstance(op, (ast.In, ast.NotIn)):
                    rec = self._record(r)
                    if rec and rec["__tuple__"]:
                        r = ("tuple", tuple(rec[f] for f in rec["__order__"]))          # membership in a NamedTuple is membership in its fields
                if isinstance(op, (ast.In, ast.NotIn)) and is_const(r) and isinstance(r[1], range) and r[1].step == 1 and _integer_valued(left):
                    # n in range(a, b) for an integer n is a <= n < b
                    rng = ("bool", "and", (("cmp", "<=", const(r[1].start), left), ("cmp", "<", left, const(r[1].stop))))
                    parts.append(rng if isinstance(op, ast.In) else ("un", "not", rng))
                elif isinstance(op, (ast.Is, ast.IsNot)) and r == ("const", None) and left[0] == "ite" and none_test(left) is not None and none_test(left)[0] != "ite":
                    nt = none_test(left)          # `x is None` for a gated x whose alternatives are None or displays: a question about the gates
                    parts.append(nt if isinstance(op, ast.Is) else (("const", not nt[1]) if is_const(nt) else (nt[2] if nt[:2] == ("un", "not") else ("un", "not", nt))))
                elif isinstance(op, (ast.Is, ast.IsNot)) and is_const(left) and is_const(r) and (left[1] is None or r[1] is None) \
                        and all(isinstance(x[1], (bool, int, str, bytes, float, type(None))) for x in (left, r)):
                    parts.append(const((left[1] is None and r[1] is None) == isinstance(op, ast.Is)))          # None is None / 3 is not None
                else:
                    parts.append(("cmp", CMPS[type(op)], left, r))
                left = r
            return parts[0] if len(parts) == 1 else ("bool", "and", tuple(parts))
        if isinstance(e, ast.IfExp):
            return ("ite", self.ev(e.test, st), self.ev(e.body, st), self.ev(e.orelse, st))
        if isinstance(e, (ast.Tuple, ast.List)):
            items = []
            for x in e.elts:
                v = self.ev(x, st)
                if v[0] == "starred" and v[1][0] in ("tuple", "list") and not any(y[0] == "starred" for y in v[1][1]):
                    items += list(v[1][1])          # [a, *(b, c)] is [a, b, c]
                elif v[0] == "starred" and is_const(v[1]) and isinstance(v[1][1], (bytes, tuple, list)) and len(v[1][1]) <= 64:
                    items += [const(y) for y in v[1][1]]          # [a, *bytes(3)] is [a, 0, 0, 0]
                else:
                    items.append(v)
            return ("tuple" if isinstance(e, ast.Tuple) else "list", tuple(items))
        if isinstance(e, ast.Set):
            return ("set", tuple(self.ev(x, st) for x in e.elts))
        if isinstance(e, ast.Dict):
            items = []
            for k, v in zip(e.keys, e.values):
                if k is None:
                    items.append((("splat",), self.ev(v, st)))
                else:
                    items.append((self.ev(k, st), self.ev(v, st)))
            lead = [it for it in items if it[0] != ("splat",)]
            if lead and len(lead) < len(items) and all(it[0] != ("splat",) for it in items[:len(lead)]):
                # {k: v, ..., **more}: the keyed part updated with `more` (later entries win, as in the display)
                out = ("dict", tuple(lead))
                for _k, v in items[len(lead):]:
                    out = ("mut", "update", out, (v,))
                return out
            return ("dict", tuple(items))
        if isinstance(e, ast.Call):
            return self._call(e, st)
        if isinstance(e, ast.Await):
            inner = self.ev(e.value, st)
            if isinstance(e.value, ast.Call) and self._was_inlined(e.value):
                return inner          # the value of an inlined coroutine helper already is its (awaited) result
            return ("await", inner)
        if isinstance(e, (ast.Yield, ast.YieldFrom)):
            return ("yield", self.ev(e.value, st) if e.value else const(None))
        if isinstance(e, ast.NamedExpr):
            v = self.ev(e.value, st)
            self.assign(e.target, v, st)
            return v
        if isinstance(e, ast.JoinedStr):
            parts = []
            plain = True
            for v in e.values:
                if isinstance(v, ast.FormattedValue):
                    parts.append(self.ev(v.value, st))
                    plain = plain and v.format_spec is None and v.conversion == -1
                else:
                    parts.append(self.ev(v, st))
            if plain and all(is_const(x) and isinstance(x[1], (str, int)) and not isinstance(x[1], bool) for x in parts):
                return const("".join(str(x[1]) for x in parts))
            return ("fstr", tuple(parts))
        if isinstance(e, ast.FormattedValue):
            return self.ev(e.value, st)
        if isinstance(e, ast.Lambda):
            sub = st.copy()
            params = [a.arg for a in e.args.posonlyargs + e.args.args]
            for p in params:
                sub.env[p] = ("bound", p)
            return ("lambda", tuple(params), self.ev(e.body, sub), id(e))
        if isinstance(e, (ast.ListComp, ast.GeneratorExp)) and len(e.generators) == 1 and not e.generators[0].is_async:
            # a comprehension over a literal sequence is the sequence of its instances
            g = e.generators[0]
            it = self.ev(g.iter, st)
            items = None
            if it[0] in ("tuple", "list") and not any(x[0] == "starred" for x in it[1]):
                items = list(it[1])
            elif is_const(it) and isinstance(it[1], (tuple, list)):
                items = [const(x) for x in it[1]]
            if items is not None and len(items) <= 16:
                out = []
                for item in items:
                    sub = st.copy()
                    self.assign(g.target, item, sub)
                    conds = [self.ev(c, sub) for c in g.ifs]
                    if any(not is_const(c) for c in conds):
                        # element present only when its condition holds
                        live = [c for c in conds if not is_const(c)]
                        if all(c[1] for c in conds if is_const(c)):
                            out.append(("when", live[0] if len(live) == 1 else ("bool", "and", tuple(live)), self.ev(e.elt, sub)))
                        continue
                    if all(c[1] for c in conds):
                        out.append(self.ev(e.elt, sub))
                if out is not None:
                    return ("list" if isinstance(e, ast.ListComp) else "tuple", tuple(out))
        if isinstance(e, (ast.ListComp, ast.SetComp, ast.GeneratorExp, ast.DictComp)):
            sub = st.copy()
            gens = []
            for g in e.generators:
                it = self.ev(g.iter, sub)
                self._bind_bound(g.target, sub)
                conds = tuple(self.ev(c, sub) for c in g.ifs)
                gens.append((norm(g.target), it, conds))
            if isinstance(e, ast.DictComp):
                elt = ("tuple", (self.ev(e.key, sub), self.ev(e.value, sub)))
            else:
                elt = self.ev(e.elt, sub)
            kind = {ast.ListComp: "list", ast.SetComp: "set", ast.GeneratorExp: "gen", ast.DictComp: "dict"}[type(e)]
            return ("comp", kind, elt, tuple(gens))
        if isinstance(e, ast.Starred):
            return ("starred", self.ev(e.value, st))
        if isinstance(e, ast.Slice):
            return ("sliceidx", self.ev(e.lower, st) if e.lower else None, self.ev(e.upper, st) if e.upper else None,
                    self.ev(e.step, st) if e.step else None)
        raise AnalysisError(f"unsupported expression {type(e).__name__} in {self.fn.qual}: {norm(e)[:80]}")

    def _bind_bound(self, target, st):
        if isinstance(target, ast.Name):
            st.env[target.id] = ("bound", target.id)
        elif isinstance(target, (ast.Tuple, ast.List)):
            for t in target.elts:
                self._bind_bound(t, st)

    def _call(self, e: ast.Call, st: State) -> Term:
        t = self._fold_over_literal(self._call0(e, st))
        return self._call_norm(t, e, st)

    def _fold_over_literal(self, t: Term) -> Term:
        """any / all / sum / functools.reduce(or_ | add | and_ | xor) over a literal sequence (possibly with conditional elements from an
        unrolled comprehension) are the corresponding operator chains"""
        if t[0] != "call" or t[1][0] != "ext" or t[3]:
            return t
        name = t[1][1]
        OPS_ = {"operator.or_": "|", "operator.add": "+", "operator.and_": "&", "operator.xor": "^", "operator.ior": "|", "operator.iadd": "+"}

        def seq_of(x):
            return list(x[1]) if x[0] in ("tuple", "list") and not any(y[0] == "starred" for y in x[1]) else None
        if name in ("any", "all") and len(t[2]) == 1:
            items = seq_of(t[2][0])
            if items is not None and items:
                parts = []
                for it in items:
                    if it[0] == "when":
                        parts.append(("bool", "and", (it[1], it[2])) if name == "any" else ("bool", "or", (("un", "not", it[1]), it[2])))
                    else:
                        parts.append(it)
                return parts[0] if len(parts) == 1 else ("bool", "or" if name == "any" else "and", tuple(parts))
        if (name == "functools.reduce" and 2 <= len(t[2]) <= 3 and t[2][0][0] == "global" and t[2][0][1] in OPS_) or (name == "sum" and 1 <= len(t[2]) <= 2):
            op = OPS_[t[2][0][1]] if name == "functools.reduce" else "+"
            seq = t[2][1] if name == "functools.reduce" else t[2][0]
            init = (t[2][2] if len(t[2]) == 3 else None) if name == "functools.reduce" else (t[2][1] if len(t[2]) == 2 else const(0))
            items = seq_of(seq)
            neutral = {"|": 0, "+": 0, "^": 0}.get(op)
            if items is not None and (neutral is not None or not any(it[0] == "when" for it in items)) and (init is not None or items):
                acc = init
                for it in items:
                    v = ("ite", it[1], it[2], const(neutral)) if it[0] == "when" else it
                    acc = v if acc is None else (v if (is_const(acc) and acc[1] == neutral and neutral is not None and not isinstance(acc[1], bool)) else ("bin", op, acc, v))
                return acc
        return t

    def _affine_table(self, d):
        """(lo, hi, c) when the literal dict term d maps every integer k of lo..hi to k + c"""
        if d[0] != "dict" or len(d[1]) < 2 or not all(is_const(k) and isinstance(k[1], int) and not isinstance(k[1], bool) and is_const(v) and isinstance(v[1], int)
                                                       and not isinstance(v[1], bool) for k, v in d[1]):
            return None
        ks = sorted(k[1] for k, _v in d[1])
        if ks != list(range(ks[0], ks[-1] + 1)) or len({v[1] - k[1] for k, v in d[1]}) != 1:
            return None
        return ks[0], ks[-1], d[1][0][1][1] - d[1][0][0][1]

    def _call_norm(self, t: Term, e: ast.Call, st: State) -> Term:
        if t[0] == "call" and t[1] == ("ext", "range") and 1 <= len(t[2]) <= 3 and not t[3] and \
                all(is_const(a) and isinstance(a[1], int) and not isinstance(a[1], bool) for a in t[2]) and (len(t[2]) < 3 or t[2][2][1] != 0):
            return const(range(*[a[1] for a in t[2]]))          # a range with constant bounds
        if t[0] == "call" and t[1] == ("ext", "itertools.compress") and len(t[2]) == 2 and not t[3]:
            # compress((a, b), (p, q)): a if p, b if q
            def items(x):
                if x[0] in ("tuple", "list") and not any(y[0] in ("starred", "when") for y in x[1]):
                    return list(x[1])
                if is_const(x) and isinstance(x[1], (tuple, list)):
                    return [const(y) for y in x[1]]
                return None
            d_, s_ = items(t[2][0]), items(t[2][1])
            if d_ is not None and s_ is not None:
                return ("tuple", tuple(("when", sel, dat) if not is_const(sel) else dat for dat, sel in zip(d_, s_) if not (is_const(sel) and not sel[1])))
        if t[0] == "call" and t[1][0] == "meth" and t[1][2] == "join" and is_const(t[1][1]) and t[1][1][1] in (b"", "") and len(t[2]) == 1 and not t[3] \
                and t[2][0][0] in ("tuple", "list") and t[2][0][1] and not any(x[0] in ("starred", "when") for x in t[2][0][1]):
            # b"".join((a, b, c)) is a + b + c
            out = t[2][0][1][0]
            for x in t[2][0][1][1:]:
                out = ("bin", "+", out, x)
            return out
        if t[0] == "call" and t[1][0] == "meth" and t[1][2] in ("digest", "hexdigest") and not t[2] and not t[3] and t[1][1][0] == "mut" and t[1][1][1] == "update":
            # h = hashlib.md5(a); h.update(b); h.update(c); h.digest() is hashlib.md5(a + b + c).digest()
            parts, cur = [], t[1][1]
            while cur[0] == "mut" and cur[1] == "update" and len(cur[3]) == 1:
                parts.append(cur[3][0])
                cur = cur[2]
            if cur[0] == "call" and cur[1][0] == "ext" and cur[1][1].startswith("hashlib.") and len(cur[2]) <= 1 and not cur[3]:
                parts = list(cur[2]) + parts[::-1]
                whole = parts[0]
                for x in parts[1:]:
                    whole = ("bin", "+", whole, x)
                return self._outline(("call", ("meth", ("call", cur[1], (whole,), ()), t[1][2]), (), ()))
        if t[0] == "call" and t[1] == ("ext", "isinstance") and len(t[2]) == 2 and not t[3] and t[2][1][0] == "bin" and t[2][1][1] == "|":
            # isinstance(x, A | B) is isinstance(x, (A, B))
            def union(u):
                return union(u[2]) + union(u[3]) if u[0] == "bin" and u[1] == "|" else [u]
            t = ("call", t[1], (t[2][0], ("tuple", tuple(union(t[2][1])))), ())
        if t[0] == "call" and t[1] == ("ext", "next") and 1 <= len(t[2]) <= 2 and not t[3] and t[2][0][0] == "comp" and t[2][0][1] == "gen" \
                and len(t[2][0][3]) == 1 and t[2][0][3][0][2]:
            # next((elt for x in xs if cond), default): the element the search stops at - some element x of xs for which cond holds - or
            # the default when there is none (the shape a `for x in xs: if cond: r = elt; break` search has)
            comp = t[2][0]
            var, xs, conds = comp[3][0]
            x = ("iter", xs)
            sub_ = {("bound", var): x}
            cond = replace(conds[0] if len(conds) == 1 else ("bool", "and", tuple(conds)), sub_)
            return ("ite", cond, replace(comp[2], sub_), t[2][1] if len(t[2]) == 2 else ("top", "StopIteration"))
        if t[0] == "call" and t[1][0] == "meth" and t[1][2] == "_asdict" and not t[2] and not t[3]:
            rec = self._record(t[1][1])
            if rec and rec["__tuple__"]:
                return ("dict", tuple((const(f), rec[f]) for f in rec["__order__"]))          # NamedTuple(...)._asdict() is the mapping of its fields
        if t[0] == "call" and t[1] == ("ext", "map") and len(t[2]) == 2 and not t[3]:
            # map(f, xs) is (f(x) for x in xs)
            f, xs = t[2]
            x = ("bound", "λm")
            elt = None
            if f[0] == "attr":
                elt = self._call_norm(("call", ("meth", f[1], f[2]), (x,), ()), e, st)
            elif f[0] == "global":
                elt = ("call", ("func" if (f[1] in self.prog.funcs or f[1] in self.prog.classes) else "ext", f[1]), (x,), ())
            if elt is not None:
                return ("comp", "gen", elt, (("λm", xs, ()),))
        if t[0] == "call" and t[1][0] == "meth" and is_const(t[1][1]) and isinstance(t[1][1][1], dict):
            t = ("call", ("meth", lit(t[1][1][1]), t[1][2]), t[2], t[3])          # a folded table is a dict term
        if t[0] == "call" and t[1][0] == "meth" and t[1][2] == "get" and 1 <= len(t[2]) <= 2 and not t[3] and len(t[1][1]) > 1 and t[1][1][0] == "dict" \
                and len(t[1][1][1]) > 12 and self._affine_table(t[1][1]) is not None and _integer_valued_loose(t[2][0]):
            # TABLE.get(x[, d]) for a table that is k -> k + c on a range: (x + c) if lo <= x <= hi else d
            lo, hi, c = self._affine_table(t[1][1])
            x = t[2][0]
            inside = ("bool", "and", (("cmp", "<=", const(lo), x), ("cmp", "<=", x, const(hi))))
            return ("ite", inside, x if c == 0 else ("bin", "+" if c > 0 else "-", x, const(abs(c))), t[2][1] if len(t[2]) == 2 else const(None))
        if t[0] == "call" and t[1] == ("ext", "bytes") and len(t[2]) == 1 and not t[3] and is_const(t[2][0]) and isinstance(t[2][0][1], int) \
                and not isinstance(t[2][0][1], bool) and 0 <= t[2][0][1] <= 64:
            return const(bytes(t[2][0][1]))          # bytes(n): n zero bytes
        if t[0] == "call" and t[1] == ("ext", "slice") and 1 <= len(t[2]) <= 3 and not t[3] and \
                all(is_const(a) and (a[1] is None or (isinstance(a[1], int) and not isinstance(a[1], bool))) for a in t[2]):
            return const(slice(*[a[1] for a in t[2]]))          # a slice object with constant bounds
        if t[0] == "call" and t[1] == ("ext", "len") and len(t[2]) == 1 and not t[3] and t[2][0][0] in ("tuple", "list") \
                and not any(x[0] == "starred" for x in t[2][0][1]):
            return const(len(t[2][0][1]))
        if t[0] == "call" and t[1] == ("ext", "len") and len(t[2]) == 1 and not t[3] and is_const(t[2][0]) and isinstance(t[2][0][1], (bytes, str)):
            return const(len(t[2][0][1]))
        if t[0] == "call" and t[1][0] == "meth" and t[1][2] == "get" and t[1][1][0] == "dict" and 1 <= len(t[2]) <= 2 and not t[3] \
                and 0 < len(t[1][1][1]) <= 12 and all(_table_key(k) for k, _v in t[1][1][1]):
            # {k1: v1, k2: v2}.get(x, d): a dispatch table is the chain  v1 if x == k1 else v2 if x == k2 else d
            out = t[2][1] if len(t[2]) == 2 else const(None)
            for k, v in reversed(t[1][1][1]):
                out = ("ite", _key_eq(t[2][0], k), v, out)
            return out
        if t[0] == "call" and t[1][0] == "meth" and t[1][2] == "get" and t[1][1][0] == "comp" and t[1][1][1] == "dict" and 1 <= len(t[2]) <= 2 and not t[3] \
                and len(t[1][1][3]) == 1 and not t[1][1][3][0][2] and t[1][1][2][0] == "tuple" and t[1][1][2][1][0] == ("bound", t[1][1][3][0][0]) \
                and is_const(t[1][1][3][0][1]) and isinstance(t[1][1][3][0][1][1], range) and t[1][1][3][0][1][1].step == 1 and _integer_valued_loose(t[2][0]):
            # {k: E(k) for k in range(a, b)}.get(x, d) is E(x) if a <= x < b else d
            comp_, x_ = t[1][1], t[2][0]
            rng_ = comp_[3][0][1][1]
            inside = ("bool", "and", (("cmp", "<=", const(rng_.start), x_), ("cmp", "<", x_, const(rng_.stop))))
            return ("ite", inside, replace(comp_[2][1][1], {("bound", comp_[3][0][0]): x_}), t[2][1] if len(t[2]) == 2 else const(None))
        if t[0] == "call" and t[1][0] == "meth" and t[1][2] in ("pack", "unpack", "unpack_from", "iter_unpack") and is_const(t[1][1]) \
                and isinstance(t[1][1][1], tuple) and len(t[1][1][1]) == 2 and t[1][1][1][0] == "struct.Struct":
            # S = struct.Struct(fmt); S.unpack_from(buf, off) is struct.unpack_from(fmt, buf, off)
            t = ("call", ("ext", f"struct.{t[1][2]}"), (const(t[1][1][1][1]),) + t[2], t[3])
        if t[0] == "call" and t[1][0] == "meth" and t[1][2] == "format" and is_const(t[1][1]) and isinstance(t[1][1][1], str) and not t[3]:
            # "a{}b{}".format(x, y) with automatic fields only is the f-string f"a{x}b{y}"
            import string
            try:
                fields = list(string.Formatter().parse(t[1][1][1]))
            except ValueError:
                fields = None
            if fields is not None and all(fn in (None, "") and not spec and conv is None for _lit, fn, spec, conv in fields) \
                    and sum(1 for _l, fn, _s, _c in fields if fn == "") == len(t[2]):
                parts, k = [], 0
                for lit_, fn, _spec, _conv in fields:
                    if lit_:
                        parts.append(const(lit_))
                    if fn == "":
                        parts.append(t[2][k])
                        k += 1
                return ("fstr", tuple(parts))
        if t[0] == "call" and t[1] == ("ext", "str") and (len(t[2]) >= 2 or (len(t[2]) == 1 and dict(t[3]).get("encoding") is not None)):
            # str(buffer, encoding) decodes the buffer: buffer.decode(encoding)
            enc = t[2][1] if len(t[2]) >= 2 else dict(t[3])["encoding"]
            t = ("call", ("meth", t[2][0], "decode"), (enc,), ())
        if t[0] == "call" and t[1] == ("ext", "math.trunc") and len(t[2]) == 1 and not t[3]:
            t = ("call", ("ext", "int"), t[2], ())            # on numbers math.trunc(x) is int(x)
        if t[0] == "call" and t[1] == ("ext", "int") and len(t[2]) == 1 and len(t[3]) == 1 and t[3][0][0] == "base":
            return ("call", t[1], (t[2][0], t[3][0][1]), ())                # int(x, base=b) is int(x, b)
        if t[0] == "call" and t[1] == ("ext", "dict") and len(t[2]) == 1 and not t[3] and t[2][0][0] == "comp" and t[2][0][1] in ("list", "gen") \
                and t[2][0][2][0] in ("tuple", "list") and len(t[2][0][2][1]) == 2 and not any(x[0] in ("starred", "when") for x in t[2][0][2][1]):
            # dict((k, v) for x in xs) / dict([(k, v) for x in xs]) is {k: v for x in xs}
            return ("comp", "dict", ("tuple", tuple(t[2][0][2][1])), t[2][0][3])
        if t[0] == "call" and t[1] == ("ext", "dict") and not t[2] and t[3] and all(isinstance(k, str) for k, _v in t[3]):
            return ("dict", tuple((const(k), v) for k, v in t[3]))       # dict(a=x) is {"a": x}
        if t[0] == "call" and t[1] == ("ext", "int.from_bytes") and t[3]:
            kw = dict(t[3])
            if "byteorder" in kw and len(t[2]) == 1:
                t = ("call", t[1], t[2] + (kw.pop("byteorder"),), tuple(sorted(kw.items())))
            elif "bytes" in kw and not t[2] and "byteorder" in kw:
                t = ("call", t[1], (kw.pop("bytes"), kw.pop("byteorder")), tuple(sorted(kw.items())))
            if dict(t[3]).get("signed") == const(False):
                t = ("call", t[1], t[2], tuple(kv for kv in t[3] if kv[0] != "signed"))
        if t[0] == "call" and t[1][0] == "meth" and t[1][2] == "to_bytes" and is_const(t[1][1]) and isinstance(t[1][1][1], int) and not isinstance(t[1][1][1], bool) \
                and 1 <= len(t[2]) <= 2 and all(is_const(a_) for a_ in t[2]) and all(is_const(v_) for _k, v_ in t[3]):
            # <constant>.to_bytes(n, order): the bytes themselves (a defaulted field such as `message_id=0`)
            try:
                kw_ = {k_: v_[1] for k_, v_ in t[3]}
                return const(t[1][1][1].to_bytes(*[a_[1] for a_ in t[2]], **kw_))
            except (TypeError, ValueError, OverflowError):
                pass
        if t[0] == "call" and t[1][0] == "func" and t[1][1] in self.prog.funcs and not self.prog.is_known(t[1][1]):
            r = self.inline(e, t, st)
            if r is not None:
                self._inlined_calls.add(id(e))
                return self._outline(r)
        if t[0] == "call" and t[1][0] == "dyn" and t[1][1][0] == "localfunc" and t[1][1][1] in self._local_funcs:
            # a nested function that closes over nothing of the enclosing function is a helper like any other
            lf = self._local_fn(t[1][1][1])
            if lf is not None:
                r = self.inline(e, ("call", ("func", lf.qual), t[2], t[3]), st, callee=lf)
                if r is not None:
                    return r
        return self._outline(t)

    # functions of the package whose one-expression body the rules know by the function's name: a term that *is* that body (the call was
    # written out, or reached through a new helper that was seen through) is the function applied to the same arguments
    OUTLINED = ("msmart.lan.Security.sign", "msmart.frame.Frame.checksum")

    def _outline(self, t: Term) -> Term:
        if not (isinstance(t, tuple) and t and t[0] in ("call", "bin")):
            return t
        for q in self.OUTLINED:
            f = self.prog.funcs.get(q)
            if f is None or self.fn is None or self.fn.qual == q or q in _SUMMARIZING or self.inline_depth > 6:
                continue
            cache = self.prog.__dict__.setdefault("_outline_templates", {})
            if q not in cache:
                cache[q] = None
                try:
                    cache[q] = summarize(self.prog, f).return_term()
                except (AnalysisError, RecursionError):
                    pass
            tmpl = cache[q]
            if tmpl is None or tmpl[0] != t[0] or (t[0] == "call" and (tmpl[1][0] != t[1][0] or (t[1][0] == "meth" and tmpl[1][2] != t[1][2]))) \
                    or (t[0] == "bin" and tmpl[1] != t[1]):
                continue
            holes = [p for p in f.params if not (f.kind in ("method", "classmethod") and p == f.params[0])]
            bind = {}

            def unify(a, b):
                if isinstance(a, tuple) and len(a) == 2 and a[0] == "param" and a[1] in holes:
                    if a[1] in bind:
                        return bind[a[1]] == b
                    bind[a[1]] = b
                    return True
                if isinstance(a, tuple) and isinstance(b, tuple):
                    return len(a) == len(b) and all(unify(x, y) for x, y in zip(a, b))
                return a == b
            if unify(tmpl, t) and set(bind) == set(holes):
                recv = ((("global", f.cls.qual),) if f.cls is not None and f.kind in ("method", "classmethod") else ())
                return ("call", ("func", q), recv + tuple(bind[h] for h in holes), ())
        return t

    def _was_inlined(self, call_node) -> bool:
        return id(call_node) in self._inlined_calls

    def _local_fn(self, name: str) -> Optional[FuncInfo]:
        node = self._local_funcs[name]
        if not isinstance(node, ast.FunctionDef):
            return None
        a = node.args
        own = {x.arg for x in a.posonlyargs + a.args + a.kwonlyargs} | ({a.vararg.arg} if a.vararg else set()) | ({a.kwarg.arg} if a.kwarg else set())
        own |= {n.id for n in ast.walk(node) if isinstance(n, ast.Name) and isinstance(n.ctx, ast.Store)}
        own |= {n.name for n in ast.walk(node) if isinstance(n, ast.ExceptHandler) and n.name}
        free = {n.id for n in ast.walk(node) if isinstance(n, ast.Name) and isinstance(n.ctx, ast.Load)} - own
        captured = free & (set(self.assigned) | set(self.param_names))
        if any(isinstance(n, (ast.Nonlocal, ast.Global, ast.Yield, ast.YieldFrom, ast.Lambda)) for n in ast.walk(node)):
            return None
        if captured:
            # only constants of the enclosing function may be captured: names bound exactly once, at its top level, to a literal
            consts = {}
            for st_ in self.fn.node.body:
                if isinstance(st_, ast.Assign) and len(st_.targets) == 1:
                    tg, vals = st_.targets[0], st_.value
                    pairs = [(tg, vals)] if isinstance(tg, ast.Name) else (list(zip(tg.elts, vals.elts)) if isinstance(tg, ast.Tuple) and isinstance(vals, ast.Tuple)
                                                                           and len(tg.elts) == len(vals.elts) else [])
                    for t_, v_ in pairs:
                        if isinstance(t_, ast.Name):
                            consts[t_.id] = v_
            stores = {}
            for n in ast.walk(self.fn.node):
                if isinstance(n, ast.Name) and isinstance(n.ctx, ast.Store):
                    stores[n.id] = stores.get(n.id, 0) + 1
            for c in captured:
                if c not in consts or stores.get(c, 0) != 1 or c in self.param_names:
                    return None
                try:
                    self.prog.fold(consts[c], self.m, self.cls)
                except Exception:
                    return None
            self._closure_consts[name] = {c: const(self.prog.fold(consts[c], self.m, self.cls)) for c in captured}
        return FuncInfo(name=name, qual=f"{self.fn.qual}.<locals>.{name}", module=self.m, node=node, cls=None, kind="function")

    def inline(self, e: ast.Call, t: Term, st: State, callee: Optional[FuncInfo] = None) -> Optional[Term]:
        """See through a helper the rules do not know (extracted by a refactoring): its return value replaces the call,
        its guard conditions join the caller's path condition, its raises become raises of the calling statement and
        its stores to `self` / mutated arguments are applied to the caller's environment."""
        callee = callee or self.prog.funcs[t[1][1]]
        yields = [n for n in ast.walk(callee.node) if isinstance(n, (ast.Yield, ast.YieldFrom))]
        if self.inline_depth >= 4 or callee.qual == self.fn.qual or callee.is_async and yields:
            return None
        if yields:
            # a generator function whose whole body is `for x in xs: yield elt` is the generator expression (elt for x in xs)
            body = [b for b in callee.node.body if not (isinstance(b, ast.Expr) and isinstance(b.value, ast.Constant))]
            lp = body[0] if len(body) == 1 else None
            if not (isinstance(lp, ast.For) and not lp.orelse and len(lp.body) == 1 and isinstance(lp.body[0], ast.Expr) and isinstance(lp.body[0].value, ast.Yield)
                    and lp.body[0].value.value is not None and len(yields) == 1):
                return None
            gen = ast.GeneratorExp(elt=lp.body[0].value.value, generators=[ast.comprehension(target=lp.target, iter=lp.iter, ifs=[], is_async=0)])
            fn2 = ast.FunctionDef(name=callee.node.name, args=callee.node.args, body=[ast.Return(value=gen)], decorator_list=[], returns=None, type_comment=None)
            ast.copy_location(fn2, callee.node)
            ast.copy_location(fn2.body[0], lp)
            ast.copy_location(gen, lp)
            ast.fix_missing_locations(fn2)
            callee = FuncInfo(name=callee.name, qual=callee.qual + ".<as generator expression>", module=callee.module, node=fn2, cls=callee.cls, kind=callee.kind)
        amap = bind_args(callee, t[2], t[3])
        for c_, v_ in self._closure_consts.get(callee.name, {}).items() if callee.qual.startswith(self.fn.qual + ".<locals>.") else ():
            amap["<closure>" + c_] = v_
        # defaults for parameters that were not passed
        a = callee.node.args
        pos = a.posonlyargs + a.args
        for p, d in list(zip(pos[len(pos) - len(a.defaults):], a.defaults)) + [(p, d) for p, d in zip(a.kwonlyargs, a.kw_defaults) if d is not None]:
            if p.arg not in amap and isinstance(d, ast.Constant):
                amap[p.arg] = const(d.value)
        try:
            sub = summarize(self.prog, callee, amap, depth=self.inline_depth + 1)
        except RecursionError:
            return None
        # the callee reads the caller's *current* attribute values: ('attr', <argument>, name) -> caller's env entry
        amap_keys = {}
        pos_names = [x.arg for x in pos]
        off0 = 1 if len(t[2]) == len(e.args) + 1 else 0
        if off0 and pos_names and self.param_names and isinstance(e.func, ast.Attribute):
            fv0 = e.func.value
            k00 = self.param_names[0] if (isinstance(fv0, ast.Call) and isinstance(fv0.func, ast.Name) and fv0.func.id == "super") else self.key_of(fv0)
            if k00:
                amap_keys[pos_names[0]] = k00
        for i, an in enumerate(e.args):
            k = self.key_of(an)
            if k and i + off0 < len(pos_names):
                amap_keys[pos_names[i + off0]] = k
        mapping = {}
        for pname, ckey in amap_keys.items():
            base = amap.get(pname)
            if base is None:
                continue
            for k, v in st.env.items():
                if k.startswith(ckey + ".") and "." not in k[len(ckey) + 1:]:
                    at = ("attr", base, k[len(ckey) + 1:])
                    if v != at:
                        mapping[at] = v

        def here(x):
            return replace(x, mapping) if mapping else x

        def here_pc(pc):
            return tuple((here(c), tr) for c, tr in pc) if mapping else pc
        rets = [(here_pc(pc), here(tm), State({k: here(v) for k, v in rst.env.items()}, here_pc(rst.pc)) if mapping else rst) for pc, tm, node, rst in sub.returns]
        for pc, exc, node, rst in sub.raises:
            self._inl.append(("raise", here_pc(pc), exc))
        if not rets:
            self._inl.append(("never", (), None))
            return ("top", f"{callee.qual} never returns")
        # common prefix of the normal-return path conditions holds after the call
        common = list(rets[0][0])
        for pc, _tm, _r in rets[1:]:
            k = 0
            while k < len(common) and k < len(pc) and common[k] == pc[k]:
                k += 1
            common = common[:k]
        self._inl.append(("normal", tuple(common), None))
        value = here(sub.return_term(gate_last=bool(sub.raises) and OPTIONS["gate_last"])) if len(rets) > 1 else rets[0][1]
        # a locally built object that the helper returns keeps the attributes the helper stored on it
        self._returned_obj = None
        rnodes = [node for _pc, _tm, node, _r in sub.returns if node is not None]
        if len(rets) == 1 and len(rnodes) == 1 and isinstance(getattr(rnodes[0], "value", None), ast.Name):
            rn = rnodes[0].value.id
            attrs = {k[len(rn) + 1:]: v for k, v in rets[0][2].env.items() if k.startswith(rn + ".") and "." not in k[len(rn) + 1:]}
            if attrs and rn not in [x.arg for x in pos]:
                self._returned_obj = (value, attrs)
        # side effects on the receiver / mutated arguments (single or agreeing final environments)
        names = [x.arg for x in pos]
        arg_keys = {}
        off = 0
        if len(t[2]) == len(e.args) + 1:      # receiver prepended
            off = 1
            fv = e.func.value if isinstance(e.func, ast.Attribute) else None
            k0 = self.key_of(fv) if fv is not None and not (isinstance(fv, ast.Call)) else (self.param_names[0] if self.param_names else None)
            if isinstance(fv, ast.Call) and isinstance(fv.func, ast.Name) and fv.func.id == "super":
                k0 = self.param_names[0] if self.param_names else None
            if k0 and names:
                arg_keys[names[0]] = k0
        for i, an in enumerate(e.args):
            k = self.key_of(an)
            if k and i + off < len(names):
                arg_keys[names[i + off]] = k
        envs = [r[2].env for r in rets]
        for pname, ckey in arg_keys.items():
            keys = set()
            for env in envs:
                keys |= {k for k in env if k == pname or k.startswith(pname + ".")}
            for k in keys:
                vals = [env.get(k) for env in envs]
                base = amap.get(pname)
                if k == pname:
                    if all(v is not None and v != base for v in vals) and all(v == vals[0] for v in vals) and vals[0][0] in ("mut", "store", "bin"):
                        st.env[ckey] = vals[0]
                    continue
                if all(v is not None for v in vals) and all(v == vals[0] for v in vals):
                    st.env[ckey + k[len(pname):]] = vals[0]
                elif any(v is not None for v in vals):
                    cur = st.env.get(ckey + k[len(pname):], ("attr", st.env.get(ckey, ("param", ckey)), k[len(pname) + 1:]))
                    acc = None
                    for (pc, _tm, _r), v in zip(rets, vals):
                        v = v if v is not None else cur
                        acc = v if acc is None else ("ite", pc_term(pc), v, acc) if v != acc else acc
                    st.env[ckey + k[len(pname):]] = acc
        return value

    def _dyn_call(self, v, args, kwargs) -> Term:
        def leaves(x):
            return leaves(x[2]) + leaves(x[3]) if x[0] == "ite" else [x]
        if v[0] == "call" and v[1][0] == "ext" and v[1][1] in ("operator.itemgetter", "operator.attrgetter") and v[2] and not v[3] and all(is_const(a) for a in v[2]):
            v = const((v[1][1], tuple(a[1] for a in v[2])))          # itemgetter("a", "b")(x): the getter object applied at once
        if v[0] == "attr" and is_const(v[1]) and isinstance(v[1][1], tuple) and len(v[1][1]) == 2 and v[1][1][0] == "struct.Struct" \
                and v[2] in ("pack", "unpack", "unpack_from", "iter_unpack"):
            # S = struct.Struct(fmt); f = S.pack; f(x) is S.pack(x)   (a bound method of a precompiled format handed to map() or kept in a local)
            return ("call", ("ext", f"struct.{v[2]}"), (const(v[1][1][1]),) + tuple(args), tuple(kwargs))
        if v[0] == "call" and v[1] == ("ext", "functools.partial") and v[2] and not any(k == "**" for k, _x in v[3] + tuple(kwargs)) \
                and not any(a[0] == "starred" for a in v[2] + tuple(args)):
            # partial(f, a, k=b)(c, m=d) is f(a, c, k=b, m=d)
            tgt = v[2][0]
            kw = dict(v[3])
            kw.update(dict(kwargs))
            if tgt[0] == "global" and (tgt[1] in self.prog.classes or (tgt[1] in self.prog.funcs and self.prog.funcs[tgt[1]].cls is None)):
                return ("call", ("func", tgt[1]), tuple(v[2][1:]) + tuple(args), tuple(kw.items()))
            if tgt[0] == "global":
                return ("call", ("ext", tgt[1]), tuple(v[2][1:]) + tuple(args), tuple(kw.items()))
        lv = leaves(v)
        OPF = {"operator.pos": ("u", "pos"), "operator.neg": ("u", "neg"), "operator.not_": ("u", "not"), "operator.invert": ("u", "~"),
               "operator.add": ("b", "+"), "operator.sub": ("b", "-"), "operator.mul": ("b", "*"), "operator.or_": ("b", "|"), "operator.and_": ("b", "&"),
               "operator.xor": ("b", "^"), "operator.lshift": ("b", "<<"), "operator.rshift": ("b", ">>"), "operator.floordiv": ("b", "//"), "operator.mod": ("b", "%"),
               "operator.truediv": ("b", "/")}
        if not kwargs and all(x[0] == "global" and x[1] in OPF and len(args) == (1 if OPF[x[1]][0] == "u" else 2) for x in lv):
            # the functions of the operator module are the operators: (pos if c else neg)(x) is x if c else -x
            def app(x):
                if x[0] == "ite":
                    return ("ite", x[1], app(x[2]), app(x[3]))
                kind, op = OPF[x[1]]
                if kind == "u":
                    return args[0] if op == "pos" else ("un", op, args[0])
                return ("bin", op, args[0], args[1])
            return app(v)
        if is_const(v) and isinstance(v[1], tuple) and len(v[1]) == 2 and v[1][0] in ("operator.itemgetter", "operator.attrgetter") and len(args) == 1 and not kwargs:
            # GETTER = itemgetter(k1, k2)/attrgetter("a", "b.c");  GETTER(x) is (x[k1], x[k2]) / (x.a, x.b.c)  (the bare element for one key)
            x = args[0]
            out = []
            for k in v[1][1]:
                if v[1][0].endswith("itemgetter"):
                    if isinstance(k, slice):
                        out.append(("slice", x, None if k.start is None else const(k.start), None if k.stop is None else const(k.stop),
                                    None if k.step is None else const(k.step)))
                    else:
                        out.append(("sub", x, const(k)))
                else:
                    cur = x
                    for part in k.split("."):
                        cur = self._attr(cur, part)
                    out.append(cur)
            return out[0] if len(out) == 1 else ("tuple", tuple(out))
        # (a None alternative is not callable: such a leaf only survives where a guard has excluded it)
        if any(x[0] == "attr" and x[1][0] == "param" for x in lv) and all((x[0] == "attr" and x[1][0] == "param") or x == ("const", None) for x in lv):
            return _bound_method_call(self, v, args, kwargs)
        return ("call", ("dyn", v), args, kwargs)

    def _call0(self, e: ast.Call, st: State) -> Term:
        args = []
        for a in e.args:
            v = self.ev(a, st)
            if v[0] == "starred" and v[1][0] in ("tuple", "list") and not any(x[0] == "starred" for x in v[1][1]):
                args += list(v[1][1])          # f(*(a, b)) is f(a, b)
            elif v[0] == "starred" and v[1][0] == "ite" and self._gated_len(v[1]) is not None:
                # f(*pair) with pair = (a, b) if c else (x, y): f(a if c else x, b if c else y)
                def pick(t_, i):
                    return ("ite", t_[1], pick(t_[2], i), pick(t_[3], i)) if t_[0] == "ite" else t_[1][i]
                args += [pick(v[1], i) for i in range(self._gated_len(v[1]))]
            else:
                args.append(v)
        args = tuple(args)
        kwargs = tuple((k.arg or "**", self.ev(k.value, st)) for k in e.keywords)
        if any(k == "**" for k, _v in kwargs):
            # f(**kw) where kw is known to be a literal mapping with string keys (the surplus keywords a forwarding helper received)
            flat = []
            for k, v in kwargs:
                if k == "**" and isinstance(v, tuple) and v and v[0] == "dict" and all(is_const(kk) and isinstance(kk[1], str) for kk, _vv in v[1]):
                    flat += [(kk[1], vv) for kk, vv in v[1]]
                else:
                    flat.append((k, v))
            kwargs = tuple(flat)
        f = e.func
        # super().m(...)
        if isinstance(f, ast.Attribute) and isinstance(f.value, ast.Call) and isinstance(f.value.func, ast.Name) \
                and f.value.func.id == "super" and self.cls is not None:
            after = self.cls
            target = self.prog.lookup_method(self.cls, f.attr, after=after)
            recv = st.env.get(self.param_names[0], ("param", "self")) if self.param_names else ("param", "self")
            if target is not None:
                return ("call", ("func", target.qual), (recv,) + args, kwargs)
            return ("call", ("ext", f"super().{f.attr}"), (recv,) + args, kwargs)
        if isinstance(f, ast.Attribute):
            k = self.key_of(f.value)
            recv = self.ev(f.value, st)
            # in-place mutation of a tracked local / self attribute
            if f.attr in MUTATORS and k is not None:
                new = ("mut", f.attr, recv, args)
                if "." not in k and isinstance(recv, tuple) and recv and recv[0] == "attr" and recv[1][0] == "param" and recv[1][1] in self.param_names:
                    # the local is an alias of an attribute (x = self.items; x.add(v)): the object the attribute holds is what changes
                    st.env[f"{recv[1][1]}.{recv[2]}"] = new
                if f.attr not in ("pop", "popleft", "setdefault"):
                    st.env[k] = new
                    return const(None) if f.attr != "put_nowait" else ("call", ("meth", recv, f.attr), args, kwargs)
                st.env[k] = new
                return ("call", ("meth", recv, f.attr), args, kwargs)
            fr = self._attr(recv, f.attr) if recv[0] == "global" else None
            if fr is not None and fr[0] == "global":
                q = fr[1]
                if q in self.prog.funcs:
                    if self.prog.funcs[q].kind == "classmethod" and recv[0] == "global" and recv[1] in self.prog.classes:
                        args = (recv,) + args          # Class.method(...): keep which class it was called on
                    return ("call", ("func", q), args, kwargs)
                if q in self.prog.classes:
                    return ("call", ("func", q), args, kwargs)   # constructor
                return ("call", ("ext", q), args, kwargs)
            # method on self / cls resolved through the MRO
            if recv[0] == "param" and self.cls is not None and self.param_names and recv[1] == self.param_names[0] \
                    and self.fn.kind in ("method", "classmethod", "property", "setter"):
                target = self.prog.lookup_method(self.cls, f.attr)
                if target is not None:
                    if target.kind == "staticmethod":
                        return ("call", ("func", target.qual), args, kwargs)
                    if target.kind == "classmethod" and self.fn.kind != "classmethod":
                        return ("call", ("func", target.qual), (("global", self.cls.qual),) + args, kwargs)
                    return ("call", ("func", target.qual), (recv,) + args, kwargs)
                # a class-level callable constant (a getter object): self.GETTER(x) / cls.GETTER(x)
                ca = self.prog.lookup_class_attr(self.cls, f.attr) if f.attr not in self.prog.attr_store_names() else None
                if ca is not None:
                    try:
                        cv = self.prog.fold(ca[1], ca[0].module, ca[0])
                    except Exception:
                        cv = None
                    if isinstance(cv, tuple) and len(cv) == 2 and cv[0] in ("operator.itemgetter", "operator.attrgetter"):
                        return self._dyn_call(const(cv), args, kwargs)
            return ("call", ("meth", recv, f.attr), args, kwargs)
        if isinstance(f, ast.Name):
            if f.id in st.env:
                v = st.env[f.id]
                if v[0] == "global":
                    q = v[1]
                    kind = "func" if (q in self.prog.funcs or q in self.prog.classes) else "ext"
                    return ("call", (kind, q), args, kwargs)
                return self._dyn_call(v, args, kwargs)
            g = self._global(f.id)
            if g[0] == "global":
                q = g[1]
                kind = "func" if (q in self.prog.funcs or q in self.prog.classes) else "ext"
                return ("call", (kind, q), args, kwargs)
            return ("call", ("dyn", g), args, kwargs)
        return self._dyn_call(self.ev(f, st), args, kwargs)


def _integer_valued(t) -> bool:
    """t certainly evaluates to an int (so that membership in a range is an interval test)"""
    t0 = t
    while t0[0] == "call" and t0[1] == ("ext", "typing.cast") and len(t0[2]) == 2:
        t0 = t0[2][1]
    if is_const(t0):
        return isinstance(t0[1], int) and not isinstance(t0[1], bool)
    if t0[0] == "enum":
        return isinstance(t0[3], int)
    if t0[0] == "call" and t0[1][0] == "ext" and t0[1][1] in ("int", "len", "int.from_bytes", "ord", "round"):
        return t0[1][1] != "round" or len(t0[2]) == 1
    if t0[0] == "bin" and t0[1] in ("&", "|", "^", "<<", ">>", "//", "%", "+", "-", "*"):
        return _integer_valued(t0[2]) and _integer_valued(t0[3])
    if t0[0] == "ite":
        return _integer_valued(t0[2]) and _integer_valued(t0[3])
    return False


def _integer_valued_loose(t) -> bool:
    """integer by construction, or a single element read of a buffer / a name bound to one (bytes elements are ints)"""
    if _integer_valued(t):
        return True
    t0 = t
    while t0[0] == "call" and t0[1][0] == "ext" and t0[1][1] in ("typing.cast", "cast") and len(t0[2]) == 2:
        t0 = t0[2][1]
    if t0[0] == "sub" and not (t0[1][0] in ("dict",)):
        return True
    if t0[0] == "bin" and t0[1] in ("&", "|", "^", "<<", ">>", "+", "-"):
        return _integer_valued_loose(t0[2]) and _integer_valued_loose(t0[3])
    if t0[0] == "item" and t0[1][0] == "iter":
        return False
    return False


def _bound_method_call(ta, v, args, kwargs, depth=0):
    """Call of a first-class callable value: a conditional choice distributes over the call, `self.m` of the analysed class
    resolves like the direct call self.m(...)."""
    if v[0] == "ite" and depth < 6:
        return ("ite", v[1], _bound_method_call(ta, v[2], args, kwargs, depth + 1), _bound_method_call(ta, v[3], args, kwargs, depth + 1))
    if v == ("const", None):
        return ("top", "call of None (excluded by a guard)")
    if v[0] == "attr" and v[1][0] == "param" and ta.cls is not None and ta.param_names and v[1][1] == ta.param_names[0] \
            and ta.fn.kind in ("method", "classmethod", "property", "setter"):
        target = ta.prog.lookup_method(ta.cls, v[2])
        if target is not None and target.kind in ("method", "staticmethod", "classmethod"):
            if target.kind == "staticmethod":
                return ("call", ("func", target.qual), args, kwargs)
            if target.kind == "classmethod" and ta.fn.kind != "classmethod":
                return ("call", ("func", target.qual), (("global", ta.cls.qual),) + args, kwargs)
            return ("call", ("func", target.qual), (v[1],) + args, kwargs)
    if v[0] == "global" and (v[1] in ta.prog.funcs or v[1] in ta.prog.classes):
        return ("call", ("func", v[1]), args, kwargs)
    return ("call", ("dyn", v), args, kwargs)


class TermEngine(Engine):
    """Engine with loop widening for TermAnalysis (loop-carried names become ('loopvar', ..))."""

    def __init__(self, prog, fn, analysis):
        super().__init__(prog, fn, analysis)
        self.loops: Dict[ast.AST, dict] = {}    # loop node -> {entry, head, continues, ends, breaks, exit}
        self.try_stack: List[List[str]] = []
        analysis.engine = self

    def try_body_enter(self, s):
        # every handler must be entered: statements of the try *body* may raise each handled class
        names = []
        for h in s.handlers:
            names += self._htypes(h)
        self.try_stack.append(names)

    def try_body_exit(self, s):
        self.try_stack.pop()

    def _unrollable(self, s, state):
        """for x in <literal tuple / list of at most 16 elements>: with no break / continue / else of this loop -> the elements"""
        if not isinstance(s, ast.For) or s.orelse:
            return None
        def own_jumps(nodes):
            for n in nodes:
                if isinstance(n, ast.Break):
                    return True
                if isinstance(n, (ast.For, ast.While, ast.AsyncFor, ast.FunctionDef, ast.AsyncFunctionDef, ast.ClassDef, ast.Lambda)):
                    continue
                if own_jumps(list(ast.iter_child_nodes(n))):
                    return True
            return False
        has_break = own_jumps(s.body)

        def pure(nodes):
            # only loops that merely accumulate into locals are unrolled: per-node terms of such a body carry no site of interest
            for n in nodes:
                if isinstance(n, (ast.Assign, ast.AugAssign, ast.AnnAssign)):
                    tg = n.targets if isinstance(n, ast.Assign) else [n.target]
                    if not all(isinstance(t, ast.Name) or (isinstance(t, ast.Attribute) and isinstance(t.value, ast.Name)) for t in tg):
                        return False
                elif isinstance(n, (ast.Continue, ast.Return, ast.Raise, ast.Break)):
                    continue
                elif isinstance(n, ast.If):
                    if not (pure(n.body) and pure(n.orelse)):
                        return False
                elif isinstance(n, ast.Expr) and isinstance(n.value, ast.Call) and isinstance(n.value.func, ast.Name) and n.value.func.id == "setattr" \
                        and len(n.value.args) == 3:
                    continue            # table-driven attribute stores: setattr(self, name, value) with name drawn from the table
                elif isinstance(n, ast.Expr) and isinstance(n.value, ast.Call) and isinstance(n.value.func, ast.Attribute) and isinstance(n.value.func.value, ast.Name) \
                        and n.value.func.attr in MUTATORS:
                    continue            # acc.append(x) / digest.update(chunk): accumulation into a local object
                elif not isinstance(n, ast.Pass):
                    return False
            return True
        if not pure(s.body):
            return None
        saved = self.a.record
        self.a.record = False
        try:
            it = self.a.ev(s.iter, state.copy())
        except AnalysisError:
            it = None
        finally:
            self.a.record = saved
        if it is not None and it[0] in ("tuple", "list") and 0 < len(it[1]) <= 16 and not any(x[0] == "starred" for x in it[1]):
            return list(it[1])
        if it is not None and it[0] == "call" and it[1][0] == "meth" and it[1][2] in ("items", "keys", "values") and not it[2] and it[1][1][0] == "dict" \
                and 0 < len(it[1][1][1]) <= 16 and all(k[0] != "splat" for k, _v in it[1][1][1]):
            # a literal mapping walked entry by entry
            return [("tuple", (k, v)) if it[1][2] == "items" else (k if it[1][2] == "keys" else v) for k, v in it[1][1][1]]
        if it is not None and it[0] == "dict" and 0 < len(it[1]) <= 16 and all(k[0] != "splat" for k, _v in it[1]):
            return [k for k, _v in it[1]]
        if it is not None and it[0] == "const" and isinstance(it[1], (tuple, list)) and 0 < len(it[1]) <= 16:
            return [const(x) for x in it[1]]
        return None

    def loop(self, s, state) -> Completions:
        elts = self._unrollable(s, state)
        if elts is not None:
            # a loop over a literal sequence is the sequence of its bodies
            self.a.ev(s.iter, state.copy())
            out = Completions()
            cur = [state]
            broken = []
            for x in elts:
                nxt = []
                for st0 in cur:
                    st1 = st0.copy()
                    self.a.assign(s.target, x, st1)
                    bo = self.block(s.body, st1)
                    out.returns += bo.returns
                    out.raises += bo.raises
                    nxt += bo.normal + bo.continues
                    broken += bo.breaks          # `break`: the remaining elements are skipped
                j = self._join(nxt)
                cur = [j] if j is not None else []
                if not cur:
                    break
            if broken:
                j = self._join(cur + broken)
                cur = [j] if j is not None else []
            out.normal += cur
            return out
        widened = self.a.widen_loop(s, state)
        # one pass suffices: every name assigned in the body is already ⊤-like at the head
        is_while = isinstance(s, ast.While)
        const_true = is_while and isinstance(s.test, ast.Constant) and bool(s.test.value) is True
        out = Completions()
        entry, exit_state = self._loop_entry(s, widened, is_while, const_true, out)
        if entry is not None:
            entry = State(entry.env, entry.pc)
        body_out = self.block(s.body, entry) if entry is not None else Completions()
        self.loops[s] = {"entry": state, "head": widened, "body_entry": entry, "continues": list(body_out.continues),
                         "ends": list(body_out.normal), "breaks": list(body_out.breaks), "exit": exit_state,
                         "returns": list(body_out.returns), "raises": list(body_out.raises)}
        out.returns += body_out.returns
        out.raises += body_out.raises
        # a name the body leaves alone on every back edge (it is only assigned on the way out - `x = ...; break`) holds, at the loop
        # head, what it held before the loop: its loop-head placeholder is that value
        stable = {}
        if entry is not None:
            for k, v in widened.env.items():
                if isinstance(v, tuple) and v and v[0] == "loopvar" and state.env.get(k) is not None and state.env.get(k) != v \
                        and all(st_.env.get(k) == v for st_ in list(body_out.normal) + list(body_out.continues)):
                    stable[v] = state.env[k]

        def settle(st_):
            if not stable or st_ is None:
                return st_
            return State({k: replace(v, stable) for k, v in st_.env.items()}, tuple((replace(c, stable), tr) for c, tr in st_.pc))
        exit_state = settle(exit_state)
        body_out.breaks = [settle(b) for b in body_out.breaks]
        exits = []
        if exit_state is not None:
            # conditions gathered inside the loop do not survive it
            exit_state = State(exit_state.env, exit_state.pc)
            if s.orelse:
                oe = self.block(s.orelse, exit_state)
                out.absorb(oe, normal=False)
                exits += oe.normal
            else:
                exits.append(exit_state)
        for b in body_out.breaks:
            # what held when the loop was left through `break` still holds after it (nothing runs in between)
            exits.append(State(b.env, b.pc))
        j = self._join(exits)
        if j is not None:
            out.normal.append(j)
        return out


class Summary:
    def __init__(self, fn: FuncInfo, ta: TermAnalysis, comp: Completions, loops=None):
        self.fn, self.ta, self.comp = fn, ta, comp
        self.loops = loops or {}
        self.returns: List[Tuple[tuple, Term, Optional[ast.AST], State]] = []
        for st, node in comp.returns:
            self.returns.append((st.pc, st.env.get("<return>", const(None)) if node is not None else const(None), node, st))
        self.raises = [(st.pc, exc, node, st) for st, exc, node in comp.raises]

    def env_before(self, node) -> State:
        if node not in self.ta.env_at:
            raise AnalysisError(f"no state recorded for node in {self.fn.qual}: {norm(node)[:60]}")
        return self.ta.env_at[node]

    def term(self, expr_node) -> Term:
        if expr_node not in self.ta.terms_at:
            raise AnalysisError(f"no term recorded for expression in {self.fn.qual}: {norm(expr_node)[:60]}")
        return self.ta.terms_at[expr_node]

    def return_term(self, gate_last: bool = False) -> Term:
        """Single gated term for the result (ite over the return conditions).  gate_last: the last alternative is gated by its own
        condition as well (the rest being `unreachable`): exact when the function has other ways out (raises, exits), so that not taking
        the earlier returns does not imply taking the last one - and then the facts of the last return are part of the term."""
        rets = [(pc, t) for pc, t, node, _ in self.returns]
        if not rets:
            return ("top", "no return")
        out = rets[-1][1]
        if gate_last and len(rets) > 1 and rets[-1][0] and not any(pc2 == rets[-1][0] for pc2, _t2 in rets[:-1]):
            out = ("ite", pc_term(rets[-1][0]), out, ("top", "unreachable: every other way out of the helper raises"))
        for i in range(len(rets) - 2, -1, -1):
            pc, t = rets[i]
            if t == out:
                continue
            gate = pc_term(pc)
            if any(pc2 == pc for pc2, _t2 in rets[i + 1:]):
                # another return is reached under the same path condition (an exception handler, typically): which of the
                # two it is is not a function of the path condition
                gate = ("bool", "and", (gate, ("top", f"path {i} of {self.fn.qual}")))
            out = ("ite", gate, t, out)
        return out


_CACHE: Dict[tuple, Summary] = {}
# gate_last: a seen-through helper that can also raise delivers its last return under that return's own condition (Summary.return_term);
# switched on by rules that read decisions off the gates of a value (C20), off elsewhere (the extra alternative is noise for the others)
OPTIONS = {"gate_last": False}


def unsupplied_switches(prog: Program, fn: FuncInfo) -> Dict[str, Term]:
    """Parameters of fn with the default None / False that no call in the package supplies (by keyword, or by enough positional arguments, in a
    call of anything with fn's name): optional switches whose default keeps the behaviour the package itself relies on.  A stand-alone
    summary of fn is taken with these parameters at their defaults - what an outside caller may do with the switch is not what the
    properties are about."""
    cache = prog.__dict__.setdefault("_unsupplied_switches", {})
    if fn.qual in cache:
        return cache[fn.qual]
    cache[fn.qual] = {}
    a = fn.node.args
    pos = a.posonlyargs + a.args
    cands = {}
    for p_, d in list(zip(pos[len(pos) - len(a.defaults):], a.defaults)) + [(p_, d) for p_, d in zip(a.kwonlyargs, a.kw_defaults) if d is not None]:
        if isinstance(d, ast.Constant) and (d.value is None or isinstance(d.value, (bool, int, str, bytes))):
            cands[p_.arg] = ("const", d.value)          # (any constant default nobody in the package overrides: None / False switches, `message_id=0`, ...)
    if not cands or fn.name.startswith("__"):
        return cache[fn.qual]
    pos_names = [x.arg for x in pos]
    recv = 1 if (fn.cls is not None and fn.kind in ("method", "classmethod", "property", "setter")) else 0
    owner = {}          # call node -> the function whose body it stands in (module-level calls have none)
    for g in prog.funcs.values():
        for n in ast.walk(g.node):
            if isinstance(n, ast.Call):
                owner.setdefault(id(n), g)

    def passes_default(arg, caller, p_):
        """the argument only hands on the caller's own switch, which nobody supplies either (construct(.., strict) -> _construct(.., strict))"""
        return isinstance(arg, ast.Name) and caller is not None and caller.qual != fn.qual and p_ in cands \
            and unsupplied_switches(prog, caller).get(arg.id) == cands[p_]
    for m in prog.modules.values():
        if m.is_test:
            continue          # (what the package's own code supplies: a test exercising the optional parameter is not a caller)
        for n in ast.walk(m.tree):
            if not isinstance(n, ast.Call):
                continue
            f_ = n.func
            nm = f_.attr if isinstance(f_, ast.Attribute) else (f_.id if isinstance(f_, ast.Name) else None)
            if nm != fn.name and not (fn.name == "__init__" and fn.cls is not None and nm == fn.cls.name):
                continue
            if any(k.arg is None for k in n.keywords) or any(isinstance(x, ast.Starred) for x in n.args):
                cands = {}
                break
            caller = owner.get(id(n))
            for k in n.keywords:
                if not passes_default(k.value, caller, k.arg):
                    cands.pop(k.arg, None)
            for i, arg in enumerate(n.args):
                for off in (0, recv):
                    if i + off < len(pos_names) and not passes_default(arg, caller, pos_names[i + off]):
                        cands.pop(pos_names[i + off], None)
        if not cands:
            break
    cache[fn.qual] = cands
    return cands


def summarize(prog: Program, fn: FuncInfo, args: Optional[Dict[str, Term]] = None, depth: int = 0) -> Summary:
    if args is None and depth == 0:
        args = unsupplied_switches(prog, fn) or None
    key = (id(prog), fn.qual, fn.kind, tuple(sorted((args or {}).items())), OPTIONS["gate_last"])
    # (while an outlined function is itself being summarised its body is not folded back into a call of it - also not inside the helpers it
    # calls; summaries made in that context are kept apart)
    inside = any(q in _SUMMARIZING for q in TermAnalysis.OUTLINED)
    if inside:
        key = key + ("inside-outlined",)
    try:
        hash(key)
    except TypeError:
        # (an argument term that holds an unhashable Python value - a closure over a list literal that is still being filled: keyed by its text)
        key = (id(prog), fn.qual, fn.kind, repr(sorted((args or {}).items(), key=lambda kv: kv[0])), OPTIONS["gate_last"]) + (("inside-outlined",) if inside else ())
    if key in _CACHE:
        return _CACHE[key]
    ta = TermAnalysis(prog, fn, args)
    ta.inline_depth = depth
    eng = TermEngine(prog, fn, ta)
    _SUMMARIZING.append(fn.qual)
    try:
        comp = eng.run(ta.initial())
    finally:
        _SUMMARIZING.pop()
    s = Summary(fn, ta, comp, eng.loops)
    _CACHE[key] = s
    return s


_SUMMARIZING: List[str] = []


def bind_args(fn: FuncInfo, args: Tuple[Term, ...], kwargs=()) -> Dict[str, Term]:
    """Map call arguments to the callee's parameter names (receiver included in args for methods)."""
    a = fn.node.args
    names = [x.arg for x in a.posonlyargs + a.args]
    out = {}
    if fn.kind == "classmethod" and fn.cls is not None and (
            (a.vararg is None and len(args) == len(names) - 1) or
            (a.vararg is not None and not (args and isinstance(args[0], tuple) and (args[0][0] == "global" or (names and args[0] == ("param", names[0])))))):
        args = (("global", fn.cls.qual),) + tuple(args)      # Class.method(...) called through the class
    for n, v in zip(names, args):
        out[n] = v
    if a.vararg is not None and len(args) >= len(names) and not any(isinstance(v, tuple) and v and v[0] == "starred" for v in args):
        out[a.vararg.arg] = ("tuple", tuple(args[len(names):]))          # def f(*xs): f(a, b) binds xs = (a, b)
    named = set(names) | {x.arg for x in a.kwonlyargs}
    surplus = []
    for k, v in kwargs:
        if a.kwarg is not None and k != "**" and k not in named:
            surplus.append((("const", k), v))
        else:
            out[k] = v
    if a.kwarg is not None and not any(k == "**" for k, _v in kwargs):
        out[a.kwarg.arg] = ("dict", tuple(surplus))          # def f(**kw): f(x=1) binds kw = {"x": 1}
    return out
