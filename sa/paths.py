"""E5 - path rules on loop bodies: cursor advance, record-local reads, loop-carried state."""
from __future__ import annotations

import ast
from typing import Dict, List, Optional, Tuple

from .affine import Lin, lin
from .facts import atoms, slice_bounds, strip
from .model import AnalysisError, norm
from .terms import State, Summary, Term, is_const, show, subterms


def find_loops(fn_node) -> List[ast.AST]:
    return [n for n in ast.walk(fn_node) if isinstance(n, (ast.For, ast.While, ast.AsyncFor))]


def eq_subst(facts) -> Dict[Term, Lin]:
    out = {}
    for f in facts:
        if f[0] == "cmp" and f[1] == "==":
            a, b = strip(f[2]), strip(f[3])
            if is_const(b) and isinstance(b[1], int):
                out[a] = Lin(b[1])
            elif is_const(a) and isinstance(a[1], int):
                out[b] = Lin(a[1])
    return out


def int_lower_bounds(facts) -> Dict[Term, int]:
    """Lower bounds for byte-valued terms implied by the path facts (bytes are >= 0)."""
    lb: Dict[Term, int] = {}

    def up(t, v):
        lb[t] = max(lb.get(t, 0), v)
    for f in facts:
        if f[0] != "cmp":
            continue
        op, a, b = f[1], strip(f[2]), strip(f[3])
        for x, y, o in ((a, b, op), (b, a, {"<": ">", ">": "<", "<=": ">=", ">=": "<=", "==": "==", "!=": "!="}.get(op))):
            if o is None or not (is_const(y) and isinstance(y[1], int)):
                continue
            c = y[1]
            if o == ">=":
                up(x, c)
            elif o == ">":
                up(x, c + 1)
            elif o == "==":
                up(x, c)
            elif o == "!=" and c == 0:
                up(x, 1)
    return lb


class CursorLoop:
    """A record-parsing loop `for ...: ... cursor = cursor[k:]`."""

    def __init__(self, s: Summary, loop: ast.AST, cursor: str):
        if loop not in s.loops:
            raise AnalysisError(f"loop at line {loop.lineno} of {s.fn.qual} was not analysed")
        self.s, self.loop, self.cursor = s, loop, cursor
        self.info = s.loops[loop]
        self.c0 = ("loopvar", cursor, loop.lineno)

    def back_edges(self) -> List[Tuple[str, State]]:
        return [("continue", st) for st in self.info["continues"]] + [("fall-through", st) for st in self.info["ends"]]

    def advance(self, st: State) -> Optional[Lin]:
        t = strip(st.env.get(self.cursor, ("top", "unbound")))
        if t == self.c0:
            return Lin(0)
        total = Lin(0)
        # nested slices  c0[a:][b:] ...
        while True:
            b = t if t[0] == "slice" else None
            if b is None:
                return None
            base, lo, hi, step = t[1], t[2], t[3], t[4]
            if hi is not None or step is not None or lo is None:
                return None
            total = total + lin(lo, eq_subst(atoms(st.pc)))
            t = strip(base)
            if t == self.c0:
                return total

    def field(self, idx: int) -> Term:
        return ("sub", self.c0, ("const", idx))

    def reads(self) -> List[Tuple[ast.AST, int, tuple]]:
        """(node, constant index, path condition) for every constant-index read of the cursor in the body."""
        out = []
        ta = self.s.ta

        def walk(e, pc):
            if isinstance(e, ast.IfExp):
                walk(e.test, pc)
                c = ta.terms_at.get(e.test)
                walk(e.body, pc + ((c, True),) if c is not None else pc)
                walk(e.orelse, pc + ((c, False),) if c is not None else pc)
                return
            if isinstance(e, ast.BoolOp):
                acc = pc
                for v in e.values:
                    walk(v, acc)
                    c = ta.terms_at.get(v)
                    if c is not None:
                        acc = acc + ((c, isinstance(e.op, ast.And)),)
                return
            if isinstance(e, (ast.Lambda, ast.FunctionDef, ast.AsyncFunctionDef)):
                return
            if isinstance(e, ast.Subscript) and isinstance(e.ctx, ast.Load) and not isinstance(e.slice, ast.Slice):
                t = ta.terms_at.get(e)
                if t is not None:
                    t2 = strip(t)
                    if t2[0] == "sub" and strip(t2[1]) == self.c0 and is_const(t2[2]) and isinstance(t2[2][1], int):
                        out.append((e, t2[2][1], pc))
            for ch in ast.iter_child_nodes(e):
                walk(ch, pc)

        def stmts(body):
            for st in body:
                pc = ta.env_at[st].pc if st in ta.env_at else ()
                if isinstance(st, (ast.If, ast.While)):
                    walk(st.test, pc)
                    stmts(st.body)
                    stmts(st.orelse)
                elif isinstance(st, (ast.For, ast.AsyncFor)):
                    walk(st.iter, pc)
                    stmts(st.body)
                    stmts(st.orelse)
                elif isinstance(st, ast.Try):
                    stmts(st.body)
                    for h in st.handlers:
                        stmts(h.body)
                    stmts(st.orelse)
                    stmts(st.finalbody)
                elif isinstance(st, (ast.With, ast.AsyncWith)):
                    for it in st.items:
                        walk(it.context_expr, pc)
                    stmts(st.body)
                elif isinstance(st, (ast.FunctionDef, ast.AsyncFunctionDef, ast.ClassDef)):
                    continue
                else:
                    for ch in ast.iter_child_nodes(st):
                        if isinstance(ch, ast.expr):
                            walk(ch, pc)
        stmts(self.loop.body)
        return out

    def carried(self) -> Dict[str, List[str]]:
        """Names whose value at the loop head is used inside the body (loop-carried state), with example uses."""
        out: Dict[str, List[str]] = {}
        ta = self.s.ta
        body_nodes = set()
        for st in self.loop.body:
            for n in ast.walk(st):
                body_nodes.add(n)
        for node, t in ta.terms_at.items():
            if node not in body_nodes:
                continue
            for x in subterms(t):
                if x[0] == "loopvar" and x[2] == self.loop.lineno:
                    out.setdefault(x[1], [])
                    if len(out[x[1]]) < 3:
                        out[x[1]].append(norm(node)[:60])
        return out
