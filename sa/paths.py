"""E5 - path rules on loop bodies: cursor advance, record-local reads, loop-carried state."""
from __future__ import annotations

import ast
from typing import Dict, List, Optional, Tuple

from .affine import Lin, lin
from .facts import atoms, call_is, slice_bounds, strip
from .model import AnalysisError, norm
from .terms import State, Summary, Term, is_const, show, subterms


def find_loops(fn_node) -> List[ast.AST]:
    return [n for n in ast.walk(fn_node) if isinstance(n, (ast.For, ast.While, ast.AsyncFor))]


def eq_subst(facts) -> Dict[Term, Lin]:
    out = {}
    for f in facts:
        if f[0] == "cmp" and f[1] == "==":
            a, b = strip(f[2]), strip(f[3])
            if is_const(b) and isinstance(b[1], int):
                out[a] = Lin(b[1])
            elif is_const(a) and isinstance(a[1], int):
                out[b] = Lin(a[1])
    return out


def int_lower_bounds(facts) -> Dict[Term, int]:
    """Lower bounds for byte-valued terms implied by the path facts (bytes are >= 0)."""
    lb: Dict[Term, int] = {}

    def up(t, v):
        lb[t] = max(lb.get(t, 0), v)
    for f in facts:
        if f[0] != "cmp":
            fs_ = strip(f)
            if fs_[0] == "sub" or (fs_[0] == "call" and fs_[1] == ("ext", "int.from_bytes")):
                up(fs_, 1)          # `if size:` for a byte-valued size: non-zero, i.e. >= 1
            continue
        op, a, b = f[1], strip(f[2]), strip(f[3])
        for x, y, o in ((a, b, op), (b, a, {"<": ">", ">": "<", "<=": ">=", ">=": "<=", "==": "==", "!=": "!="}.get(op))):
            if o is None or not (is_const(y) and isinstance(y[1], int)):
                continue
            c = y[1]
            if o == ">=":
                up(x, c)
            elif o == ">":
                up(x, c + 1)
            elif o == "==":
                up(x, c)
            elif o == "!=" and c == 0:
                up(x, 1)
    # x >= c together with x != c gives x >= c + 1
    changed = True
    while changed:
        changed = False
        for f in facts:
            if f[0] == "cmp" and f[1] == "!=":
                a, b = strip(f[2]), strip(f[3])
                for x, y in ((a, b), (b, a)):
                    if is_const(y) and isinstance(y[1], int) and not isinstance(y[1], bool) and lb.get(x) == y[1] and y[1] != 0:
                        lb[x] = y[1] + 1
                        changed = True
    return lb


def index_upper(t: Term) -> Optional[int]:
    """Largest value of an index drawn from range(a, b) / enumerate(<literal sequence>, start), else None."""
    t = strip(t)
    if t[0] == "item" and t[2] == 0 and t[1][0] == "iter":
        src = strip(t[1][1])
        if call_is(src, "enumerate") and src[2]:
            seq = strip(src[2][0])
            start = src[2][1] if len(src[2]) > 1 else dict(src[3]).get("start", ("const", 0))
            n = len(seq[1]) if seq[0] in ("tuple", "list") else (len(seq[1]) if is_const(seq) and isinstance(seq[1], (tuple, list, bytes, str)) else None)
            if n and is_const(start) and isinstance(start[1], int) and start[1] >= 0:
                return start[1] + n - 1
    if t[0] == "iter":
        src = strip(t[1])
        if call_is(src, "range") and src[2] and all(is_const(x) and isinstance(x[1], int) for x in src[2]) and len(src[2]) <= 2:
            lo, hi = (0, src[2][0][1]) if len(src[2]) == 1 else (src[2][0][1], src[2][1][1])
            if 0 <= lo < hi:
                return hi - 1
    return None


class CanonSummary:
    """A summary seen through a term rewrite (every term of every recorded state / expression is mapped)."""

    def __init__(self, s: Summary, f):
        self.fn, self.base = s.fn, s
        memo: Dict[int, State] = {}

        def mst(st):
            if st is None:
                return None
            if id(st) not in memo:
                memo[id(st)] = State({k: f(v) for k, v in st.env.items()}, tuple((f(c), tr) for c, tr in st.pc))
            return memo[id(st)]

        class TA:
            pass
        self.ta = TA()
        self.ta.terms_at = {n: f(t) for n, t in s.ta.terms_at.items()}
        self.ta.env_at = {n: mst(st) for n, st in s.ta.env_at.items()}
        self.returns = [(tuple((f(c), tr) for c, tr in pc), f(t), n, mst(rst)) for pc, t, n, rst in s.returns]
        self.raises = [(tuple((f(c), tr) for c, tr in pc), exc, n, mst(rst)) for pc, exc, n, rst in s.raises]
        self.loops = {}
        for l, info in s.loops.items():
            d = {}
            for k, v in info.items():
                if k in ("returns",):
                    d[k] = [(mst(st), n) for st, n in v]
                elif k in ("raises",):
                    d[k] = [(mst(x[0]),) + tuple(x[1:]) for x in v]
                elif isinstance(v, list):
                    d[k] = [mst(st) for st in v]
                else:
                    d[k] = mst(v)
            self.loops[l] = d


class CursorLoop:
    """A record-parsing loop `for ...: ... cursor = cursor[k:]`  - or, with `buffer` given, an integer cursor into that buffer
    (`offset += k`, reads buffer[offset + i]); the summary must then be the CanonSummary produced by offset_view()."""

    def __init__(self, s, loop: ast.AST, cursor: str, buffer: Optional[Term] = None):
        if loop not in s.loops:
            raise AnalysisError(f"loop at line {loop.lineno} of {s.fn.qual} was not analysed")
        self.s, self.loop, self.cursor = s, loop, cursor
        self.info = s.loops[loop]
        self.buffer = buffer
        self.lv = ("loopvar", cursor, loop.lineno)
        self.c0 = self.lv if buffer is None else ("slice", buffer, self.lv, None, None)

    def back_edges(self) -> List[Tuple[str, State]]:
        return [("continue", st) for st in self.info["continues"]] + [("fall-through", st) for st in self.info["ends"]]

    def advance(self, st: State) -> Optional[Lin]:
        t = strip(st.env.get(self.cursor, ("top", "unbound")))
        if self.buffer is not None:
            l = lin(t, eq_subst(atoms(st.pc)))
            if l is None or l.t.get(self.lv) != 1:
                return None
            return l - Lin(0, {self.lv: 1})
        if t == self.c0:
            return Lin(0)
        total = Lin(0)
        # nested slices  c0[a:][b:] ...
        while True:
            b = t if t[0] == "slice" else None
            if b is None:
                return None
            base, lo, hi, step = t[1], t[2], t[3], t[4]
            if hi is not None or step is not None or lo is None:
                return None
            total = total + lin(lo, eq_subst(atoms(st.pc)))
            t = strip(base)
            if t == self.c0:
                return total

    def field(self, idx: int) -> Term:
        return ("sub", self.c0, ("const", idx))

    def reads(self, prog=None) -> List[Tuple[ast.AST, int, tuple]]:
        """(node, constant index, path condition) for every constant-index read of the cursor in the body - and, with `prog`
        given, in the helpers the body calls that the rules do not know (a helper that receives the cursor reads the same record;
        its path conditions are appended to the caller's at the call)."""
        out = []

        def scan(ta, body, base_pc, fn, depth):
            def term(n):
                return ta.terms_at.get(n)

            def expand(n, pc):
                """n: one call node; if it targets an unknown helper, scan the helper with its parameters bound"""
                if prog is None or depth >= 3:
                    return
                from .helpers import unknown_callee
                from .terms import bind_args, const, summarize
                t = unknown_callee(prog, fn, n)
                if t is None:
                    return
                argt = [term(a) for a in n.args]
                if any(a is None for a in argt):
                    return
                if isinstance(n.func, ast.Attribute) and t.cls is not None and t.kind in ("method", "property"):
                    rv = term(n.func.value)
                    if rv is None:
                        return
                    argt = [rv] + argt
                kw = tuple((k.arg, term(k.value)) for k in n.keywords if k.arg and term(k.value) is not None)
                amap = bind_args(t, tuple(argt), kw)
                a = t.node.args
                pos = a.posonlyargs + a.args
                for p_, d in list(zip(pos[len(pos) - len(a.defaults):], a.defaults)):
                    if p_.arg not in amap and isinstance(d, ast.Constant):
                        amap[p_.arg] = const(d.value)
                sub = summarize(prog, t, amap, depth=depth + 1)
                scan(sub.ta, t.node.body, pc, t, depth + 1)

            def walk(e, pc):
                if isinstance(e, ast.IfExp):
                    walk(e.test, pc)
                    c = term(e.test)
                    walk(e.body, pc + ((c, True),) if c is not None else pc)
                    walk(e.orelse, pc + ((c, False),) if c is not None else pc)
                    return
                if isinstance(e, ast.BoolOp):
                    acc = pc
                    for v in e.values:
                        walk(v, acc)
                        c = term(v)
                        if c is not None:
                            acc = acc + ((c, isinstance(e.op, ast.And)),)
                    return
                if isinstance(e, (ast.Lambda, ast.FunctionDef, ast.AsyncFunctionDef)):
                    return
                if isinstance(e, ast.Name) and isinstance(e.ctx, ast.Load) and e.id in pending:
                    # a use of a constant-width window taken from the cursor earlier: the window is interpreted here
                    out.append((pending[e.id][0], pending[e.id][1], pc))
                    return
                if isinstance(e, ast.Call) and isinstance(e.func, ast.Name) and e.func.id == "len" and len(e.args) == 1 \
                        and isinstance(e.args[0], ast.Name) and e.args[0].id in pending:
                    return            # (measuring the window interprets nothing)
                if isinstance(e, ast.Subscript) and isinstance(e.ctx, ast.Load) and isinstance(e.slice, ast.Slice):
                    # a window `cursor[a:b]` with a constant end reads up to index b-1 (it never raises: short data yields the neighbours' bytes)
                    w = window_of(e)
                    if w is not None:
                        out.append((e, w, pc))
                if isinstance(e, ast.Subscript) and isinstance(e.ctx, ast.Load) and not isinstance(e.slice, ast.Slice):
                    t = term(e)
                    if t is not None:
                        t2 = strip(t)
                        if t2[0] == "sub" and strip(t2[1]) == self.c0 and is_const(t2[2]) and isinstance(t2[2][1], int):
                            out.append((e, t2[2][1], pc))
                        elif t2[0] == "sub" and strip(t2[1]) == self.c0:
                            hi = index_upper(t2[2])       # a bounded variable index counts as its largest value
                            if hi is not None:
                                out.append((e, hi, pc))
                if isinstance(e, ast.Call):
                    expand(e, pc)
                for ch in ast.iter_child_nodes(e):
                    walk(ch, pc)

            pending = {}

            def window_of(e):
                sl = e.slice
                if sl.step is not None or sl.upper is None or not (isinstance(sl.upper, ast.Constant) and isinstance(sl.upper.value, int) and sl.upper.value > 0):
                    return None
                if sl.lower is not None and not (isinstance(sl.lower, ast.Constant) and isinstance(sl.lower.value, int) and sl.lower.value >= 0):
                    return None
                t = term(e)
                if t is None:
                    return None
                t2 = strip(t)
                if t2[0] in ("slice", "sub") and strip(t2[1]) == self.c0:
                    return sl.upper.value - 1
                return None

            def stmts(body):
                for st in body:
                    own = ta.env_at[st].pc if st in ta.env_at else ()
                    pc = tuple(base_pc) + tuple(own)
                    if isinstance(st, ast.Assign) and len(st.targets) == 1 and isinstance(st.targets[0], ast.Name):
                        nm_ = st.targets[0].id
                        if isinstance(st.value, ast.Subscript) and isinstance(st.value.slice, ast.Slice) and window_of(st.value) is not None:
                            pending[nm_] = (st.value, window_of(st.value))      # judged where the window is used
                            continue
                        pending.pop(nm_, None)
                    if isinstance(st, (ast.If, ast.While)):
                        walk(st.test, pc)
                        stmts(st.body)
                        stmts(st.orelse)
                    elif isinstance(st, (ast.For, ast.AsyncFor)):
                        walk(st.iter, pc)
                        stmts(st.body)
                        stmts(st.orelse)
                    elif isinstance(st, ast.Try):
                        stmts(st.body)
                        for h in st.handlers:
                            stmts(h.body)
                        stmts(st.orelse)
                        stmts(st.finalbody)
                    elif isinstance(st, (ast.With, ast.AsyncWith)):
                        for it in st.items:
                            walk(it.context_expr, pc)
                        stmts(st.body)
                    elif isinstance(st, (ast.FunctionDef, ast.AsyncFunctionDef, ast.ClassDef)):
                        continue
                    else:
                        for ch in ast.iter_child_nodes(st):
                            if isinstance(ch, ast.expr):
                                walk(ch, pc)
            stmts(body)
        scan(self.s.ta, self.loop.body, (), self.s.fn, 0)
        return out

    def carried(self) -> Dict[str, List[str]]:
        """Names whose value at the loop head is used inside the body (loop-carried state), with example uses."""
        out: Dict[str, List[str]] = {}
        ta = self.s.ta
        body_nodes = set()
        for st in self.loop.body:
            for n in ast.walk(st):
                body_nodes.add(n)
        for node, t in ta.terms_at.items():
            if node not in body_nodes:
                continue
            for x in subterms(t):
                if x[0] == "loopvar" and x[2] == self.loop.lineno:
                    out.setdefault(x[1], [])
                    if len(out[x[1]]) < 3:
                        out[x[1]].append(norm(node)[:60])
        return out


def offset_view(s: Summary, loop: ast.AST):
    """If the loop advances an integer cursor into a buffer (offset += k; buffer[offset + i]), return (CursorLoop, summary) over
    the summary rewritten so that buffer[offset + i] reads as view[i] with view = buffer[offset:]; else None.
    (Python indexes from the end for negative positions: the rewrite needs offset >= 0, which holds for a cursor that starts at a
    non-negative constant and only grows - checked here.)"""
    from .affine import offset_canon
    info = s.loops[loop]
    for name in sorted({n.id for n in ast.walk(loop) if isinstance(n, ast.Name) and isinstance(n.ctx, ast.Store)}):
        lv = ("loopvar", name, loop.lineno)
        edges = info["ends"] + info["continues"]
        if not edges:
            continue
        ok = True
        for st in edges:
            l = lin(st.env.get(name, ("top", "?")))
            if l is None or l.t.get(lv) != 1:
                ok = False
        entry = strip(info["entry"].env.get(name, ("top", "?")))
        if not ok or not (is_const(entry) and isinstance(entry[1], int) and entry[1] >= 0):
            continue
        # the buffer: the base of a subscript whose index is lv + constant
        bufs = set()
        for t in s.ta.terms_at.values():
            for x in subterms(t):
                if x[0] == "sub":
                    li = lin(x[2])
                    if li is not None and li.t.get(lv) == 1 and len(li.t) == 1:
                        bufs.add(strip(x[1]))
        if len(bufs) != 1:
            continue
        B = bufs.pop()

        def f(t, B=B, lv=lv):
            return offset_canon(t, B, lambda sym: strip(sym) == lv, None, plain_view=True)
        cs = CanonSummary(s, f)
        # the cursor only grows: every advance is a sum of non-negative terms (constants, bytes)
        cl = CursorLoop(cs, loop, name, buffer=B)
        grows = True
        for _k, st in cl.back_edges():
            adv = cl.advance(st)
            if adv is None or adv.c < 0 or any(v < 0 or not (k[0] == "sub" or call_is(k, "len")) for k, v in adv.t.items()):
                grows = False
        if grows:
            return cl, cs
    return None
