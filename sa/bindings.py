"""Receiver-type binding table, verified structurally on every run (E0).

`attr_types(prog, cls, attr)` returns the repo classes an instance attribute may hold, derived from *every* store
to it in the class: constructor calls of repo classes, None, or - for LAN._protocol - the second element of the
awaited create_connection(factory) whose factory constructs one of the classes assigned to the factory's local.
A store of any other shape is an AnalysisError (exit 2): the table must never silently go stale.
"""
from __future__ import annotations

import ast
from typing import List

from .model import AnalysisError, ClassInfo, Program, is_self_attr, norm
from .terms import subterms, summarize


def attr_types(prog: Program, cls: ClassInfo, attr: str) -> List[str]:
    out = set()
    n_stores = 0
    for k in prog.mro(cls):
        for f in list(k.methods.values()) + list(k.props_set.values()):
            stores = [n for n in ast.walk(f.node) if isinstance(n, ast.Assign) and any(
                is_self_attr(t, attr) or (isinstance(t, (ast.Tuple, ast.List)) and any(is_self_attr(e, attr) for e in t.elts)) for t in n.targets)]
            if not stores:
                continue
            s = summarize(prog, f)
            for st in stores:
                n_stores += 1
                t = s.term(st.value)
                if t == ("const", None):
                    continue
                found = _classes_in(prog, t)
                if not found:
                    raise AnalysisError(f"binding table: store `{norm(st)}` in {f.qual} has no recognisable class")
                out |= found
    if not n_stores:
        raise AnalysisError(f"binding table: no store to {cls.qual}.{attr}")
    return sorted(out)


def _classes_in(prog: Program, t, depth: int = 0) -> set:
    found = set()
    # (the value comes out of a function of the package - `self._protocol = await self._connect()`: what that function returns)
    if depth < 3:
        for x in subterms(t):
            if x[0] == "call" and x[1][0] == "func" and x[1][1] in prog.funcs and x[1][1] not in prog.classes:
                try:
                    for _pc, rt, n_, _st in summarize(prog, prog.funcs[x[1][1]]).returns:
                        if n_ is not None:
                            found |= _classes_in(prog, rt, depth + 1)
                except AnalysisError:
                    pass
        if found:
            return found
    if t[0] == "call" and t[1][0] == "func" and t[1][1] in prog.classes:
        return {t[1][1]}
    if t[0] == "call" and t[1][0] == "dyn":
        direct = {z[1] for z in subterms(t[1]) if z[0] == "global" and z[1] in prog.classes}
        if direct:
            return direct
    # (transport, protocol) = await wait_for(loop.create_connection(lambda: X(), ...)) ; X in {A, B}
    for x in subterms(t):
        if x[0] == "lambda":
            for y in subterms(x[2]):
                if y[0] == "call":
                    fr = y[1]
                    if fr[0] == "func" and fr[1] in prog.classes:
                        found.add(fr[1])
                    elif fr[0] == "dyn":
                        for z in subterms(fr[1]):
                            if z[0] == "global" and z[1] in prog.classes:
                                found.add(z[1])
        # ... or create_connection(X, ...) with the class itself as the protocol factory
        if x[0] == "call" and x[1][0] == "meth" and x[1][2] in ("create_connection", "create_datagram_endpoint") and x[2]:
            for z in subterms(x[2][0]):
                if z[0] == "global" and z[1] in prog.classes:
                    found.add(z[1])
    return found
