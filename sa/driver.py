"""Command-line driver."""
from __future__ import annotations

import argparse
import importlib
import json
import os
import sys
import time
import traceback

from .model import AnalysisError, Program
from .report import Ctx

ALL = [f"C{i:02d}" for i in range(1, 21)]


def run_property(prop: str, tier: str = "quick", seed: int = 0, overlay=None, write=True, root=None) -> int:
    """One property on one tree.  When private names of the reference tree are missing and sa/names.py proposes a consistent rename, the
    analysis may be run under up to three alpha-equivalent namings (all proposed renames undone / only attribute renames undone / the
    names as they are): the obligations are about the program, not its spelling, so a run that discharges all of them under one naming
    has decided the property.  If none does, a run with findings is preferred to a refusal, and among those the one with the fewest findings."""
    import contextlib
    import io
    buf = io.StringIO()
    with contextlib.redirect_stdout(buf):
        rc = _run_property(prop, tier, seed, overlay, write, root, "auto")
    first = buf.getvalue()
    if rc == 0 or not LAST.get("renamed"):
        sys.stdout.write(first)
        sys.stdout.flush()
        return rc
    tried = {"auto": (rc, first)}
    fpairs = list(LAST.get("function_pairs") or [])
    # ... and, when several functions were matched, all pairs but one (the one that was really a split)
    for mode in ["attrs", "none"] + ([f"without:{n}" for n in fpairs] if 2 <= len(fpairs) <= 8 else []):
        buf = io.StringIO()
        with contextlib.redirect_stdout(buf):
            r = _run_property(prop, tier, seed, overlay, False, root, mode)
        tried[mode] = (r, buf.getvalue())
        if r == 0:
            break
    # no naming discharges everything: a run that found its anchors and reports findings says more than one that was refused for a missing
    # anchor (on every refactoring seen so far a spurious finding under a wrong mapping came with a clean alternative naming)
    best = min(tried, key=lambda m: (tried[m][0] != 0, tried[m][0] == 2, tried[m][1].count("  C"), list(tried).index(m)))
    if best == "auto" or not write:
        sys.stdout.write(tried[best][1])
        sys.stdout.flush()
        return tried[best][0]
    return _run_property(prop, tier, seed, overlay, write, root, best)          # again, to write this naming's evidence


LAST = {}


def _run_property(prop, tier, seed, overlay, write, root, rename) -> int:
    LAST.clear()
    try:
        mod = importlib.import_module(f"sa.rules.{prop.lower()}")
    except ModuleNotFoundError:
        print(f"ANALYSIS-ERROR property={prop} no rule module")
        return 2
    try:
        t0 = time.time()
        prog = Program(root=root, overlay=overlay, rename=rename)
        LAST["renamed"] = dict(prog.renamed)
        if rename == "auto":
            LAST["function_pairs"] = list((prog.rename_diag or {}).get("function_pairs", []))
        ctx = Ctx(prop, prog, tier=tier, seed=seed, write=write, t0=t0)
        mod.run(ctx)
        # common to every property: in the functions its rules looked at (and their helpers) no coroutine of the package is called and dropped
        from .shared import dropped_coroutines
        from .model import norm as _norm
        looked_at = [prog.funcs[q] for q in list(ctx.analysed["functions"]) if q in prog.funcs]
        for fq, node, callee in dropped_coroutines(prog, looked_at):
            ctx.ob(f"{prop}.await", fq, False, "", func=fq, file=prog.funcs[fq].module.rel, node=node, construct=_norm(node)[:80],
                   fail=f"`{_norm(node)[:60]}` calls the coroutine function {callee.split('.')[-1]} without awaiting it: the call never runs")
        from .shared import dropped_exceptions
        for fq, node, cls_ in dropped_exceptions(prog, looked_at):
            ctx.ob(f"{prop}.raise", fq, False, "", func=fq, file=prog.funcs[fq].module.rel, node=node, construct=_norm(node)[:80],
                   fail=f"`{_norm(node)[:60]}` builds a {cls_.split('.')[-1]} and drops it (no `raise`): the check it belongs to rejects nothing")
        if tier == "thorough" and overlay is None:
            thorough(ctx, mod)
        return ctx.finish()
    except BrokenPipeError:
        return 2
    except AnalysisError as e:
        print(f"ANALYSIS-ERROR property={prop} {e}")
        return 2
    except Exception as e:  # internal error: never a VIOLATION, never a silent pass
        traceback.print_exc()
        print(f"ANALYSIS-ERROR property={prop} internal error: {type(e).__name__}: {e}")
        return 2


def thorough(ctx, mod):
    """quick + package-wide sweeps (observations) + the self-validation corpus of the property's rules on overlays of
    the *current* tree.  A corpus failure with no violation on the current tree means the checker cannot vouch for
    'held': exit 2, never a manufactured VIOLATION."""
    from .selftest import run_corpus
    from .sweeps import all_sweeps
    if hasattr(mod, "thorough"):
        mod.thorough(ctx)
    ctx.extra["sweeps"] = all_sweeps(ctx.prog)
    rep = run_corpus(ctx.prop, jobs=int(os.environ.get("VERIF_JOBS", "16")))
    if rep is not None:
        ctx.extra["self_validation"] = {"variants": rep["total"], "as_expected": rep["ok"], "stale": rep["stale"],
                                        "failed": [f["name"] for f in rep["failed"]]}
        ctx.counts["self_validation_variants"] = rep["total"]
        for i in range(rep["ok"]):
            pass
        ctx.obligations.append({"rule": "selftest", "site": "sa/corpus", "verdict": "holds" if not rep["failed"] else "VIOLATED",
                                "what": f"{rep['ok']}/{rep['total']} one-construct variants of the current tree behave as expected "
                                        f"(violating variants reported, behaviour-preserving rewrites silent); stale: {len(rep['stale'])}"})
        if rep["failed"] and not ctx.findings:
            raise AnalysisError(f"self-validation failed for {[f['name'] for f in rep['failed']]}: the checker cannot vouch for 'held'")


def main(argv) -> int:
    ap = argparse.ArgumentParser(prog="check")
    ap.add_argument("prop", nargs="?")
    ap.add_argument("--tier", default=os.environ.get("VERIF_TIER", "quick"), choices=["quick", "thorough"])
    ap.add_argument("--explain")
    ap.add_argument("--no-write", action="store_true")
    ap.add_argument("--root", default=None)
    a = ap.parse_args(argv)
    seed = int(os.environ.get("VERIF_SEED", "0") or 0)
    if a.explain:
        rec = json.load(open(a.explain))
        print(json.dumps(rec, indent=1))
        return run_property(rec["property"], a.tier, seed, write=False, root=a.root)
    if not a.prop:
        ap.print_usage()
        return 2
    if a.prop == "all":
        worst = 0
        for p in ALL:
            worst = max(worst, run_property(p, a.tier, seed, write=not a.no_write, root=a.root))
        return worst
    return run_property(a.prop.upper(), a.tier, seed, write=not a.no_write, root=a.root)
