"""E9 - suspension-point analysis (cancellation points and windows in which the event loop can run something else).

A coroutine can be cancelled, and other callbacks / coroutines of the same loop (data_received, a concurrent refresh) can run, exactly at its
suspension points: `await`, `async for`, `async with`, asynchronous comprehensions.  Between two suspension points a coroutine is atomic.
Several properties rest on two program points lying in one atomic section ("the queue is drained and the request written without the loop
running in between", "the credentials are cached by the time the handshake has succeeded", "the command is a snapshot of the attributes
at the time apply() was called").  This module decides, for a function:

    sections(prog, fn, start, targets)   for every statement matched by `targets`: the suspension points that can be passed, on SOME path,
                                         between the most recent statement matched by `start` (or function entry when `from_entry`) and
                                         that statement - a may-analysis on the structured control flow (absint.Engine), helpers seen
                                         through; an empty list means the two always lie in one atomic section

`start` may match an `async for` loop as a whole (a drain): the loop's suspension points are its own, the section starts when it is left.
Nothing is executed; the only facts used are where the suspension points are.
"""
from __future__ import annotations

import ast
import copy
from typing import Callable, Dict, List, Optional

from .absint import EventAnalysis, Engine
from .model import FuncInfo, Program, norm

SEEN = "seen"
MARK = "__section_start__"


def suspends(node) -> bool:
    """the expression / simple statement contains a suspension point of its own (nested function bodies excluded)"""
    stack = [node]
    while stack:
        n = stack.pop()
        if isinstance(n, (ast.Await, ast.AsyncFor, ast.AsyncWith)):
            return True
        if isinstance(n, (ast.ListComp, ast.SetComp, ast.DictComp, ast.GeneratorExp)) and any(g.is_async for g in n.generators):
            return True
        for c in ast.iter_child_nodes(n):
            if isinstance(c, (ast.FunctionDef, ast.AsyncFunctionDef, ast.Lambda, ast.ClassDef)):
                continue
            stack.append(c)
    return False


def _is_mark(node) -> bool:
    return isinstance(node, ast.Expr) and isinstance(node.value, ast.Name) and node.value.id == MARK


def _clean(state):
    return frozenset(e for e in state if not (isinstance(e, tuple) and e[0] == "dirty"))


class _Sections(EventAnalysis):
    """may-analysis (join = union).  SEEN: a start event lies on some path to here; ('dirty', <construct>): on some path a suspension
    point was passed after the most recent start event."""
    inline_unknown = True

    def __init__(self, start: Optional[Callable], async_items, on_raise=None, ignore=None):
        super().__init__(must=False)
        self._start, self._async_items, self._on_raise, self._ignore = start, async_items, on_raise, ignore

    def _susp(self, node, state):
        if SEEN in state and not (self._ignore is not None and self._ignore(node)):
            return state | {("dirty", norm(node)[:70])}
        return state

    def _own_suspension(self, node) -> bool:
        """the statement suspends by itself - not only by awaiting a helper whose body the engine has just run in place (the suspension points
        of that body have been accounted for where they are; awaiting a coroutine that never suspends does not yield to the loop)"""
        from .helpers import unknown_callee
        eng = getattr(self, "engine", None)
        stack = [node]
        while stack:
            n = stack.pop()
            if isinstance(n, ast.Await) and isinstance(n.value, ast.Call) and eng is not None and eng._inline_depth < 4 \
                    and unknown_callee(eng.prog, eng.fn, n.value) is not None:
                stack += list(n.value.args) + [k.value for k in n.value.keywords]
                continue
            if isinstance(n, (ast.Await, ast.AsyncFor, ast.AsyncWith)):
                return True
            if isinstance(n, (ast.ListComp, ast.SetComp, ast.DictComp, ast.GeneratorExp)) and any(g.is_async for g in n.generators):
                return True
            for c in ast.iter_child_nodes(n):
                if not isinstance(c, (ast.FunctionDef, ast.AsyncFunctionDef, ast.Lambda, ast.ClassDef)):
                    stack.append(c)
        return False

    def stmt(self, node, state):
        if _is_mark(node):
            return _clean(state) | {SEEN}
        if isinstance(node, (ast.FunctionDef, ast.AsyncFunctionDef, ast.ClassDef)):
            return state
        if self._own_suspension(node):
            state = self._susp(node, state)
        if self._start is not None and self._start(node):
            state = _clean(state) | {SEEN}
        return state

    def branch(self, test, truth, state):
        return self._susp(test, state) if suspends(test) else state

    def for_bind(self, node, state):
        return self._susp(node.iter, state) if isinstance(node, ast.AsyncFor) or suspends(node.iter) else state

    def with_bind(self, item, state):
        return self._susp(item.context_expr, state) if id(item) in self._async_items or suspends(item.context_expr) else state

    def raises(self, node, state):
        if self._on_raise is None:
            return []
        out = []
        for exc, starts in self._on_raise(node):
            out.append((exc, (_clean(state) | {SEEN}) if starts else (self._susp(node, state) if suspends(node) else state)))
        return out


def _with_marks(body: List[ast.stmt], start) -> List[ast.stmt]:
    """the statement list with a marker statement after every loop matched by `start` (a drain loop); simple statements keep their identity,
    compound statements on the way are shallow copies"""
    out = []
    for s in body:
        s2 = s
        if any(isinstance(getattr(s, f, None), list) and getattr(s, f) and isinstance(getattr(s, f)[0], ast.stmt) for f in ("body", "orelse", "finalbody")) \
                and not isinstance(s, (ast.FunctionDef, ast.AsyncFunctionDef, ast.ClassDef)):
            s2 = copy.copy(s)
            for field in ("body", "orelse", "finalbody"):
                v = getattr(s2, field, None)
                if isinstance(v, list) and v and isinstance(v[0], ast.stmt):
                    setattr(s2, field, _with_marks(v, start))
            if isinstance(s2, ast.Try):
                hs = []
                for h in s2.handlers:
                    h2 = copy.copy(h)
                    h2.body = _with_marks(h.body, start)
                    hs.append(h2)
                s2.handlers = hs
        out.append(s2)
        if isinstance(s, (ast.AsyncFor, ast.For, ast.While)) and start(s):
            m = ast.Expr(value=ast.Name(id=MARK, ctx=ast.Load()))
            ast.copy_location(m, s)
            out.append(m)
    return out


def sections(prog: Program, fn: FuncInfo, start: Optional[Callable], targets: Callable, from_entry: bool = False, on_raise=None, ignore=None) -> Dict[ast.AST, List[str]]:
    """{target simple statement: the suspension points that can lie between the most recent start event (function entry when from_entry)
    and the statement, on some path ([] = the statement always runs in the atomic section the start event opened)}.  Paths on which no
    start event happened at all say nothing."""
    async_items = set()
    for f in prog.funcs.values():
        for n in ast.walk(f.node):
            if isinstance(n, ast.AsyncWith):
                async_items |= {id(i) for i in n.items}
    body = _with_marks(fn.node.body, start) if start is not None else fn.node.body
    a = _Sections(start, async_items, on_raise, ignore)
    eng = Engine(prog, fn, a)
    a.engine = eng
    eng.run(frozenset({SEEN}) if from_entry else frozenset(), body)
    res = {}
    for node, st in a.at.items():
        if isinstance(node, ast.stmt) and not _is_mark(node) and targets(node):
            res[node] = sorted(e[1] for e in st if isinstance(e, tuple) and e[0] == "dirty")
    return res


# ---------------------------------------------------------------------------------------------------------------------------------------
# predicates shared by the rules that use sections()

def simple(n) -> bool:
    return isinstance(n, (ast.Expr, ast.Assign, ast.AugAssign, ast.AnnAssign, ast.Return))


def self_call(n, *path, recv=("self", "cls")) -> bool:
    """the node contains a call self.<path>(...)"""
    for c in ast.walk(n):
        if isinstance(c, ast.Call):
            f, parts = c.func, []
            while isinstance(f, ast.Attribute):
                parts.append(f.attr)
                f = f.value
            if isinstance(f, ast.Name) and f.id in recv and tuple(reversed(parts)) == path:
                return True
    return False


def stores_self_attr(n, names, recv=("self", "cls")) -> bool:
    if not isinstance(n, (ast.Assign, ast.AnnAssign, ast.AugAssign)):
        return False
    tg = n.targets if isinstance(n, ast.Assign) else [n.target]
    flat = []
    for t in tg:
        flat += list(t.elts) if isinstance(t, (ast.Tuple, ast.List)) else [t]
    return any(isinstance(t, ast.Attribute) and t.attr in names and isinstance(t.value, ast.Name) and t.value.id in recv for t in flat)
