"""Affine forms over value-flow terms: c0 + Σ ci·sym_i with integer (Fraction) coefficients.

Symbols are arbitrary non-arithmetic terms (len(x), a field read, a loop-carried value ...).  Used for cursor
advances, declared-vs-actual lengths and framing constants."""
from __future__ import annotations

from fractions import Fraction
from typing import Dict, Optional, Tuple

from .facts import call_is, strip
from .terms import Term, is_const, show


class Lin:
    __slots__ = ("c", "t")

    def __init__(self, c=0, t: Optional[Dict[Term, Fraction]] = None):
        self.c = Fraction(c)
        self.t = {k: Fraction(v) for k, v in (t or {}).items() if v != 0}

    def __add__(self, o):
        o = o if isinstance(o, Lin) else Lin(o)
        t = dict(self.t)
        for k, v in o.t.items():
            t[k] = t.get(k, 0) + v
        return Lin(self.c + o.c, t)

    def __neg__(self):
        return Lin(-self.c, {k: -v for k, v in self.t.items()})

    def __sub__(self, o):
        o = o if isinstance(o, Lin) else Lin(o)
        return self + (-o)

    def scale(self, k):
        return Lin(self.c * k, {s: v * k for s, v in self.t.items()})

    def is_const(self):
        return not self.t

    def __eq__(self, o):
        o = o if isinstance(o, Lin) else Lin(o)
        return self.c == o.c and self.t == o.t

    def __hash__(self):
        return hash((self.c, tuple(sorted(self.t.items(), key=lambda kv: repr(kv[0])))))

    def __repr__(self):
        parts = [str(self.c)] if self.c or not self.t else []
        for s, v in self.t.items():
            parts.append((f"{v}*" if v != 1 else "") + show(s))
        return " + ".join(parts)


def lin(t: Term, subst=None) -> Optional[Lin]:
    """Affine form of an integer-valued term, or None when the term is not affine (treated as one symbol by callers)."""
    t = strip(t)
    if subst and t in subst:
        return subst[t]
    if is_const(t) and isinstance(t[1], (int, bool)):
        return Lin(int(t[1]))
    if t[0] == "enum":
        return Lin(t[3])
    if t[0] == "bin":
        op, a, b = t[1], lin(t[2], subst), lin(t[3], subst)
        if a is None or b is None:
            return Lin(0, {t: 1})
        if op == "+":
            return a + b
        if op == "-":
            return a - b
        if op == "*":
            if a.is_const():
                return b.scale(a.c)
            if b.is_const():
                return a.scale(b.c)
        return Lin(0, {t: 1})
    if t[0] == "un" and t[1] == "neg":
        a = lin(t[2], subst)
        return -a if a is not None else Lin(0, {t: 1})
    if t[0] == "call" and call_is(t, "int") and len(t[2]) == 1:
        return lin(t[2][0], subst)
    return Lin(0, {t: 1})
