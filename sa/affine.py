"""Affine forms over value-flow terms: c0 + Σ ci·sym_i with integer (Fraction) coefficients.

Symbols are arbitrary non-arithmetic terms (len(x), a field read, a loop-carried value ...).  Used for cursor
advances, declared-vs-actual lengths and framing constants."""
from __future__ import annotations

from fractions import Fraction
from typing import Dict, Optional, Tuple

from .facts import call_is, strip
from .terms import Term, is_const, show


class Lin:
    __slots__ = ("c", "t")

    def __init__(self, c=0, t: Optional[Dict[Term, Fraction]] = None):
        self.c = Fraction(c)
        self.t = {k: Fraction(v) for k, v in (t or {}).items() if v != 0}

    def __add__(self, o):
        o = o if isinstance(o, Lin) else Lin(o)
        t = dict(self.t)
        for k, v in o.t.items():
            t[k] = t.get(k, 0) + v
        return Lin(self.c + o.c, t)

    def __neg__(self):
        return Lin(-self.c, {k: -v for k, v in self.t.items()})

    def __sub__(self, o):
        o = o if isinstance(o, Lin) else Lin(o)
        return self + (-o)

    def scale(self, k):
        return Lin(self.c * k, {s: v * k for s, v in self.t.items()})

    def is_const(self):
        return not self.t

    def __eq__(self, o):
        o = o if isinstance(o, Lin) else Lin(o)
        return self.c == o.c and self.t == o.t

    def __hash__(self):
        return hash((self.c, tuple(sorted(self.t.items(), key=lambda kv: repr(kv[0])))))

    def __repr__(self):
        parts = [str(self.c)] if self.c or not self.t else []
        for s, v in self.t.items():
            parts.append((f"{v}*" if v != 1 else "") + show(s))
        return " + ".join(parts)


def lin(t: Term, subst=None) -> Optional[Lin]:
    """Affine form of an integer-valued term, or None when the term is not affine (treated as one symbol by callers)."""
    t = strip(t)
    if subst and t in subst:
        return subst[t]
    if is_const(t) and isinstance(t[1], (int, bool)):
        return Lin(int(t[1]))
    if t[0] == "enum":
        return Lin(t[3])
    if t[0] == "bin":
        op, a, b = t[1], lin(t[2], subst), lin(t[3], subst)
        if a is None or b is None:
            return Lin(0, {t: 1})
        if op == "+":
            return a + b
        if op == "-":
            return a - b
        if op == "*":
            if a.is_const():
                return b.scale(a.c)
            if b.is_const():
                return a.scale(b.c)
        return Lin(0, {t: 1})
    if t[0] == "un" and t[1] == "neg":
        a = lin(t[2], subst)
        return -a if a is not None else Lin(0, {t: 1})
    if t[0] == "call" and call_is(t, "int") and len(t[2]) == 1:
        return lin(t[2][0], subst)
    return Lin(0, {t: 1})


def from_lin(l: Lin) -> Term:
    """A canonical term for an affine form (symbols in a fixed order, constant last)."""
    parts = []
    for s, v in sorted(l.t.items(), key=lambda kv: repr(kv[0])):
        if v == 1:
            parts.append(s)
        elif v.denominator == 1:
            parts.append(("bin", "*", ("const", int(v)), s))
        else:
            return None
    if l.c.denominator != 1:
        return None
    acc = None
    for p in parts:
        acc = p if acc is None else ("bin", "+", acc, p)
    if acc is None:
        return ("const", int(l.c))
    if l.c != 0:
        acc = ("bin", "+", acc, ("const", int(l.c)))
    return acc


def offset_canon(t, B: Term, is_offset, used=None, plain_view=False):
    """Rewrite offset arithmetic on buffer B into operations on the view B[s:] (s: a term satisfying is_offset, 0 <= s <= len(B)
    is the caller's obligation):   B[s+a:s+b] -> B[s:][a:b]     B[s+a] -> B[s:][a]     len(B) - s -> len(B[s:])
    `used` (a list) receives one entry per rewrite."""
    if not isinstance(t, tuple):
        return t
    t = tuple(offset_canon(x, B, is_offset, used, plain_view) for x in t)
    if not t or not isinstance(t[0], str):
        return t

    def split(x):
        """x = s + rest with s an offset symbol of coefficient 1 -> (s, rest Lin)"""
        if x is None:
            return None
        l = lin(x)
        for sym, v in l.t.items():
            if v == 1 and is_offset(sym):
                return sym, l - Lin(0, {sym: 1})
        return None
    if t[0] == "slice" and strip(t[1]) == B and t[4] is None and (t[2] is not None or t[3] is not None):
        lo = split(t[2]) if t[2] is not None else None
        hi = split(t[3]) if t[3] is not None else None
        s = (lo or hi or (None,))[0]
        if s is not None and (t[2] is None) == (lo is None) and (t[3] is None or (hi is not None and hi[0] == s)) and (lo is None or lo[0] == s) and t[2] is not None:
            lo_t = from_lin(lo[1])
            hi_t = from_lin(hi[1]) if hi is not None else None
            if lo_t is not None and (hi is None or hi_t is not None):
                view = ("slice", B if plain_view else t[1], s, None, None)
                if lo_t == ("const", 0):
                    lo_t = None
                out = view if (lo_t is None and hi_t is None) else ("slice", view, lo_t, hi_t, None)
                if used is not None and out != t:
                    used.append(t)
                return out
    if t[0] == "sub" and strip(t[1]) == B:
        ix = split(t[2])
        if ix is not None:
            it = from_lin(ix[1])
            if it is not None:
                if used is not None:
                    used.append(t)
                return ("sub", ("slice", B if plain_view else t[1], ix[0], None, None), it)
    if t[0] == "cmp" and t[1] in ("<", "<=", ">", ">=", "==", "!="):
        # len(B) < s + X   is   len(B[s:]) < X     (any arrangement of the same affine comparison)
        try:
            d = lin(t[2]) - lin(t[3])
        except Exception:
            d = None
        if d is not None:
            for k, c in list(d.t.items()):
                if not (call_is(k, "len") and strip(k[2][0]) == B and c in (1, -1)):
                    continue
                for sym, v in list(d.t.items()):
                    if is_offset(sym) and v == -c:
                        rest = d - Lin(0, {k: c, sym: -c})
                        view_len = ("call", ("ext", "len"), (("slice", B if plain_view else k[2][0], sym, None, None),), ())
                        rhs = from_lin(-rest if c == 1 else rest)
                        if rhs is not None:
                            flip = {"<": ">", "<=": ">=", ">": "<", ">=": "<=", "==": "==", "!=": "!="}
                            if used is not None:
                                used.append(t)
                            return ("cmp", t[1] if c == 1 else flip[t[1]], view_len, rhs)
    if t[0] == "bin" and t[1] in ("-", "+"):
        l = lin(t)
        lens = [k for k, v in l.t.items() if call_is(k, "len") and strip(k[2][0]) == B]
        for k in lens:
            for sym, v in list(l.t.items()):
                if is_offset(sym) and v == -l.t[k]:
                    c = l.t[k]
                    l2 = l - Lin(0, {k: c, sym: -c}) + Lin(0, {("call", ("ext", "len"), (("slice", B if plain_view else k[2][0], sym, None, None),), ()): c})
                    out = from_lin(l2)
                    if out is not None:
                        if used is not None:
                            used.append(t)
                        return out
    return t
