"""Length invariant of the packets a length-framed data_received callback puts on its queue, derived from value-flow terms
(the same facts C04 / C01.e check): delivered = view[:N] under the guard len(view) >= N has length exactly N, and N's lower
bound follows from its form (int.from_bytes(..) + 8 >= 8, max(int.from_bytes(..), 56) >= 56).

Used by the may-raise analysis (E4) when its own value domain cannot bound the item length - e.g. when the callback works
with integer offsets into the buffer instead of a sliced view, or queues the packet from an extracted helper."""
from __future__ import annotations

import ast
from typing import Optional

from .affine import lin, offset_canon
from .facts import call_is, cases, meth_is, simplify, strip
from .helpers import ancestor_chains, term_lookup
from .model import FuncInfo, Program
from .paths import find_loops, int_lower_bounds
from .terms import State, is_const, summarize


def find_extraction(s, fn: FuncInfo):
    """(loop, buffer key): the loop of fn in which a self attribute is replaced by a slice / copy of itself."""
    self_p = fn.params[0]
    found = (None, None)
    for l in [l for l in find_loops(fn.node) if l in s.loops]:
        info = s.loops[l]
        for st in info["ends"] + info["continues"]:
            for k, v in st.env.items():
                if k.startswith(self_p + ".") and strip(v)[0] in ("slice", "call", "const", "ite") and v != info["head"].env.get(k) and k.count(".") == 1:
                    found = (l, k)
    return found


def reassembly_function(prog: Program, fn: FuncInfo):
    """(function, summary) that holds the extraction loop of a data_received callback: the callback itself, or - when it only appends the
    segment and hands over to one parameterless method the rules do not know (`self._process_buffer()`) - that method, summarised from the
    attribute state the callback leaves."""
    from .helpers import unknown_callee
    from .terms import replace
    s = summarize(prog, fn)
    if any(isinstance(n, (ast.While, ast.For)) for n in ast.walk(fn.node)) or not fn.params:
        return fn, s
    cands = []
    for st_ in fn.node.body:
        c = st_.value if isinstance(st_, ast.Expr) else None
        if isinstance(c, ast.Call) and isinstance(c.func, ast.Attribute) and isinstance(c.func.value, ast.Name) and c.func.value.id == fn.params[0] \
                and not c.args and not c.keywords:
            t = unknown_callee(prog, fn, c)
            if t is not None and len(t.params) == 1 and any(isinstance(n, ast.While) for n in ast.walk(t.node)):
                cands.append((st_, t))
    if len(cands) != 1 or cands[0][0] not in s.ta.env_at:
        return fn, s
    st_, h = cands[0]
    sp, hp = fn.params[0], h.params[0]
    ren = {("param", sp): ("param", hp)} if sp != hp else {}
    seed = {hp: ("param", hp)}
    for k, v in s.ta.env_at[st_].env.items():
        if k.startswith(sp + ".") and k.count(".") == 1:
            seed[hp + k[len(sp):]] = replace(v, ren) if ren else v
    return h, summarize(prog, h, seed)


def find_offset_form(s, fn: FuncInfo, data_p=None):
    """(loop, counter name, buffer key, B) for a callback that leaves the buffer B = buffer + data alone inside its loop and counts the bytes
    consumed in a local that is 0 at loop entry (the buffer is trimmed once on the way out); None when fn does not have this shape."""
    if len(fn.params) < 2 and data_p is None:
        return None
    self_p, data_p = fn.params[0], (data_p or fn.params[1])
    found = None
    for l in [l for l in find_loops(fn.node) if l in s.loops and isinstance(l, ast.While)]:
        info = s.loops[l]
        for k, v in info["entry"].env.items():
            if "." in k or v != ("const", 0) or info["head"].env.get(k) != ("loopvar", k, l.lineno):
                continue
            for bk, bv in info["entry"].env.items():
                ev_ = strip(bv)
                if bk.startswith(self_p + ".") and bk.count(".") == 1 and (
                        (ev_[0] == "bin" and ev_[1] == "+" and strip(ev_[3]) == ("param", data_p) and strip(ev_[2]) == ("attr", ("param", self_p), bk.split(".", 1)[1])) or
                        (ev_[0] == "mut" and ev_[1] == "extend" and len(ev_[3]) == 1 and strip(ev_[3][0]) == ("param", data_p)
                         and strip(ev_[2]) == ("attr", ("param", self_p), bk.split(".", 1)[1]))):
                    found = (l, k, bk, ev_)
    return found


def lower_bound(t, facts) -> Optional[int]:
    t = strip(t)
    if is_const(t) and isinstance(t[1], int) and not isinstance(t[1], bool):
        return t[1]
    if call_is(t, "int.from_bytes") and dict(t[3]).get("signed", ("const", False)) == ("const", False):
        return 0
    if call_is(t, "len"):
        return 0
    if call_is(t, "max") and len(t[2]) >= 2:
        bs = [lower_bound(x, facts) for x in t[2]]
        known = [b for b in bs if b is not None]
        return max(known) if known else None
    if call_is(t, "min") and len(t[2]) >= 2:
        bs = [lower_bound(x, facts) for x in t[2]]
        return min(bs) if all(b is not None for b in bs) else None
    if t[0] == "ite":
        a, b = lower_bound(t[2], facts), lower_bound(t[3], facts)
        return min(a, b) if a is not None and b is not None else None
    if t[0] == "bin" and t[1] == "+":
        a, b = lower_bound(t[2], facts), lower_bound(t[3], facts)
        return a + b if a is not None and b is not None else None
    if t[0] == "bin" and t[1] == "*":
        a, b = lower_bound(t[2], facts), lower_bound(t[3], facts)
        return a * b if a is not None and b is not None and a >= 0 and b >= 0 else None
    return int_lower_bounds(facts).get(t)


def put_length_bound(prog: Program, fn: FuncInfo) -> Optional[int]:
    """A lower bound for len(item) over every put_nowait(item) the callback (or a helper it calls) performs, or None."""
    try:
        data_p = fn.params[1] if len(fn.params) > 1 else None
        fn, s = reassembly_function(prog, fn)
        loop, buf_key = find_extraction(s, fn)
        plain = False
        if loop is None:
            off_form = find_offset_form(s, fn, data_p)
            if off_form is None:
                return None
            # offsets into the untouched buffer B, counted from B.find(marker, consumed): the view is B[that offset:]
            loop, cname, buf_key, Bh = off_form
            cvar, plain = ("loopvar", cname, loop.lineno), True
            if any(strip(st.env.get(buf_key, ("top",))) != Bh for st in s.loops[loop]["ends"] + s.loops[loop]["continues"]):
                return None

            def is_off(sym):
                y = strip(sym)
                return meth_is(y, "find") and strip(y[1][1]) == Bh and len(y[2]) == 2 and strip(y[2][1]) == cvar
        else:
            Bh = ("loopvar", buf_key, loop.lineno)

            def is_off(sym):
                y = strip(sym)
                return meth_is(y, "find") and strip(y[1][1]) == Bh
        info = s.loops[loop]
        used = []

        def oc(x):
            return offset_canon(x, Bh, is_off, used, plain_view=plain)
        sites = ancestor_chains(prog, fn, lambda f, n: isinstance(n.func, ast.Attribute) and n.func.attr == "put_nowait")
        tl = term_lookup(prog, fn)
        if not sites or any(not any(x is loop for ch in chains for x, _f in ch) for _f, _n, chains in sites):
            return None        # a put outside the extraction loop: not covered
        best = None
        edges = [State({k: oc(v) for k, v in st.env.items()}, tuple((oc(c), tr) for c, tr in st.pc)) for st in info["ends"] + info["continues"]]
        for st in edges:
            for facts in cases(st.pc):
                if used and not any(a[0] == "cmp" and ((is_off(a[2]) and (a[1], a[3]) in (("!=", ("const", -1)), (">=", ("const", 0)), (">", ("const", -1))))) for a in facts):
                    return None
                for _f, p, _ch in sites:
                    t = tl(p.args[0]) if p.args else None
                    if t is None:
                        return None
                    d = strip(oc(simplify(oc(t), facts)))
                    if not (d[0] == "slice" and d[2] is None and d[3] is not None and d[4] is None):
                        return None
                    V, N = strip(d[1]), d[3]
                    guard = any(f[0] == "cmp" and f[1] == ">=" and call_is(strip(f[2]), "len") and strip(strip(f[2])[2][0]) == V and lin(f[3]) == lin(N) for f in facts) or \
                        any(f[0] == "cmp" and f[1] == "<=" and call_is(strip(f[3]), "len") and strip(strip(f[3])[2][0]) == V and lin(f[2]) == lin(N) for f in facts)
                    if not guard:
                        return None
                    b = lower_bound(N, facts)
                    if b is None:
                        return None
                    best = b if best is None else min(best, b)
        return best
    except Exception:
        return None
