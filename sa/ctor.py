"""Constructor attribute resolution: the term each `self.<attr>` holds after `Class(...)` (following super().__init__)."""
from __future__ import annotations

import ast
from typing import Dict, Optional, Tuple

from .model import ClassInfo, Program
from .terms import Term, bind_args, summarize


def init_attrs(prog: Program, cls: ClassInfo, args: Optional[Dict[str, Term]] = None, depth=0) -> Dict[str, Term]:
    """attr -> term after cls.__init__(**args) (args keyed by the initialiser's parameter names)."""
    out: Dict[str, Term] = {}
    ini = prog.lookup_method(cls, "__init__")
    if ini is None or depth > 6:
        return out
    s = summarize(prog, ini, args or {})
    recv = ini.params[0]
    # statements in source order: super().__init__(...) calls splice the parent's attributes in
    for st in ini.node.body:
        for n in ast.walk(st):
            if isinstance(n, ast.Call) and n in s.ta.terms_at:
                t = s.ta.terms_at[n]
                if t[0] == "call" and t[1][0] == "func" and t[1][1].endswith(".__init__") and t[1][1] in prog.funcs:
                    parent = prog.funcs[t[1][1]]
                    amap = bind_args(parent, t[2], t[3])
                    out.update(init_attrs(prog, parent.cls, amap, depth + 1))
    final = None
    for _pc, _t, _n, rst in s.returns:
        final = rst
    if final is not None:
        for k, v in final.env.items():
            if k.startswith(recv + ".") and k.count(".") == 1:
                out[k.split(".", 1)[1]] = v
    return out
