"""C16 - property-protocol settings: sent once, correctly encoded, read back equal.

  C16.a  setter <-> id <-> getter map: each of the 7 setters stores its field and records an id on every path; the id
         is a key of _PROPERTY_MAP whose entry reads exactly that field; breeze setters choose BREEZE_CONTROL when
         advertised, else their legacy id (breeze_mild always BREEZE_CONTROL); the public getter reads the same field
  C16.b  exactly once: in apply an empty change set returns before any property command; props is built from the
         intersection of the change set and the map (evaluated on self); _apply_properties(props) is awaited, dominated
         by a non-empty change set; the change set is cleared on every normal completion that sent it, never before
         props was computed
  C16.c  wire encoding: PropertyId.encode per id vs vendor (0x0042 -> {off 1, on 2}; one byte = value for the other
         1-byte ids; 0x00E3 -> 13 bytes 00 01 switch 0×10); id constants and value lengths cross-read from the Lua;
         _apply_properties always adds the buzzer; command layouts are C12.f
  C16.d  decode side: PropertiesResponse._parse advances by 4 + len on every continuing path (record = LE16(id) ‖
         result ‖ len ‖ data); PropertyId.decode inverts encode on the value byte for the 1-byte ids and reads the
         iECO switch at data[1] (Lua l.2118-2120)
  C16.e  breeze exclusivity and precedence: three getters are equality tests of one attribute against three distinct
         members; _update_state consults BREEZE_CONTROL first and the legacy ids only in its else branch; refresh
         queries exactly the advertised set
"""
from __future__ import annotations

import ast

from ..absint import EventAnalysis, run_events
from ..facts import atoms, call_is, cases, meth_is, simplify, strip
from ..model import AnalysisError, is_self_attr, norm
from ..paths import CursorLoop
from ..reference import lua_property_writes, lua_text
from ..seq import Byte, Const, Layouts, Zeros, flatten, show_layout, total
from ..terms import is_const, mentions, show, subterms, summarize
from .c15 import check_cursor, record_loop

AC = "msmart.device.AC.device.AirConditioner"
CMD = "msmart.device.AC.command"
PID = f"{CMD}.PropertyId"
# setter -> (field, legacy id or fixed id, breeze member or None)
SETTERS = {
    "breeze_away": ("_breeze_mode", "BREEZE_AWAY", "BREEZE_AWAY"),
    "breeze_mild": ("_breeze_mode", "BREEZE_CONTROL", "BREEZE_MILD"),
    "breezeless": ("_breeze_mode", "BREEZELESS", "BREEZELESS"),
    "horizontal_swing_angle": ("_horizontal_swing_angle", "SWING_LR_ANGLE", None),
    "vertical_swing_angle": ("_vertical_swing_angle", "SWING_UD_ANGLE", None),
    "ieco": ("_ieco", "IECO", None),
    "rate_select": ("_rate_select", "RATE_SELECT", None),
}
# vendor value encodings of the ids msmart writes (Lua l.3455-3905): low id byte -> value length
VENDOR_LEN = {0x42: 1, 0x43: 1, 0x18: 1, 0x39: 1, 0x09: 1, 0x0A: 1, 0x1A: 1, 0x48: 1, 0xE3: 13}


def enum_name(t):
    return t[2] if t[0] == "enum" and t[1] == PID else None


def captured_value_conflicts(ctx, ac):
    prog = ctx.prog
    ap = prog.funcs.get(f"{AC}.apply")
    if ap is None:
        return False
    # the container handed to _apply_properties
    cont = None
    for n in ast.walk(ap.node):
        if isinstance(n, ast.Call) and isinstance(n.func, ast.Attribute) and n.func.attr == "_apply_properties" and n.args:
            for x in ast.walk(n.args[0]):
                if isinstance(x, ast.Attribute) and isinstance(x.value, ast.Name) and x.value.id == ap.params[0]:
                    cont = x.attr
    if cont is None:
        return False
    by_attr = {}
    for m in list(ac.methods.values()) + list(ac.props_set.values()):
        if not m.params:
            continue
        recv = m.params[0]
        keys, backs, withdraws = set(), set(), False
        for n in ast.walk(m.node):
            if isinstance(n, ast.Subscript) and isinstance(n.ctx, ast.Store) and isinstance(n.value, ast.Attribute) and n.value.attr == cont \
                    and isinstance(n.value.value, ast.Name) and n.value.value.id == recv:
                keys.add(norm(n.slice))
            if isinstance(n, ast.Attribute) and isinstance(n.ctx, ast.Store) and isinstance(n.value, ast.Name) and n.value.id == recv and n.attr != cont:
                backs.add(n.attr)
            if (isinstance(n, ast.Call) and isinstance(n.func, ast.Attribute) and n.func.attr in ("pop", "discard", "remove", "clear") and isinstance(n.func.value, ast.Attribute)
                    and n.func.value.attr == cont) or (isinstance(n, ast.Delete) and any(isinstance(t, ast.Subscript) and isinstance(t.value, ast.Attribute) and t.value.attr == cont
                                                                                        for t in n.targets)):
                withdraws = True
        if keys and not withdraws:
            for b in backs:
                by_attr.setdefault(b, {}).setdefault(m.qual, set()).update(keys)
    found = False
    for b, setters in sorted(by_attr.items()):
        all_keys = set().union(*setters.values())
        if len(setters) >= 2 and len(all_keys) >= 2:
            found = True
            ctx.violation("C16.b", AC, f"setters {sorted(q.split('.')[-1] for q in setters)} all write self.{b} but record the captured value under different ids "
                                       f"({sorted(all_keys)}) in self.{cont} without withdrawing the others: one apply sends several of these ids with values captured "
                                       "at different times for the same state (e.g. two breeze modes written as active)",
                          file=ac.module.rel, construct=f"self.{cont}[...] in setters of {b}")
    return found


def run(ctx):
    prog = ctx.prog
    L = Layouts(prog)
    ctx.explanation = ("def-use chains setter -> change set id -> _PROPERTY_MAP entry -> field -> getter; must/may event analysis of apply "
                       "(build / send / clear order); layouts of PropertyId.encode vs the vendor value encodings (lengths and ids re-read from "
                       "the Lua); cursor-advance analysis of the property response parser; precedence from the gated terms of _update_state")
    ctx.trusted = ["vendor value encodings (Lua lines cited)", "read-back equality through a live device is not decided"]
    ac = prog.cls(AC)
    pid = prog.cls(PID)
    ids = prog.enum_members(pid)
    # ---------------------------------------------------------------- _PROPERTY_MAP
    pm = ac.attrs.get("_PROPERTY_MAP")
    if not isinstance(pm, ast.Dict):
        # no table from ids to current values: the values may be captured by the setters instead (a mapping id -> value filled when a setter
        # runs and sent as it is).  That design is not decided here, except for one thing that is wrong in any version of it: two setters that
        # write the same backing attribute but record the value under different ids, without withdrawing the other id - both ids then go out
        # with values captured at different times for one piece of state (two breeze modes written as active)
        if captured_value_conflicts(ctx, ac):
            return          # (reported; the rest of the design is not decided)
        raise AnalysisError("AirConditioner._PROPERTY_MAP is not a dict literal")
    pmap = {}
    for k, v in zip(pm.keys, pm.values):
        kn = k.attr if isinstance(k, ast.Attribute) else None
        if kn is not None and isinstance(v, ast.Call) and len(v.args) == 1 and isinstance(v.args[0], ast.Constant) and isinstance(v.args[0].value, str) \
                and getattr(prog.resolve_expr(ac.module, v.func, ac), "name", "") == "operator.attrgetter":
            pmap[kn] = ([v.args[0].value], None, v)          # attrgetter("f") is lambda s: s.f
            continue
        if kn is None or not isinstance(v, ast.Lambda):
            raise AnalysisError(f"_PROPERTY_MAP entry `{norm(k)}` is not PropertyId.X: lambda")
        arg = v.args.args[0].arg
        fields = sorted({n.attr for n in ast.walk(v.body) if isinstance(n, ast.Attribute) and isinstance(n.value, ast.Name) and n.value.id == arg})
        member = None
        if isinstance(v.body, ast.Compare) and len(v.body.ops) == 1 and isinstance(v.body.ops[0], ast.Eq):
            member = norm(v.body.comparators[0]).split(".")[-1]
        pmap[kn] = (fields, member, v)
    ctx.count("map_entries", len(pmap))
    # ---------------------------------------------------------------- C16.a
    for name, (field, legacy, member) in SETTERS.items():
        st = ctx.setter(f"{AC}.{name}")
        ss = summarize(prog, st)
        sp, vp = st.params[0], st.params[1]
        ctx.count("setters")
        for pc, t, node, rst in ss.returns:
            fv = rst.env.get(f"{sp}.{field}")
            if member is None:
                f_ok = fv is not None and strip(fv) == ("param", vp)
            else:
                f_ok = fv is not None and fv[0] == "ite" and strip(fv[1]) == ("param", vp) and fv[2][0] == "enum" and fv[2][2] == member \
                    and fv[3][0] == "enum" and fv[3][2] == "OFF"
            ctx.ob("C16.a", st.qual, f_ok, f"{name} setter stores {'the value' if member is None else member + ' / OFF'} in self.{field}", func=st.qual, file=st.module.rel,
                   construct=f"{name}.setter field store", detail={"stored": show(fv)[:120] if fv else None},
                   fail=f"the {name} setter stores `{show(fv)[:80] if fv else 'nothing'}` in self.{field}")
            uv = rst.env.get(f"{sp}._updated_properties")
            added = None
            base_upd = ("attr", ("param", sp), "_updated_properties")

            def added_of(u):
                """the id added on every path: add(x) / add(a) if c else add(b) -> x / (a if c else b)"""
                if u is None:
                    return None
                if u[0] == "mut" and u[1] == "add" and u[2] == base_upd and len(u[3]) == 1:
                    return u[3][0]
                if u[0] == "ite":
                    a_, b_ = added_of(u[2]), added_of(u[3])
                    return ("ite", u[1], a_, b_) if a_ is not None and b_ is not None else None
                return None
            added = added_of(uv)
            if added is None:
                ctx.ob("C16.a", st.qual, False, "", func=st.qual, file=st.module.rel, construct=f"{name}.setter id record",
                       fail=f"the {name} setter does not record a changed property id on every path (the next apply will not transmit it)")
                continue
            sup = ("attr", ("param", sp), "_supported_properties")
            if name in ("breeze_away", "breezeless"):
                adv = ("cmp", "in", ("enum", PID, "BREEZE_CONTROL", ids["BREEZE_CONTROL"]), sup)
                nadv = ("cmp", "not in", ("enum", PID, "BREEZE_CONTROL", ids["BREEZE_CONTROL"]), sup)
                ok = added[0] == "ite" and enum_name(strip(simplify(added, [adv]))) == "BREEZE_CONTROL" and enum_name(strip(simplify(added, [nadv]))) == legacy
                recorded = {"BREEZE_CONTROL", legacy}
            else:
                ok = enum_name(added) == legacy
                recorded = {legacy}
            ctx.ob("C16.a", st.qual, ok, f"{name} setter records {'BREEZE_CONTROL when advertised else ' + legacy if name in ('breeze_away', 'breezeless') else legacy}",
                   func=st.qual, file=st.module.rel, construct=f"{name}.setter id record", detail={"recorded": show(added)[:160]},
                   fail=f"the {name} setter records `{show(added)[:100]}`")
            for rid in sorted(recorded):
                ent = pmap.get(rid)
                e_ok = ent is not None and ent[0] == [field] and (rid == "BREEZE_CONTROL" and ent[1] is None or rid != "BREEZE_CONTROL" and (member is None and ent[1] is None or member is not None and ent[1] == member))
                ctx.ob("C16.a", f"{AC}._PROPERTY_MAP", e_ok, f"_PROPERTY_MAP[{rid}] reads self.{field}" + (f" == {ent[1]}" if ent and ent[1] else ""), func=f"{AC}._PROPERTY_MAP",
                       file=ac.module.rel, construct=f"_PROPERTY_MAP[{rid}]", detail={"entry": norm(ent[2])[:100] if ent else None},
                       fail=f"_PROPERTY_MAP[{rid}] is `{norm(ent[2])[:80] if ent else 'missing'}`: the value sent for {name} is not the one the setter stored")
        g = ac.methods.get(name)
        gt = strip(summarize(prog, g).return_term()) if g is not None else None
        if member is None:
            g_ok = gt == ("attr", ("param", g.params[0]), field)
        else:
            g_ok = gt is not None and gt[0] == "cmp" and gt[1] == "==" and strip(gt[2]) == ("attr", ("param", g.params[0]), field) and gt[3][0] == "enum" and gt[3][2] == member
        ctx.ob("C16.a", f"{AC}.{name}", g_ok, f"public `{name}` reads self.{field}" + (f" == {member}" if member else ""), func=f"{AC}.{name}", file=ac.module.rel,
               construct=f"{name} getter", fail=f"public `{name}` getter is `{show(gt)[:80] if gt else None}`")
    # ---------------------------------------------------------------- C16.b the change set records *user* changes only
    # Reported state is stored in the private backing attributes.  A store through a public setter inside the response handlers
    # adds the id to the change set, so the next apply() writes back a value nobody asked for (and every refresh re-arms it).
    from ..helpers import with_helpers
    acls = prog.cls(AC)
    for q in (f"{AC}._update_state", f"{AC}._update_capabilities"):
        for f_ in with_helpers(prog, ctx.fn(q)):
            if not f_.params:
                continue
            for n in ast.walk(f_.node):
                tg = n.targets if isinstance(n, ast.Assign) else ([n.target] if isinstance(n, (ast.AugAssign, ast.AnnAssign)) else [])
                for t in tg:
                    for x in ast.walk(t):
                        if isinstance(x, ast.Attribute) and isinstance(x.ctx, ast.Store) and isinstance(x.value, ast.Name) and x.value.id == f_.params[0]:
                            ctx.count("response_stores")
                            via_setter = x.attr in acls.props_set
                            touches_set = x.attr == "_updated_properties"
                            ctx.ob("C16.b", q, not via_setter and not touches_set, f"reported value is stored in the backing attribute self.{x.attr}", func=q,
                                   file=f_.module.rel, node=n,
                                   fail=f"the response handler assigns self.{x.attr} through the public setter / touches the change set: state reported by the device "
                                        f"is recorded as a pending user change and written back by the next apply()")
            for n in ast.walk(f_.node):
                if isinstance(n, ast.Call) and isinstance(n.func, ast.Attribute) and n.func.attr in ("add", "update", "discard", "clear", "remove") \
                        and is_self_attr(n.func.value, "_updated_properties"):
                    ctx.ob("C16.b", q, False, "", func=q, file=f_.module.rel, node=n, fail="the response handler modifies the change set")
    # ---------------------------------------------------------------- C16.b apply
    ap = ctx.fn(f"{AC}.apply")
    aps = summarize(prog, ap)
    sp = ap.params[0]
    upd = ("attr", ("param", sp), "_updated_properties")
    from ..helpers import pc_lookup, term_lookup
    atl, apc = term_lookup(prog, ap), pc_lookup(prog, ap)

    def says_empty(c, truth):
        """(c is truth) states that the change set is empty"""
        c = strip(c)
        while c[0] == "un" and c[1] == "not":
            c, truth = strip(c[2]), not truth
        if call_is(c, "bool") and len(c[2]) == 1:
            c = strip(c[2][0])
        if c == upd or (call_is(c, "len") and strip(c[2][0]) == upd):
            return not truth
        if c[0] == "cmp":
            l, r, op = strip(c[2]), strip(c[3]), c[1]
            if is_const(l) and not is_const(r):
                l, r, op = r, l, {"<": ">", ">": "<", "<=": ">=", ">=": "<="}.get(op, op)
            if call_is(l, "len") and strip(l[2][0]) == upd and is_const(r) and isinstance(r[1], int):
                if not truth:
                    op = {"<": ">=", ">=": "<", ">": "<=", "<=": ">", "==": "!=", "!=": "=="}.get(op)
                return (op, r[1]) in (("==", 0), ("<", 1), ("<=", 0))
        return False

    def on_stmt(node, st):
        ev = []
        if isinstance(node, (ast.FunctionDef, ast.AsyncFunctionDef)):
            return ev
        for c in ast.walk(node):
            if isinstance(c, ast.Call) and isinstance(c.func, ast.Attribute):
                if c.func.attr == "_apply_properties":
                    ev.append("sent")
                if c.func.attr == "clear" and is_self_attr(c.func.value, "_updated_properties"):
                    ev.append("cleared")
            if isinstance(c, (ast.DictComp, ast.ListComp, ast.GeneratorExp)) and any(is_self_attr(x, "_updated_properties") for x in ast.walk(c)):
                ev.append("props_built")
        return ev
    must = EventAnalysis(must=True, on_stmt=on_stmt)
    cm = run_events(prog, ap, must)
    may = EventAnalysis(must=False, on_stmt=on_stmt)
    cy = run_events(prog, ap, may)
    sends = [n for n in must.at if isinstance(n, ast.Expr) and any(isinstance(c, ast.Call) and isinstance(c.func, ast.Attribute) and c.func.attr == "_apply_properties" for c in ast.walk(n))]
    ctx.count("send_sites", len(sends))
    ctx.ob("C16.b", ap.qual, len(sends) == 1, "apply has exactly one property-write site", func=ap.qual, file=ap.module.rel, construct="_apply_properties call sites",
           fail=f"{len(sends)} property-write sites in apply: a change is sent {len(sends)} times")
    for n in sends:
        pcn = (aps.ta.env_at[n].pc if n in aps.ta.env_at else None) or apc(n) or ()          # (also for a send that sits in a helper of apply)
        nonempty = any(says_empty(c, not truth) for c, truth in pcn)
        ctx.ob("C16.b", ap.qual, nonempty, "the property write is sent only when the change set is non-empty", func=ap.qual, file=ap.module.rel, node=n,
               detail={"pc": [show(c)[:80] + f" is {t}" for c, t in pcn]}, fail="a property write is sent although no property changed")
        t = atl(n.value.value if isinstance(n.value, ast.Await) else n.value)
        arg = t[2][-1] if t is not None and t[0] == "call" else None
        a_ok = False
        if arg is not None and arg[0] == "comp" and arg[1] == "dict":
            elt, gens = arg[2], arg[3]
            it = strip(gens[0][1]) if gens else None
            inter = it is not None and it[0] == "bin" and it[1] == "&" and {strip(it[2]), strip(it[3])} == {upd, ("call", ("meth", ("attr", ("param", sp), "_PROPERTY_MAP"), "keys"), (), ())}
            val = elt[1][1] if elt[0] == "tuple" else None
            ev_ok = val is not None and val[0] == "call" and val[1][0] == "dyn" and strip(val[1][1]) == ("sub", ("attr", ("param", sp), "_PROPERTY_MAP"), ("bound", gens[0][0])) \
                and val[2] == (("param", sp),) and elt[1][0] == ("bound", gens[0][0])
            a_ok = inter and ev_ok
        elif arg is not None and arg[0] == "loopvar":
            # statement form: props = {}; for k in change set ∩ map keys: props[k] = _PROPERTY_MAP[k](self)
            lp = next((l for l in aps.loops if getattr(l, "lineno", None) == arg[2] and isinstance(l, ast.For)), None)
            li = aps.loops.get(lp) if lp is not None else None
            if li and not li["breaks"] and not li["continues"] and len(li["ends"]) == 1 and li["body_entry"] is not None and li["ends"][0].pc == li["body_entry"].pc \
                    and strip(li["entry"].env.get(arg[1], ("top",))) in (("dict", ()), ("call", ("ext", "dict"), (), ())):
                itt = aps.ta.terms_at.get(lp.iter)
                it = strip(itt)
                inter = it[0] == "bin" and it[1] == "&" and {strip(it[2]), strip(it[3])} == {upd, ("call", ("meth", ("attr", ("param", sp), "_PROPERTY_MAP"), "keys"), (), ())}
                e = strip(li["ends"][0].env.get(arg[1], ("top",)))
                key = ("iter", itt)
                ev_ok = e[0] == "store" and e[1] == arg and strip(e[2]) == key and strip(e[3])[0] == "call" and strip(e[3])[1][0] == "dyn" \
                    and strip(strip(e[3])[1][1]) == ("sub", ("attr", ("param", sp), "_PROPERTY_MAP"), key) and strip(e[3])[2] == (("param", sp),)
                a_ok = inter and ev_ok
        ctx.ob("C16.b", ap.qual, a_ok, "props = {k: _PROPERTY_MAP[k](self) for k in change set ∩ map keys}", func=ap.qual, file=ap.module.rel, node=n,
               detail={"props": show(arg)[:200] if arg else None}, fail=f"props is `{show(arg)[:120] if arg else None}`: not the current value of every changed property")
    # (that the change set is read before it is cleared is part of the term check above: a cleared set is a different term)
    # every completion: the properties were sent or the change set was tested empty on the way ("settled" on every path), and
    # no path sends without clearing afterwards ("unsettled" on no path) - both are insensitive to how the paths are merged
    def settled_branch(test, truth, st):
        t = atl(test)
        return ["settled"] if t is not None and says_empty(t, truth) else []
    settled = EventAnalysis(must=True, on_stmt=lambda node, st: ["settled"] if "sent" in on_stmt(node, st) else [], on_branch=settled_branch)
    c_set = run_events(prog, ap, settled)
    # (a clear that precedes the send on every path - after props was computed, see the term check - settles it just as well)
    pending = EventAnalysis(must=False, on_stmt=lambda node, st: ["unsettled"] if "sent" in on_stmt(node, st) and "cleared" not in must.at.get(node, ()) else [],
                            kill=lambda node, e: e == "unsettled" and "cleared" in on_stmt(node, None))
    c_pen = run_events(prog, ap, pending)
    for (st_s, node), (st_p, _n2), (st_y, _n3) in zip(c_set.returns, c_pen.returns, cy.returns):
        if "sent" in st_y:
            ctx.count("completions_after_send")
        ctx.ob("C16.b", ap.qual, "unsettled" not in st_p, "every normal completion that sent the properties has cleared the change set", func=ap.qual, file=ap.module.rel,
               construct="completion after send", fail="apply can complete after sending without clearing the change set: the same write is repeated by the next apply")
        ctx.ob("C16.b", ap.qual, "settled" in st_s, "a completion without a property write happens only when the change set is empty", func=ap.qual, file=ap.module.rel,
               node=node, fail="apply can return without sending although properties changed")
    apr = ctx.fn(f"{AC}._apply_properties")
    aprs = summarize(prog, apr)
    bz = False
    for n, t in aprs.ta.terms_at.items():
        if isinstance(n, ast.Call) and call_is(t, f"{CMD}.SetPropertiesCommand"):
            a = t[2][0]
            bz = a[0] == "store" and enum_name(a[2]) == "BUZZER" and strip(a[3]) == ("attr", ("param", apr.params[0]), "_beep_on") and a[1] == ("param", apr.params[1])
    ctx.ob("C16.c", apr.qual, bz, "_apply_properties sends the caller's properties plus BUZZER = beep setting", func=apr.qual, file=apr.module.rel, construct="SetPropertiesCommand(properties)",
           fail="_apply_properties no longer adds the buzzer property / sends something else than the given properties")
    # ---------------------------------------------------------------- C16.c encode
    lua = lua_text(prog.root)
    writes = lua_property_writes(lua)
    for lo, ln in VENDOR_LEN.items():
        ctx.ob("C16.ref", "reference", lo in writes and ln in writes[lo], f"vendor Lua writes property 0x{lo:04X} with a {ln}-byte value", func="reference", file="reference",
               construct=f"Lua property 0x{lo:02X}", fail=f"the vendor Lua does not write property 0x{lo:04X} with length {ln} (reference drifted): {writes.get(lo)}")
    want_ids = {"SWING_UD_ANGLE": 0x09, "SWING_LR_ANGLE": 0x0A, "BREEZELESS": 0x18, "BUZZER": 0x1A, "SELF_CLEAN": 0x39, "BREEZE_AWAY": 0x42, "BREEZE_CONTROL": 0x43,
                "RATE_SELECT": 0x48, "IECO": 0xE3}
    for nme, v in want_ids.items():
        ctx.ob("C16.c", PID, ids.get(nme) == v, f"PropertyId.{nme} = 0x{v:04X}", func=PID, file=pid.module.rel, construct=f"PropertyId.{nme}", fail=f"PropertyId.{nme} is {ids.get(nme)}")
    # the value written under BREEZE_CONTROL is the BreezeMode member itself: its numbering is the vendor's
    # (Lua: checkBoundary(streams[KEY_FA_NO_WIND_SENSE], 1, 4); report decode 1 = neither, 2 = prevent straight wind, 3 = gentle wind, 4 = no wind sense)
    import re as _re
    mb = _re.search(r'checkBoundary\(streams\[keyT\["KEY_FA_NO_WIND_SENSE"\]\],\s*(\d+),\s*(\d+)\)', lua)
    ctx.ob("C16.ref", "reference", mb is not None and (int(mb.group(1)), int(mb.group(2))) == (1, 4), "vendor Lua bounds the breeze-control value to 1..4", func="reference",
           file="reference", construct="Lua fa_no_wind_sense bounds", fail="the vendor Lua no longer bounds fa_no_wind_sense to 1..4 (reference drifted)")
    bmc = prog.cls(f"{AC}.BreezeMode")
    bm = {k: v for k, v in prog.enum_members(bmc).items() if k != "DEFAULT"}
    want_bm = {"OFF": 1, "BREEZE_AWAY": 2, "BREEZE_MILD": 3, "BREEZELESS": 4}
    ctx.ob("C16.c", bmc.qual, bm == want_bm, "BreezeMode members carry the vendor's values (off 1, away 2, mild 3, breezeless 4)", func=bmc.qual, file=bmc.module.rel,
           construct="BreezeMode values", detail={"members": bm}, fail=f"BreezeMode values {bm} differ from the vendor encoding {want_bm}: the value written under BREEZE_CONTROL is the member's value")
    en = ctx.fn(f"{PID}.encode")
    ens = summarize(prog, en)
    self_e = en.params[0]
    arg0 = ("sub", ("param", "args"), ("const", 0))
    seen_enc = {}
    # the encoded value as one gated term; for each id: assume `self == id` (and `self != every other id`) and read the layout
    # of what remains - whatever the order and nesting of the tests (elif chain, guard clauses, inverted tests)
    T = ens.return_term()
    selfp = ("param", self_e)
    tested = sorted({enum_name(strip(y)) for x in subterms(T) if x[0] == "cmp" and x[1] in ("==", "!=", "is", "is not") for y in (x[2], x[3]) if enum_name(strip(y))})
    tested_terms = {enum_name(strip(y)): strip(y) for x in subterms(T) if x[0] == "cmp" for y in (x[2], x[3]) if enum_name(strip(y))}

    def facts_for(which):
        fs = [x for x in subterms(T) if x[0] == "attr" and x[1] == selfp and x[2] == "_supported"]      # (encode of an unsupported id raises)
        for nme in tested:
            e = tested_terms[nme]
            for op_eq, op_ne in (("==", "!="), ("is", "is not")):
                fs.append(("cmp", op_eq if nme == which else op_ne, selfp, e))
                fs.append(("cmp", op_eq if nme == which else op_ne, e, selfp))
        return fs

    def value_leaves(t, conds=()):
        t = strip(t)
        if t[0] == "ite":
            yield from value_leaves(t[2], conds + ((t[1], True),))
            yield from value_leaves(t[3], conds + ((t[1], False),))
        else:
            yield conds, t
    for which in tested + ["<other>"]:
        tw = simplify(T, facts_for(which))
        ctx.count("encode_leaves")
        node = en.node
        if which == "BREEZE_AWAY":
            vals = {}
            shape_ok = True
            for conds, leaf in value_leaves(tw):
                lay = flatten(L.layout(leaf))
                if len(lay) == 1 and isinstance(lay[0], Byte) and strip(lay[0].term) == ("ite", arg0, ("const", 2), ("const", 1)) and not conds:
                    vals = {True: 2, False: 1}
                    continue
                try:
                    cs_ = cases(tuple((f_, True) for f_ in facts_for(which)) + tuple(conds))
                except ValueError:
                    cs_ = []
                ats = [strip(a) for a in cs_[0]] if len(cs_) == 1 else [strip(a) for a in atoms(conds)]
                on = [True for a in ats if a == arg0] + [False for a in ats if a == ("un", "not", arg0)]
                if len(lay) == 1 and isinstance(lay[0], Const) and len(lay[0].b) == 1 and len(on) == 1:
                    vals[on[0]] = lay[0].b[0]
                else:
                    shape_ok = False
            ok = shape_ok and vals == {True: 2, False: 1}
            seen_enc[which] = tw
            ctx.ob("C16.c", en.qual, ok, "BREEZE_AWAY value = 2 (on) / 1 (off)", func=en.qual, file=en.module.rel, construct="encode BREEZE_AWAY", detail={"value": show(tw)[:160]},
                   fail=f"BREEZE_AWAY is encoded as {show(tw)[:80]} (vendor: on 2 / off 1)")
            continue
        lay = flatten(L.layout(tw))
        seen_enc[which] = lay
        if which == "IECO":
            ok = total(lay).is_const() and int(total(lay).c) == 13 and len(lay) >= 2 and isinstance(lay[0], Const) and lay[0].b == b"\x00\x01" and isinstance(lay[1], Byte) and lay[1].term == arg0 \
                and all(isinstance(x, (Zeros, Const)) and (not isinstance(x, Const) or set(x.b) <= {0}) for x in lay[2:])
            ctx.ob("C16.c", en.qual, ok, "IECO value = 13 bytes: frame 0, number 1, switch, 0 × 10", func=en.qual, file=en.module.rel, construct="encode IECO", detail={"layout": show_layout(lay)},
                   fail=f"IECO is encoded as {show_layout(lay)[:100]} ({total(lay)} bytes; vendor: 13 bytes 00 01 switch 00…)")
        else:
            ok = len(lay) == 1 and lay[0].kind == "opaque" and lay[0].keyterm == ("slice", ("param", "args"), ("const", 0), ("const", 1), None)
            ctx.ob("C16.c", en.qual, ok, f"{which}: one byte = the value", func=en.qual, file=en.module.rel, construct=f"encode {which}", detail={"layout": show_layout(lay)},
                   fail=f"1-byte properties are encoded as {show_layout(lay)[:80]}")
    ctx.ob("C16.c", en.qual, {"BREEZE_AWAY", "IECO", "<other>"} <= set(seen_enc), "encode distinguishes BREEZE_AWAY, IECO and the 1-byte ids", func=en.qual, file=en.module.rel,
           construct="encode dispatch", fail=f"encode dispatch changed: {sorted(seen_enc)}")
    # ---------------------------------------------------------------- C16.d decode
    pr = ctx.fn(f"{CMD}.PropertiesResponse._parse")
    prs = summarize(prog, pr)
    cl = record_loop(ctx, prs, pr, cursor_candidates=("props",))
    prs = cl.s                # (seen through the view rewrite when the cursor is an integer offset)
    nb = check_cursor(ctx, "C16.d", cl, pr, 4, 3, "property-record")
    ctx.count("back_edges", nb)
    # integer field reads of the record (struct.unpack / unpack_from / int.from_bytes spellings share one canonical term)
    idt = {x for t in prs.ta.terms_at.values() for x in subterms(t) if call_is(x, "int.from_bytes") and x[2] and mentions(x[2][0], cl.c0)}
    id_ok = bool(idt) and all(strip(t[2][0]) in (("slice", cl.c0, ("const", 0), ("const", 2), None), ("slice", cl.c0, None, ("const", 2), None))
                              and t[2][1:] == (("const", "little"),) and not t[3] for t in idt)
    ctx.ob("C16.d", pr.qual, id_ok, "record id = LE16 at the record start", func=pr.qual, file=pr.module.rel, construct="struct.unpack('<H', props[0:2])", fail="the property id is not read little-endian from the first two record bytes")
    dcalls = [t for n, t in prs.ta.terms_at.items() if isinstance(n, ast.Call) and meth_is(t, "decode")]
    d_ok = bool(dcalls) and all(strip(t[2][0]) == ("slice", cl.c0, ("const", 4), None, None) and call_is(strip(t[1][1]), PID) for t in dcalls)
    ctx.ob("C16.d", pr.qual, d_ok, "the value handed to PropertyId.decode starts at record byte 4 (after id, result, length)", func=pr.qual, file=pr.module.rel,
           construct="property.decode(props[4:])", fail="the property value is not read from record byte 4 on")
    de = ctx.fn(f"{PID}.decode")
    des = summarize(prog, de)
    dp = de.params[1]
    d0, d1 = ("sub", ("param", dp), ("const", 0)), ("sub", ("param", dp), ("const", 1))
    # the decoded value as one gated term, read under `self == id` for every id the function distinguishes (any test order / form)
    TD = des.return_term()
    selfd = ("param", de.params[0])
    d_terms = {}
    for x in subterms(TD):
        if x[0] == "cmp":
            for y in (x[2], x[3]):
                ys = strip(y)
                if enum_name(ys):
                    d_terms[enum_name(ys)] = ys
                elif ys[0] in ("list", "tuple", "set"):
                    for z in ys[1]:
                        if enum_name(strip(z)):
                            d_terms[enum_name(strip(z))] = strip(z)

    def dfacts(which):
        fs = [x for x in subterms(TD) if x[0] == "attr" and x[1] == selfd and x[2] == "_supported"]
        for nme, e in d_terms.items():
            for op_eq, op_ne in (("==", "!="), ("is", "is not")):
                fs.append(("cmp", op_eq if nme == which else op_ne, selfd, e))
                fs.append(("cmp", op_eq if nme == which else op_ne, e, selfd))
        return fs
    exp = {"BREEZELESS": ("call", ("ext", "bool"), (d0,), ()), "SELF_CLEAN": ("call", ("ext", "bool"), (d0,), ()), "BREEZE_AWAY": ("cmp", "==", d0, ("const", 2)),
           "BUZZER": ("const", None), "IECO": ("call", ("ext", "bool"), (d1,), ()), "<other>": d0}
    for k, want in exp.items():
        gotv = strip(simplify(TD, dfacts(k)))
        ctx.count("decode_leaves")
        ctx.ob("C16.d", de.qual, gotv == want, f"decode[{k}] = {show(want)} (inverse of encode on the value byte; iECO switch at data[1], Lua l.2118-2120)", func=de.qual,
               file=de.module.rel, construct=f"decode {k}", detail={"got": show(gotv)[:120]},
               fail=f"decode for {k} is `{show(gotv)[:100]}`, expected `{show(want)}`")
    ctx.ob("C16.d", de.qual, set(d_terms) >= {"BREEZELESS", "SELF_CLEAN", "BREEZE_AWAY", "BUZZER", "IECO"}, "decode distinguishes the five special ids", func=de.qual,
           file=de.module.rel, construct="decode dispatch", fail=f"decode dispatch changed: distinguishes {sorted(d_terms)}")
    # ---------------------------------------------------------------- C16.e
    members = set()
    for nme in ("breeze_away", "breeze_mild", "breezeless"):
        gt = strip(summarize(prog, ac.methods[nme]).return_term())
        if gt[0] == "cmp" and gt[1] == "==" and gt[3][0] == "enum":
            members.add(gt[3][3])
    ctx.ob("C16.e", AC, len(members) == 3, "the three breeze getters test one attribute against three distinct members (at most one is true)", func=AC, file=ac.module.rel,
           construct="breeze getters", fail="two breeze getters test the same member: both can report active")
    us = ctx.fn(f"{AC}._update_state")
    uss = summarize(prog, us)
    bm = None
    for _pc, _t, _n, rst in uss.returns:
        bm = rst.env.get(f"{us.params[0]}._breeze_mode")
    prec = False
    if bm is not None:
        # the value with BREEZE_CONTROL present must not consult the legacy ids; with it absent it consults both
        ctl = None
        for x in subterms(bm):
            if x[0] == "cmp" and x[1] in ("is not", "is") and x[3] == ("const", None) and meth_is(strip(x[2]), "get_property") \
                    and enum_name(strip(x[2])[2][0]) == "BREEZE_CONTROL":
                ctl = x[2]
        if ctl is not None:
            def ids(t):
                return {enum_name(strip(y)[2][0]) for y in subterms(t) if meth_is(strip(y), "get_property")}
            present = simplify(bm, [("cmp", "is not", ctl, ("const", None))])
            absent = simplify(bm, [("cmp", "is", ctl, ("const", None))])
            prec = not ({"BREEZE_AWAY", "BREEZELESS"} & ids(present)) and "BREEZE_CONTROL" in ids(present) and {"BREEZE_AWAY", "BREEZELESS"} <= ids(absent)
    ctx.ob("C16.e", us.qual, prec, "BREEZE_CONTROL is consulted first; BREEZE_AWAY / BREEZELESS only when it is absent", func=us.qual, file=us.module.rel,
           construct="breeze precedence", fail="breeze precedence changed: a legacy id can override BREEZE_CONTROL")
    # advertised ids: a property id is added to the supported set because the device advertised the capability with the *same* wire id
    # (capability record id -> reader name -> CapabilitiesResponse property -> PropertyId): a swapped reader name makes the client query and
    # write an id the device never advertised
    capc = prog.cls(f"{CMD}.CapabilitiesResponse")
    cap_ids = prog.cls(f"{CMD}.CapabilityId")
    readers = {}
    for f_ in with_helpers(prog, ctx.fn(f"{CMD}.CapabilitiesResponse._parse_capabilities")):
        for n in ast.walk(f_.node):
            if isinstance(n, ast.Dict):
                for k, v in zip(n.keys, n.values):
                    if isinstance(k, ast.Attribute) and isinstance(k.value, ast.Name) and k.value.id == "CapabilityId":
                        for c in (v.elts if isinstance(v, ast.List) else [v]):
                            if isinstance(c, ast.Call) and c.args and isinstance(c.args[0], ast.Constant) and isinstance(c.args[0].value, str):
                                readers.setdefault(c.args[0].value, set()).add(k.attr)
    cap_vals = {m: prog.fold_or_none(cap_ids.attrs.get(m), cap_ids.module, cap_ids) for m in prog.enum_members(cap_ids)}
    pid_vals = {m: prog.fold_or_none(pid.attrs.get(m), pid.module, pid) for m in prog.enum_members(pid)}
    ucap = ctx.fn(f"{AC}._update_capabilities")
    ucs = summarize(prog, ucap)
    resp_p = ucap.params[1]
    additions = []          # (statement, id expression, extra gate expressions)
    for n in ast.walk(ucap.node):
        if not (isinstance(n, ast.Expr) and isinstance(n.value, ast.Call) and isinstance(n.value.func, ast.Attribute) and n.value.args
                and is_self_attr(n.value.func.value, "_supported_properties") and n in ucs.ta.env_at):
            continue
        a0 = n.value.args[0]
        if n.value.func.attr == "add":
            additions.append((n, a0, []))
        elif n.value.func.attr == "update" and isinstance(a0, (ast.GeneratorExp, ast.ListComp, ast.SetComp)) and len(a0.generators) == 1 \
                and isinstance(a0.generators[0].iter, (ast.Tuple, ast.List)) and isinstance(a0.generators[0].target, ast.Tuple) \
                and all(isinstance(t_, ast.Name) for t_ in a0.generators[0].target.elts) and isinstance(a0.elt, ast.Name):
            # .update(id for id, capable in ((ID, res.flag), ...) if capable): one gated addition per literal row
            g_ = a0.generators[0]
            names_ = [t_.id for t_ in g_.target.elts]
            for row in g_.iter.elts:
                if isinstance(row, (ast.Tuple, ast.List)) and len(row.elts) == len(names_) and a0.elt.id in names_:
                    bind = dict(zip(names_, row.elts))
                    additions.append((n, bind[a0.elt.id], [bind[c_.id] for c_ in g_.ifs if isinstance(c_, ast.Name) and c_.id in bind]))
        elif n.value.func.attr == "update" and isinstance(a0, (ast.Set, ast.List, ast.Tuple)):
            additions.extend((n, el, []) for el in a0.elts)
    for n, id_expr, extra in additions:
        if True:
            idn = enum_name(ucs.ta.terms_at.get(id_expr) or ucs.term(id_expr))
            if idn is None:
                continue
            gates = [strip(a) for a in atoms(ucs.ta.env_at[n].pc)] + [strip(ucs.ta.terms_at.get(x_) or ucs.term(x_)) for x_ in extra]
            keys_ = []
            for a in gates:
                if a[0] == "attr" and a[1] == ("param", resp_p):
                    g_ = capc.methods.get(a[2])
                    if g_ is not None and g_.kind == "property":
                        for x in subterms(summarize(prog, g_).return_term()):
                            if meth_is(x, "get") and x[2] and is_const(x[2][0]) and isinstance(x[2][0][1], str):
                                keys_.append(x[2][0][1])
            srcs = set().union(*[readers.get(k_, set()) for k_ in keys_]) if keys_ else set()
            if not srcs:
                continue          # (not advertised by a record of its own: rate levels, iECO)
            ctx.count("advertised_ids")
            same = any(cap_vals.get(m) is not None and cap_vals.get(m) == pid_vals.get(idn) for m in srcs)
            ctx.ob("C16.a", ucap.qual, same, f"PropertyId.{idn} is supported when the capability record with the same id was advertised ({sorted(srcs)})", func=ucap.qual,
                   file=ucap.module.rel, node=n, detail={"capability_ids": {m: cap_vals.get(m) for m in sorted(srcs)}, "property_id": pid_vals.get(idn)},
                   fail=f"PropertyId.{idn} (0x{pid_vals.get(idn) or 0:04X}) is marked supported from capability record(s) {sorted(srcs)} "
                        f"({', '.join('0x%04X' % (cap_vals.get(m) or 0) for m in sorted(srcs))}): the client queries and writes an id the device did not advertise")
    # only apply (what it calls) takes ids out of the pending set: anything else that clears it (a refresh, a capability update, a response
    # handler) makes the next apply send nothing for a setting the user changed - "transmitted by the next apply after they change" fails
    def self_calls(f_):
        out_ = set()
        for n_ in ast.walk(f_.node):
            if isinstance(n_, ast.Call) and isinstance(n_.func, ast.Attribute) and isinstance(n_.func.value, ast.Name) and f_.params and n_.func.value.id == f_.params[0]:
                m_ = prog.lookup_method(ac, n_.func.attr)
                if m_ is not None:
                    out_.add(m_.qual)
        return out_
    applyf = ctx.fn(f"{AC}.apply")
    allowed_, todo_ = {applyf.qual}, [applyf]
    while todo_:
        f_ = todo_.pop()
        for q_ in self_calls(f_):
            if q_ not in allowed_ and q_ in prog.funcs:
                allowed_.add(q_)
                todo_.append(prog.funcs[q_])
    REMOVERS = {"clear", "discard", "remove", "pop", "difference_update", "intersection_update", "symmetric_difference_update"}
    takers = []
    for k_ in [ac] + [c_ for c_ in prog.subclasses(ac) if c_ is not ac]:
        for m_ in list(k_.methods.values()) + list(k_.props_set.values()):
            if m_.qual in allowed_ or m_.name == "__init__" or not m_.params:
                continue
            for n_ in ast.walk(m_.node):
                if isinstance(n_, ast.Call) and isinstance(n_.func, ast.Attribute) and n_.func.attr in REMOVERS and is_self_attr(n_.func.value, "_updated_properties", (m_.params[0],)):
                    takers.append((m_, n_))
                if isinstance(n_, (ast.Assign, ast.AugAssign, ast.AnnAssign)):
                    for t_ in (n_.targets if isinstance(n_, ast.Assign) else [n_.target]):
                        if is_self_attr(t_, "_updated_properties", (m_.params[0],)) and not (isinstance(n_, ast.AugAssign) and isinstance(n_.op, ast.BitOr)):
                            takers.append((m_, n_))
    ctx.count("pending_set_removers", len(takers))
    ctx.ob("C16.b", f"{AC}.apply", not takers, "only apply (and what it calls) takes ids out of the set of changed properties", func=takers[0][0].qual if takers else f"{AC}.apply",
           file=ac.module.rel, node=takers[0][1] if takers else None, construct="removers of _updated_properties",
           fail=(f"{takers[0][0].qual} empties / rebinds the set of changed properties (`{norm(takers[0][1])[:60]}`): a setting changed before it runs is never "
                 "transmitted by the next apply") if takers else "")
    # the values of one properties response are its own (C14.c's rule, on the class this property reads back from)
    from ..shared import check as shared_check
    shared_check(ctx, "C16.e", [prog.cls(f"{CMD}.PropertiesResponse")], "the properties response")
    # ... the capabilities _update_capabilities sees are the merged ones (first page + additional page, in that direction): C15.d's obligation
    from . import c15
    ctx.import_rules(c15, "t15", only=("C15.d",))
    ctx.require_min("advertised_ids", 4)
    # read-back: a property the response carries - whatever its value, also False / 0 / OFF - replaces the backing attribute; one it does
    # not carry leaves it alone (the gate is `get_property(id) is not None`, not the value's truth)
    final_env = None
    for _pc, _t, _n, rst in uss.returns:
        final_env = rst.env
    readback = {k: v[0][0] for k, v in pmap.items() if len(v[0]) == 1 and not k.startswith("BREEZE")}
    readback["SELF_CLEAN"] = "_self_clean_active"
    for idn, attr_ in sorted(readback.items()):
        v_ = final_env.get(f"{us.params[0]}.{attr_}") if final_env else None
        gp = None
        for x in subterms(v_) if v_ is not None else ():
            if meth_is(strip(x), "get_property") and strip(x)[2] and enum_name(strip(x)[2][0]) == idn:
                gp = x
        ok_rb = False
        if gp is not None:
            present = strip(simplify(v_, [("cmp", "is not", gp, ("const", None))]))
            absent = strip(simplify(v_, [("cmp", "is", gp, ("const", None))]))

            def gated_on(t, g):
                return any(y[0] == "ite" and any(z == g for z in subterms(y[1])) for y in subterms(t))
            ok_rb = not gated_on(present, gp) and any(z == gp for z in subterms(present)) and not any(z == gp for z in subterms(absent))
        ctx.count("readback_properties")
        ctx.ob("C16.e", us.qual, ok_rb, f"a reported {idn} - any value - is stored in self.{attr_}; an absent one leaves it alone", func=us.qual, file=us.module.rel,
               construct=f"read-back of {idn}", detail={"stored": show(v_)[:160] if v_ else None},
               fail=f"self.{attr_} does not take every reported value of {idn} (the store is gated by the value's truth, or missing): a change to False / 0 / OFF is never read back")
    # the two legacy breeze ids: a reported *off* (present and false) replaces the mode as well - it is not skipped as if it were absent
    bmv = final_env.get(f"{us.params[0]}._breeze_mode") if final_env else None
    old_bm = ("attr", ("param", us.params[0]), "_breeze_mode")
    gps = {}
    for x in subterms(bmv) if bmv is not None else ():
        if meth_is(strip(x), "get_property") and strip(x)[2] and enum_name(strip(x)[2][0]) in ("BREEZE_CONTROL", "BREEZE_AWAY", "BREEZELESS"):
            gps[enum_name(strip(x)[2][0])] = x
    for idn in ("BREEZE_AWAY", "BREEZELESS"):
        if idn not in gps or "BREEZE_CONTROL" not in gps:
            continue
        facts_ = [("cmp", "is", gps["BREEZE_CONTROL"], ("const", None)), ("cmp", "is not", gps[idn], ("const", None)), ("un", "not", gps[idn])]
        facts_ += [("cmp", "is", g_, ("const", None)) for k_, g_ in gps.items() if k_ not in ("BREEZE_CONTROL", idn)]
        for x in subterms(bmv):          # ... in the branch that handles a properties response
            if call_is(strip(x), "isinstance") and len(strip(x)[2]) == 2 and strip(strip(x)[2][1])[0] == "global":
                is_props = strip(strip(x)[2][1])[1].endswith(".PropertiesResponse")
                facts_.append(strip(x) if is_props else ("un", "not", strip(x)))
        off_v = strip(simplify(bmv, facts_))
        keeps_old = any(z == old_bm for z in subterms(off_v)) or off_v == old_bm
        ctx.count("readback_properties")
        ctx.ob("C16.e", us.qual, not keeps_old, f"a reported {idn} = off replaces the breeze mode (it is not skipped like an absent property)", func=us.qual, file=us.module.rel,
               construct=f"read-back of {idn}", detail={"when_off": show(off_v)[:120]},
               fail=f"a reported {idn} = off leaves the breeze mode as it was (the store is gated by the value's truth): the mode keeps being reported active after the device turned it off")
    ctx.require_min("readback_properties", 5)
    rf = ctx.fn(f"{AC}.refresh")
    rfs = summarize(prog, rf)
    q_ok = any(isinstance(n, ast.Call) and call_is(t, f"{CMD}.GetPropertiesCommand") and strip(t[2][0]) == ("attr", ("param", rf.params[0]), "_supported_properties")
               for n, t in rfs.ta.terms_at.items())
    ctx.ob("C16.e", rf.qual, q_ok, "refresh queries exactly the advertised property set", func=rf.qual, file=rf.module.rel, construct="GetPropertiesCommand(self._supported_properties)",
           fail="refresh does not query the advertised property ids")
    ctx.require_min("map_entries", 7)
    ctx.require_min("setters", 7)
    ctx.require_min("send_sites", 1)
    ctx.require_min("completions_after_send", 1)
    ctx.require_min("encode_leaves", 3)
    ctx.require_min("decode_leaves", 5)
    ctx.require_min("back_edges", 1)
