"""C03 - V2 packet integrity: altered or truncated packets rejected, never mis-decoded.

Decided (necessary structural conditions of the property, DESIGN.md §3 C03):
  C03.a  every return of _Packet.decode is dominated by a full-width equality between
         Security.sign(<signed range>) and <signature range>; the mismatch side never reaches a return
  C03.b  signed range ∪ signature range = the whole (length-cut) packet, signed range starts at 0 (or the
         uncovered prefix is pinned by an equality guard), the returned plaintext derives only from bytes
         inside the signed range, and the split point equals the digest size of Security.sign
  C03.d  every explicit raise in the function is a ProtocolError
Not enforced on purpose: the short/truncated guards (a truncated packet still fails the digest comparison, so the
guards are not necessary for the property; C09 owns the "no other exception" side).
"""
from __future__ import annotations

from ..facts import abs_range, atoms, call_is, cut_normalise, equality_atoms, reads_of, root_of, slice_bounds, strip
from ..model import AnalysisError
from ..terms import is_const, show, subterms, summarize, unview

FN = "msmart.lan._Packet.decode"
SIGN = "msmart.lan.Security.sign"
PROTO = "msmart.lan.ProtocolError"


def sign_digest_size(ctx) -> int:
    """Digest size of Security.sign, read from its body: md5 -> 16, sha256 -> 32."""
    s = summarize(ctx.prog, ctx.fn(SIGN))
    t = s.return_term()
    if t[0] == "call" and t[1][0] == "meth" and t[1][2] == "digest":
        h = t[1][1]
        if call_is(h, "hashlib.md5"):
            return 16
        if call_is(h, "hashlib.sha256"):
            return 32
        if call_is(h, "hashlib.sha1"):
            return 20
    raise AnalysisError(f"{SIGN}: return value is not a recognised digest: {show(t)}")


def sig_check(facts, digest_size):
    """Find the (signed range term, signature range term) of a full-width signature equality among the facts."""
    for a, b in equality_atoms(facts):
        for x, y in ((a, b), (b, a)):
            if call_is(x, SIGN) and len(x[2]) >= 1:
                return strip(x[2][-1]), strip(y)
    return None


def run(ctx):
    prog = ctx.prog
    fn = ctx.fn(FN)
    ctx.explanation = ("value-flow terms + path conditions of _Packet.decode: every return is dominated by a full-width "
                       "keyed-MD5 equality whose operands partition the packet; plaintext derives from signed bytes only; "
                       "explicit raises are ProtocolError")
    ctx.trusted = ["collision resistance of keyed MD5 (a flipped bit changes the digest)", "CPython ast"]
    ds = sign_digest_size(ctx)
    s = summarize(prog, fn)
    file = fn.module.rel
    # the signature covers its whole argument: sign(data) hashes data in full together with the key (a sign that skips or truncates part
    # of what it is given leaves those bytes unauthenticated, however decode compares the result)
    sfn = ctx.fn(SIGN)
    st_ = summarize(prog, sfn).return_term()
    hashed = strip(st_[1][1][2][0]) if st_[0] == "call" and st_[1][0] == "meth" and st_[1][1][0] == "call" and st_[1][1][2] else None
    dp = ("param", sfn.params[-1])

    def parts(x):
        x = strip(x)
        return parts(x[2]) + parts(x[3]) if x[0] == "bin" and x[1] == "+" else [x]
    ps = [unview(y) for y in parts(hashed)] if hashed is not None else []
    whole = ps.count(dp) == 1 and all(y == dp or not any(z == dp for z in subterms(y)) for y in ps)
    ctx.ob("C03.a", SIGN, whole, "Security.sign hashes the whole of its argument (with the key)", func=SIGN, file=sfn.module.rel, construct="sign",
           detail={"hashed": show(hashed)[:160] if hashed is not None else None},
           fail=f"Security.sign does not hash its whole argument (`{show(hashed)[:100] if hashed is not None else show(st_)[:100]}`): bytes outside the hashed part can be altered without detection")

    n_ret = 0
    from ._pipeline import decode_returns
    for pc, ret, node, _st in decode_returns(prog, s):
        if node is None:
            # falling off the end returns None: no frame is produced
            continue
        n_ret += 1
        ctx.count("returns")
        facts0 = atoms(pc)
        # slices of the uncut buffer written relative to the declared length read as slices of the cut packet
        D_ = ("param", fn.params[-1])
        facts = [cut_normalise(f, D_, facts0) for f in facts0]
        ret = cut_normalise(ret, D_, facts0)
        sc = sig_check(facts, ds)
        ok = ctx.ob("C03.a", FN, sc is not None,
                    "return is dominated by an equality Security.sign(signed range) == signature range",
                    func=FN, file=file, node=node,
                    fail="a decoded frame can be returned on a path where no full-width signature comparison has succeeded")
        if not ok:
            continue
        ctx.count("comparisons")
        signed, sig = sc
        sb, gb = slice_bounds(signed), slice_bounds(sig)
        # C03.b: partition of one packet term
        good = sb is not None and gb is not None and sb[0] == gb[0]
        detail = {"signed": show(signed), "signature": show(sig)}
        if good:
            q, s_lo, s_hi = sb
            _, g_lo, g_hi = gb
            part = (s_hi is not None and g_lo == s_hi and g_hi is None and s_hi == -ds)
            ctx.ob("C03.b", FN, part, f"signed range [..:{s_hi}] and signature range [{g_lo}:..] partition the packet at -{ds} (digest size)",
                   func=FN, file=file, node=node, detail=detail,
                   fail=f"signed range {show(signed)} and signature range {show(sig)} do not partition the packet at the {ds}-byte digest")
            # signed range starts at 0, or the uncovered prefix is pinned by an equality guard in the path condition
            start_ok = s_lo in (None, 0)
            if not start_ok and isinstance(s_lo, int) and s_lo > 0:
                for a, b in equality_atoms(facts):
                    for x, y in ((a, b), (b, a)):
                        xb = slice_bounds(strip(x))
                        if xb and xb[1] in (None, 0) and xb[2] is not None and xb[2] >= s_lo and is_const(y):
                            start_ok = True
            ctx.ob("C03.b", FN, start_ok, "signed range starts at byte 0 (marker, type, length, header all covered)",
                   func=FN, file=file, node=node, detail=detail,
                   fail=f"bytes before offset {s_lo} are neither signed nor pinned by a guard")
            # plaintext derives only from signed bytes: every slice of the packet in the returned term lies in [s_lo, s_hi)
            root = root_of(q)
            leaks = []
            for t in reads_of(ret, root):
                b = abs_range(strip(t))        # constant slices compose: q[:-16][40:] reads q[40:-16]
                inside = (b is not None and b[0] == strip(q) and b[2] < 0 and b[2] <= s_hi and b[1] >= 0)
                if not inside:
                    leaks.append(show(t))
            ctx.ob("C03.b", FN, not leaks, "returned plaintext is computed from bytes inside the signed range only",
                   func=FN, file=file, node=node, detail={"returned": show(ret)},
                   fail=f"returned value reads packet bytes outside the signed range: {leaks}")
            ctx.sample({"return": show(ret), "signed": show(signed), "signature": show(sig), "path_facts": [show(f) for f in facts]})
        else:
            # the same partition with a computed cut: signed = P[:s], signature = P[s:e] for one term s (e.g. s = max(L - 16, 0), e = L).
            # Whatever s is, the two ranges cover P[:e] without gap or overlap; a signature slice that is not 16 bytes wide never equals
            # the digest, so nothing is accepted that was not covered.
            from ..facts import simplify
            sg_, si_ = strip(simplify(signed, set(facts))), strip(simplify(sig, set(facts)))
            sym = sg_[0] == "slice" and si_[0] == "slice" and strip(sg_[1]) == strip(si_[1]) and sg_[4] is None and si_[4] is None \
                and sg_[2] in (None, ("const", 0)) and sg_[3] is not None and sg_[3] == si_[2]
            ctx.ob("C03.b", FN, sym, "signed range P[:s] and signature range P[s:e] meet at one computed cut s", func=FN, file=file, node=node,
                   detail=detail, fail=f"signature comparison operands are not complementary slices of one packet: {detail}")
            if sym:
                cut, base_ = sg_[3], strip(sg_[1])
                leaks = []
                ret_s = simplify(ret, set(facts))
                inner_ = {id(y) for t in reads_of(ret_s, root_of(base_)) for b_ in t[2:] for y in reads_of(b_, root_of(base_))} if True else set()
                # (reads inside a bound - the declared length at [4:6] - choose the cut, as in the constant form; the bytes that flow into the
                # plaintext are the outermost reads)
                for t in [t for t in reads_of(ret_s, root_of(base_)) if id(t) not in inner_]:
                    t2 = strip(simplify(t, set(facts)))
                    inside = t2[0] == "slice" and strip(t2[1]) == base_ and t2[4] is None and (t2[2] is None or (is_const(t2[2]) and isinstance(t2[2][1], int) and t2[2][1] >= 0)) \
                        and t2[3] == cut
                    if not inside:
                        leaks.append(show(t))
                ctx.ob("C03.b", FN, not leaks, "returned plaintext is computed from bytes inside the signed range only", func=FN, file=file, node=node,
                       detail={"returned": show(ret)}, fail=f"returned value reads packet bytes outside the signed range: {leaks}")
        # full width: the digest side is the whole call result (enforced by sig_check: operand *is* the call term),
        # and the other side is a whole slice (no further narrowing): g_hi is None and g_lo == -ds checked above.

    # C03.d explicit raises
    for pc, exc, node, _st in s.raises:
        if exc == "AssertionError":
            continue
        ctx.count("raises")
        ctx.ob("C03.d", FN, prog.exc_is(exc, PROTO), f"explicit raise {exc.split('.')[-1]} is a ProtocolError",
               func=FN, file=file, node=node,
               fail=f"rejection path raises {exc}, which is not a ProtocolError")
    # C03.d every other way out of decode on arbitrary bytes is a ProtocolError too (may-raise analysis: truncations of any
    # length, misaligned ciphertext, bad padding - whatever the library calls used for parsing can raise)
    from ..raises import Config, Raises, Val
    R_ = Raises(prog, Config())
    dfn = ctx.fn(FN)
    _rv, esc = R_.analyze(dfn, {dfn.params[-1]: Val(taint=True, kind="bytes")}, self_cls=dfn.cls)
    bad = [e for e in esc if not prog.exc_is(str(e), PROTO)]
    seen_d = set()
    ctx.ob("C03.d", FN, not bad, "no exception other than ProtocolError escapes _Packet.decode for any byte string", func=FN, file=file,
           construct="exceptions escaping decode") if not bad else None
    for e in bad:
        k = (str(e), e.site["function"], e.site["construct"])
        if k in seen_d:
            continue
        seen_d.add(k)
        ctx.ob("C03.d", e.site["function"], False, "", func=e.site["function"], file=e.site["file"], construct=f"{e.site['construct']} -> {e}",
               fail=f"{e} can escape _Packet.decode [{e.why}] via {' -> '.join(q.split('.')[-1] for q in e.chain)}: a truncated / altered packet is not rejected with a ProtocolError")
    from ._pipeline import read_returns_decoded
    read_returns_decoded(ctx, "C03.e")          # nothing reaches the caller of LAN.send around the verifying decoder
    from ._pipeline import drain_yields_decoded
    drain_yields_decoded(ctx, "C03.e")
    ctx.require_min("returns", 1)
    ctx.require_min("comparisons", 1)
    ctx.require_min("raises", 1)
