"""C14 - application containment: no device response makes an operation raise.

Decided (DESIGN.md §3 C14):
  C14.a  may-raise set of refresh / apply / get_capabilities / toggle_display / start_self_clean, for raisers caused by the
         *content* of the frames returned by Device._send_command (every element an arbitrary byte string, including
         empty), is empty  [E4: taint + value kinds + length facts, interprocedural, try/except by subclass]
  C14.b  per-frame containment: the construct call sits in a try inside the per-frame loop and the handler neither
         leaves the loop nor re-raises, so one undecodable frame cannot stop the others
"""
from __future__ import annotations

import ast

from ..model import norm
from ..raises import Config, Raises, Val

BOUNDARIES = ["refresh", "apply", "get_capabilities", "toggle_display", "start_self_clean"]
AC = "msmart.device.AC.device.AirConditioner"
SEND = "msmart.base_device.Device._send_command"
GETR = f"{AC}._send_command_get_responses"
CONSTRUCT = "msmart.device.AC.command.Response.construct"


def parents_of(root):
    par = {}
    for n in ast.walk(root):
        for c in ast.iter_child_nodes(n):
            par[c] = n
    return par


def optional_device_attrs(ctx):
    """Device attributes that hold None after a *valid* response omitted an optional field: response attributes left at their
    None default on some return path of a parser (or produced by a helper that can return None), followed through
    _update_state's plain copies.  They are peer-controlled and possibly None wherever the device object uses them."""
    from ..ctor import init_attrs
    from ..facts import call_is, strip
    from ..terms import subterms, summarize
    prog = ctx.prog
    out = {}
    us = prog.func(f"{AC}._update_state")
    uss = summarize(prog, us)
    rp, sp = us.params[1], us.params[0]
    final = None
    for _pc, _t, _n, rst in uss.returns:
        final = rst
    for cname in ("StateResponse", "HumidityResponse", "EnergyUsageResponse"):
        cq = f"msmart.device.AC.command.{cname}"
        if cq not in prog.classes:
            continue
        c = prog.classes[cq]
        defaults = init_attrs(prog, c)
        pf = c.methods.get("_parse")
        if pf is None:
            continue
        ps = summarize(prog, pf)
        opt = set()
        for attr, dv in defaults.items():
            if dv != ("const", None):
                continue
            for _pc, _t, _n, rst in ps.returns:
                v = rst.env.get(f"{pf.params[0]}.{attr}")
                if v is None:
                    opt.add(attr)
                    continue
                for x in subterms(v):
                    if x == ("const", None) or x == ("attr", ("param", pf.params[0]), attr):
                        opt.add(attr)          # None, or - on some path - what __init__ stored, which is None (dv above)
                    if x[0] == "call" and x[1][0] == "func" and x[1][1] in prog.funcs:
                        rt = summarize(prog, prog.funcs[x[1][1]]).return_term()
                        if any(y == ("const", None) for y in subterms(rt)):
                            opt.add(attr)
        if final is None:
            continue
        for k, v in final.env.items():
            if not k.startswith(sp + "."):
                continue
            for x in subterms(v):
                if x[0] == "attr" and x[1] == ("param", rp) and x[2] in opt:
                    # only plain copies keep the None (conditional expressions / calls are analysed where they occur)
                    leaves = []

                    def lv(t):
                        if t[0] == "ite":
                            lv(t[2]), lv(t[3])
                        else:
                            leaves.append(strip(t))
                    lv(v)
                    if ("attr", ("param", rp), x[2]) in leaves:
                        out[(AC, k.split(".", 1)[1])] = Val(taint=True, kind="int", may_none=True)
    return out


def run(ctx):
    prog = ctx.prog
    ctx.explanation = ("interprocedural may-raise analysis with taint, value kinds and length facts from the five public operations "
                       "down through Response.construct and every response parser; source = every byte string Device._send_command "
                       "can return; allowed escape set = empty")
    ctx.trusted = ["library model (sa/libmodel.py)", "CPython exception hierarchy"]
    frames = Val(taint=True, kind="list", elem=Val(taint=True, kind="bytes"))
    optional = optional_device_attrs(ctx)
    ctx.extra["device_attributes_that_may_be_None_after_a_response"] = sorted(a for _c, a in optional)
    cfg = Config(ret_sources={SEND: frames}, stop_at=["msmart.lan.LAN.send"], self_attr_vals=optional)
    R = Raises(prog, cfg)
    ctx.fn(SEND)          # (the function whose result is the taint source must exist under this reading of the names ...)
    seen = set()
    for b in BOUNDARIES:
        fn = ctx.fn(f"{AC}.{b}")
        _ret, esc = R.analyze(fn, {}, self_cls=prog.cls(AC))
        ctx.count("boundaries")
        bad = []
        for e in esc:
            if str(e) == "asyncio.CancelledError":
                continue
            bad.append(e)
        ctx.ob("C14.a", f"{AC}.{b}", not bad, f"no exception caused by response content escapes {b}()",
               func=f"{AC}.{b}", file=fn.module.rel, construct=f"{b}()",
               fail=f"{len(bad)} raiser(s) on response content escape {b}()") if not bad else None
        for e in bad:
            k = (str(e), e.site["function"], e.site["construct"])
            if k in seen:
                continue
            seen.add(k)
            ctx.ob("C14.a", e.site["function"], False, "", func=e.site["function"], file=e.site["file"],
                   construct=f"{e.site['construct']} -> {e}",
                   fail=f"{e} can escape {b}() [{e.why}] via {' -> '.join(q.split('.')[-1] for q in e.chain)}",
                   detail={"exception": str(e), "site": e.site, "chain": list(e.chain), "why": e.why})
    # every examined raiser site is an obligation of its own (proved safe or caught)
    for key, rec in sorted(R.sites_examined.items()):
        ctx.count("raiser_sites")
        if rec["verdict"] == "proved-safe":
            ctx.obligations.append({"rule": "C14.a/site", "site": rec["function"], "verdict": "holds",
                                    "what": f"`{rec['construct']}` cannot raise {rec['exc']}: {rec['fact']}"})
            ctx.sample({"site": rec["function"], "construct": rec["construct"], "exc": rec["exc"], "proved_by": rec["fact"]})
        else:
            caught = not any((str(e), e.site["function"], e.site["construct"][:120]) == (rec["exc"], rec["function"], rec["construct"])
                             for e in [])
            ctx.obligations.append({"rule": "C14.a/site", "site": rec["function"],
                                    "verdict": "holds" if not any(k[1] == rec["function"] and k[2][:120] == rec["construct"] and k[0] == rec["exc"] for k in seen) else "VIOLATED",
                                    "what": f"`{rec['construct']}` may raise {rec['exc']} ({rec['fact']}); contained by a handler below the boundary"})
    ctx.extra["call_resolution"] = {"resolved": R.calls_resolved, "library": R.calls_library, "unresolved": R.calls_unresolved}
    ctx.extra["functions_analysed"] = sorted(R.functions_seen)
    for a in R.assumptions:
        ctx.assume(a)
    for q in sorted(R.functions_seen):
        if q not in ctx.analysed["functions"]:
            ctx.analysed["functions"].append(q)

    # C14.b per-frame containment structure
    g = ctx.fn(GETR)
    from ..helpers import ancestor_chains
    sites = ancestor_chains(prog, g, lambda f, n: getattr(prog.resolve_expr(f.module, n.func, f.cls), "qual", None) == CONSTRUCT)
    for f, c, chains in sites:
        ctx.count("construct_sites")
        for chain in chains or [[]]:
            # the innermost try whose *body* holds the call, and the innermost loop
            ti = next((i for i, (x, fld) in enumerate(chain) if isinstance(x, ast.Try) and fld == "body"), None)
            li = next((i for i, (x, _f) in enumerate(chain) if isinstance(x, (ast.For, ast.AsyncFor, ast.While)) or
                       (isinstance(x, (ast.ListComp, ast.GeneratorExp, ast.SetComp, ast.DictComp)) and _f in ("elt", "key", "value")) or
                       (isinstance(x, ast.comprehension) and _f == "ifs")), None)   # per element of a comprehension (element or filter)
            inside = ti is not None and li is not None and ti < li
            ctx.ob("C14.b", GETR, inside, "Response.construct is wrapped by a try that lies inside the per-frame loop",
                   func=GETR, file=f.module.rel, node=c,
                   fail="the handler around Response.construct is not inside the per-frame loop: one bad frame aborts the rest")
            if inside:
                t = chain[ti][0]
                in_helper = any(isinstance(x, (ast.FunctionDef, ast.AsyncFunctionDef)) for x, _f in chain[ti:li])
                for h in t.handlers:
                    # a `return` in a helper's handler goes back into the caller's loop; in the loop's own function it abandons it
                    leaves = [x for st in h.body for x in ast.walk(st) if isinstance(x, (ast.Break, ast.Raise)) or (isinstance(x, ast.Return) and not in_helper)]
                    ctx.ob("C14.b", GETR, not leaves, f"handler `except {norm(h.type) if h.type else ''}` continues with the next frame",
                           func=GETR, file=f.module.rel, node=h,
                           fail="the handler leaves the per-frame loop (break / return / raise): later frames of the exchange are lost")
    # ---- C14.c "the decodable ones delivered in the same exchange are still applied": what one response object decoded is not shared with
    # (and so not wiped or overwritten by) the next frame's object
    from ..shared import check as shared_check
    resp = prog.cls("msmart.device.AC.command.Response")
    shared_check(ctx, "C14.c", [resp] + prog.subclasses(resp) + [prog.cls(AC)], "the response classes and the device")
    ctx.count("frame_source_hits", R.source_hits.get(SEND, 0))          # (... and be reached: otherwise nothing is tainted and everything "holds")
    ctx.require_min("frame_source_hits", 3)
    ctx.require_min("boundaries", 5)
    ctx.require_min("construct_sites", 1)
    ctx.require_min("raiser_sites", 40)
