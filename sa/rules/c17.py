"""C17 - discovery reports each replying device with exactly its advertised identity.

  C17.a  reply layout: V3 wrapper strip [8:-16]; envelope: id little-endian from offset 20, 6..8 bytes wide;
         ciphertext [40:-16] -> decrypt_aes; body: port [4:6] LE, sn [8:40], name length [40], name [41:41+n],
         type = hex of the 2nd '_'-separated token of the name (format table below, cross-referenced to the two
         captured replies the repository's tests pin)
  C17.b  provenance: the reported `ip` is the datagram source (not the address inside the reply), `version` the detected
         version; _get_device builds device_class(**info); Device stores each of id/port/sn/name/type/version in the
         attribute its public getter returns; datagram_received hands over addr[0] and the detected version
  C17.c  dispatch: XML -> 1, marker 5a5a -> 2, 8370 -> 3; AirConditioner exactly for DeviceType.AIR_CONDITIONER (0xAC), Device otherwise
  C17.d  the probe is a valid packet: DISCOVERY_MSG folds to 72 bytes with marker 5a5a, length field 72 and a trailing
         16-byte block equal to md5(msg[:-16] ‖ SIGN_KEY) (computed over the folded constants); sent to ports 6445 and 20086
"""
from __future__ import annotations

import ast
import hashlib

from ..ctor import init_attrs
from ..facts import simplify, atoms, call_is, equality_atoms, meth_is, slice_bounds, strip
from ..model import AnalysisError, norm
from ..terms import is_const, show, subterms, summarize

DISC = "msmart.discover.Discover"
DP = "msmart.discover._DiscoverProtocol"
DEV = "msmart.base_device.Device"
AC = "msmart.device.AC.device.AirConditioner"
SIGN_KEY = b"xhdiwjnchekd4d512chdjx5d8e4c394D2D7S"


def as_mapping(prog, t):
    """a record built positionally / by keyword from a NamedTuple (or dataclass) class of the package reads as the mapping field -> value"""
    t0 = strip(t)
    if t0[0] == "call" and t0[1][0] == "func" and t0[1][1] in prog.classes:
        c = prog.classes[t0[1][1]]
        rf = prog.record_fields(c) if prog.is_namedtuple(c) else None
        if rf is not None and len(t0[2]) <= len(rf):
            vals = {f: v for (f, _d), v in zip(rf, t0[2])}
            vals.update({k: v for k, v in t0[3] if isinstance(k, str)})
            if set(vals) == {f for f, _d in rf}:
                return ("dict", tuple((("const", f), vals[f]) for f, _d in rf))
    return t


def reported_ip_is_source(ctx, rule: str):
    """The address a device is reported (and later contacted) under is the address its reply came from - not the address inside the reply.
    Shared with C18: one device per responding *host* is about that address."""
    prog = ctx.prog
    gi = ctx.fn(f"{DISC}._get_device_info")
    s = summarize(prog, gi)
    ip_p = gi.params[1]
    rets = [as_mapping(prog, t) for pc, t, n, _ in s.returns if n is not None and as_mapping(prog, t)[0] == "dict"]
    info = {k[1]: v for k, v in rets[0][1] if k[0] == "const"} if len(rets) == 1 else {}
    ctx.ob(rule, gi.qual, strip(info.get("ip", ("top",))) == ("param", ip_p), "reported ip = the datagram's source address (not the address inside the reply)",
           func=gi.qual, file=gi.module.rel, construct='"ip": ip', detail={"term": show(info.get("ip", ("top", "?")))[:100]},
           fail=f"the device is reported with `{show(info.get('ip', ('top', '?')))[:80]}` instead of the address the reply came from")



def _ctor_default_collection(prog, cls, attr):
    """sorted members of the constant collection `self.<attr>` holds after construction, when the constructor stores one of its parameters there
    (possibly through tuple() / list() / frozenset()) and no constructor call of the package passes that parameter: its folded default"""
    from ..ctor import init_attrs
    try:
        v = init_attrs(prog, cls).get(attr)
    except AnalysisError:
        return None
    if v is None:
        return None
    v = strip(v)
    while v[0] == "call" and v[1][0] == "ext" and v[1][1] in ("tuple", "list", "frozenset", "set", "sorted") and len(v[2]) == 1:
        v = strip(v[2][0])
    if is_const(v) and isinstance(v[1], (list, tuple, set, frozenset)):
        return sorted(v[1])
    if v[0] in ("list", "tuple", "set") and all(is_const(x) for x in v[1]):
        return sorted(x[1] for x in v[1])
    if v[0] != "param":
        return None
    ini = prog.lookup_method(cls, "__init__")
    a = ini.node.args
    pos = a.posonlyargs + a.args
    dflt = dict(zip([x.arg for x in pos[len(pos) - len(a.defaults):]], a.defaults))
    dflt.update({x.arg: d for x, d in zip(a.kwonlyargs, a.kw_defaults) if d is not None})
    if v[1] not in dflt:
        return None
    for m in prog.modules.values():
        if m.is_test:
            continue
        for n in ast.walk(m.tree):
            if isinstance(n, ast.Call) and (n.func.id if isinstance(n.func, ast.Name) else getattr(n.func, "attr", None)) == cls.name:
                idx = [x.arg for x in pos].index(v[1]) - 1 if v[1] in [x.arg for x in pos] else None
                if any(k.arg in (v[1], None) for k in n.keywords) or any(isinstance(x, ast.Starred) for x in n.args) or (idx is not None and len(n.args) > idx):
                    return None          # some caller chooses the ports: not a constant of the package
    val = prog.fold_or_none(dflt[v[1]], ini.module)
    return sorted(val) if isinstance(val, (list, tuple, set, frozenset)) and all(isinstance(x, int) for x in val) else None

def run(ctx):
    prog = ctx.prog
    ctx.explanation = ("value-flow terms of _get_device_info (which byte range / byte order each reported field is read from, provenance of "
                       "ip and version), of the version and class dispatch, of Device's constructor and getters; constant folding of the probe")
    ctx.trusted = ["the discovery reply format table (matches the two captured replies in msmart/tests/test_discover.py)", "md5 (hashlib) for the probe self-check"]
    gi = ctx.fn(f"{DISC}._get_device_info")
    file = gi.module.rel
    s = summarize(prog, gi)
    ip_p, ver_p, data_p = gi.params[1], gi.params[2], gi.params[3]
    rets = [(pc, as_mapping(prog, t), n) for pc, t, n, _ in s.returns if n is not None and as_mapping(prog, t)[0] == "dict"]
    ctx.ob("C17.a", gi.qual, len(rets) == 1, "one return builds the device-info mapping", func=gi.qual, file=file, construct="return {...}",
           fail=f"{len(rets)} returns build a device-info mapping")
    if not rets:
        return
    pc, t, node = rets[0]
    info = {k[1]: v for k, v in t[1] if k[0] == "const"}
    ctx.count("info_fields", len(info))
    D0 = ("param", data_p)
    ENV = ("ite", ("cmp", "==", ("param", ver_p), ("const", 3)), ("slice", D0, ("const", 8), ("const", -16), None), D0)

    def env_ok(base):
        b = strip(base)
        if b[0] == "ite":
            c, a, o = strip(b[1]), strip(b[2]), strip(b[3])
            return c == ENV[1] and a[0] == "slice" and strip(a[1]) == D0 and a[2] == ("const", 8) and a[3] == ("const", -16) and o == D0
        return False

    # ---- device id
    did = strip(info.get("device_id", ("top", "missing")))
    def unsigned(t):
        kw = dict(t[3]) if len(t) > 3 and t[3] else {}
        return "signed" not in kw or kw["signed"] == ("const", False)
    ok = call_is(did, "int.from_bytes") and len(did[2]) >= 2 and did[2][1] == ("const", "little") and unsigned(did)
    width = None
    if ok:
        f = strip(did[2][0])
        ok = f[0] == "slice" and env_ok(f[1]) and f[2] == ("const", 20) and is_const(f[3]) and f[4] is None
        width = f[3][1] - 20 if ok else None
        ok = ok and 6 <= width <= 8
    ctx.ob("C17.a", gi.qual, bool(ok), f"device id = little-endian integer from envelope bytes [20:{20 + (width or 6)}] (V3: after stripping [8:-16])", func=gi.qual, file=file,
           construct="device_id", detail={"term": show(did)[:160]}, fail=f"device id is read as `{show(did)[:120]}`: wrong offset / width / byte order / wrapper")
    # ---- decrypted body
    dec_calls = {x for v in info.values() for x in subterms(v) if call_is(x, "msmart.lan.Security.decrypt_aes")}
    body_ok = len(dec_calls) == 1
    D = None
    if body_ok:
        D = list(dec_calls)[0]
        ct = strip(D[2][-1])
        body_ok = ct[0] == "slice" and env_ok(ct[1]) and ct[2] == ("const", 40) and ct[3] == ("const", -16)
    ctx.ob("C17.a", gi.qual, body_ok, "body = decrypt_aes(envelope[40:-16])", func=gi.qual, file=file, construct="encrypted body range",
           fail="the encrypted body is not envelope[40:-16] decrypted with the V2 key")
    if D is None:
        return

    def body_slice(t, lo, hi):
        t = strip(t)
        return t[0] == "slice" and strip(t[1]) == D and t[2] == ("const", lo) and t[3] == ("const", hi) and t[4] is None
    port = strip(info.get("port", ("top", "missing")))
    ctx.ob("C17.a", gi.qual, call_is(port, "int.from_bytes") and body_slice(port[2][0], 4, 6) and port[2][1] == ("const", "little") and unsigned(port),
           "port = little-endian body[4:6]", func=gi.qual, file=file, construct="port", detail={"term": show(port)[:120]},
           fail=f"port is read as `{show(port)[:100]}`")
    sn = strip(info.get("sn", ("top", "missing")))
    ctx.ob("C17.a", gi.qual, meth_is(sn, "decode") and body_slice(sn[1][1], 8, 40), "serial number = body[8:40] as text", func=gi.qual, file=file, construct="sn",
           detail={"term": show(sn)[:120]}, fail=f"serial number is read as `{show(sn)[:100]}`")
    name = strip(info.get("name", ("top", "missing")))
    nm_ok = False
    if meth_is(name, "decode"):
        ns = strip(name[1][1])
        if ns[0] == "slice" and strip(ns[1]) == D and ns[2] == ("const", 41) and ns[3] is not None:
            up = strip(ns[3])
            nm_ok = up[0] == "bin" and up[1] == "+" and {strip(up[2]), strip(up[3])} == {("const", 41), ("sub", D, ("const", 40))} or \
                (up[0] == "bin" and up[1] == "+" and ("const", 41) in (strip(up[2]), strip(up[3])) and any(strip(x) == ("sub", D, ("const", 40)) or (strip(x)[0] == "sub" and strip(strip(x)[1]) == D and strip(x)[2] == ("const", 40)) for x in (up[2], up[3])))
    ctx.ob("C17.a", gi.qual, nm_ok, "name = body[41 : 41 + body[40]] as text", func=gi.qual, file=file, construct="name", detail={"term": show(name)[:160]},
           fail=f"name is read as `{show(name)[:120]}`")
    ty = strip(info.get("device_type", ("top", "missing")))
    ty_ok = call_is(ty, "int") and len(ty[2]) == 2 and ty[2][1] == ("const", 16) and strip(ty[2][0])[0] == "sub" and strip(ty[2][0])[2] == ("const", 1) \
        and meth_is(strip(strip(ty[2][0])[1]), "split") and strip(strip(strip(ty[2][0])[1])[1][1]) == name \
        and (strip(strip(ty[2][0])[1])[2] == (("const", "_"),) or
             # a split limit of two or more leaves element 1 unchanged
             (len(strip(strip(ty[2][0])[1])[2]) == 2 and strip(strip(ty[2][0])[1])[2][0] == ("const", "_") and is_const(strip(strip(ty[2][0])[1])[2][1])
              and isinstance(strip(strip(ty[2][0])[1])[2][1][1], int) and (strip(strip(ty[2][0])[1])[2][1][1] >= 2 or strip(strip(ty[2][0])[1])[2][1][1] == -1)))
    ctx.ob("C17.a", gi.qual, ty_ok, "appliance type = int(name.split('_')[1], 16)", func=gi.qual, file=file, construct="device_type", detail={"term": show(ty)[:160]},
           fail=f"appliance type is read as `{show(ty)[:120]}`")
    # ---- provenance of ip / version
    reported_ip_is_source(ctx, "C17.b")
    ctx.ob("C17.b", gi.qual, strip(info.get("version", ("top",))) == ("param", ver_p), "reported version = the detected protocol version", func=gi.qual, file=file,
           construct='"version": version', fail="the reported version is not the detected one")
    ctx.ob("C17.b", gi.qual, set(info) >= {"ip", "port", "device_id", "name", "sn", "device_type", "version"}, "the mapping carries ip/port/device_id/name/sn/device_type/version (further fields may ride along)",
           func=gi.qual, file=file, construct="info keys", detail={"keys": sorted(info)}, fail=f"device-info keys are {sorted(info)}")
    ctx.sample({"device_id": show(did)[:120], "port": show(port)[:100], "ip": show(info.get('ip'))})
    # ---- datagram_received hands over addr[0] and the detected version
    dg = ctx.fn(f"{DP}.datagram_received")
    dgs = summarize(prog, dg)
    from ..helpers import term_lookup, with_helpers
    dtl = term_lookup(prog, dg)
    calls = [dtl(n2) for f2 in with_helpers(prog, dg) for n2 in ast.walk(f2.node) if isinstance(n2, ast.Call) and dtl(n2) is not None and call_is(dtl(n2), f"{DISC}._get_device")]
    okc = False

    def ver_from_detect(v):
        # the detected version, possibly kept in a variable that is None - or not bound at all, which no call survives - when detection failed
        # (the hand-over is then guarded)
        def lv(x):
            x = strip(x)
            return lv(x[2]) + lv(x[3]) if x[0] == "ite" else [x]
        ls = lv(v)
        det = [x for x in ls if call_is(x, f"{DISC}._get_device_version")]
        return bool(det) and all(strip(x[2][-1]) == ("param", dg.params[1]) for x in det) and all(x in det or x == ("const", None) or
                                                                                                        (x[0] == "top" and isinstance(x[1], str) and x[1].startswith("unbound ")) for x in ls)
    for c in calls:
        a = c[2]
        ipt = strip(a[-3]) if len(a) >= 3 else None
        okc = ipt is not None and ((ipt[0] == "item" and ipt[1] == ("param", dg.params[2]) and ipt[2] == 0) or (ipt[0] == "sub" and ipt[1] == ("param", dg.params[2]) and ipt[2] == ("const", 0))) \
            and ver_from_detect(a[-2]) and strip(a[-1]) == ("param", dg.params[1])
    ctx.count("handover_sites", len(calls))
    ctx.ob("C17.b", dg.qual, okc, "_get_device(addr[0], detected version, datagram)", func=dg.qual, file=file, construct="Discover._get_device(ip, version, data)",
           fail="datagram_received does not hand the source address, the detected version and the datagram to _get_device")
    from .c18 import per_run_state
    per_run_state(ctx, "C17.b")
    gd = ctx.fn(f"{DISC}._get_device")
    gds = summarize(prog, gd)
    built = False
    def ret_leaves(x):
        x = strip(x)
        return ret_leaves(x[2]) + ret_leaves(x[3]) if x[0] == "ite" else [x]
    for pc2, t2, n2, _st in gds.returns:
        if n2 is None:
            continue
        for tt in [x for x in ret_leaves(t2) if x != ("const", None)]:          # (a single exit returning `dev`, None when nothing was parsed)
            built = tt[0] == "call" and tt[1][0] == "dyn" and call_is(strip(tt[1][1]), f"{DISC}._get_device_class") and any(k == "**" for k, _v in tt[3]) \
                and any(call_is(x, f"{DISC}._get_device_info") for k, v in tt[3] for x in subterms(v))
            cls_arg = strip(strip(tt[1][1])[2][-1]) if built else None
            built = built and ((cls_arg[0] == "sub" and cls_arg[2] == ("const", "device_type")) or (cls_arg[0] == "attr" and cls_arg[2] == "device_type"))          # (mapping or record)
    ctx.ob("C17.b", gd.qual, built, "_get_device returns device_class(**info) with device_class = _get_device_class(info['device_type'])", func=gd.qual, file=file,
           construct="device_class(**info)", fail="_get_device does not build the device from the parsed info with the class selected by its type")
    # Device constructor / getters
    dev = prog.cls(DEV)
    di = dev.methods["__init__"]
    dis = summarize(prog, di)
    final = None
    for _pc, _t, _n, rst in dis.returns:
        final = rst
    sp = di.params[0]
    want = {"_ip": ("param", "ip"), "_port": ("param", "port"), "_id": ("param", "device_id"), "_type": ("param", "device_type")}
    for attr, src in want.items():
        ctx.count("device_attrs")
        v = final.env.get(f"{sp}.{attr}") if final else None
        ctx.ob("C17.b", di.qual, v == src, f"Device.{attr} = constructor argument {src[1]}", func=di.qual, file=dev.module.rel, construct=f"self.{attr}",
               fail=f"Device.{attr} is `{show(v) if v else None}`, not the {src[1]} argument")
    for attr, key in (("_sn", "sn"), ("_name", "name"), ("_version", "version")):
        ctx.count("device_attrs")
        v = final.env.get(f"{sp}.{attr}") if final else None
        ok = v is not None and meth_is(strip(v), "get") and strip(v)[2][0] == ("const", key)
        ctx.ob("C17.b", di.qual, ok, f"Device.{attr} = kwargs['{key}']", func=di.qual, file=dev.module.rel, construct=f"self.{attr}",
               fail=f"Device.{attr} is `{show(v) if v else None}`, not the `{key}` keyword")
    for prop, attr in (("ip", "_ip"), ("port", "_port"), ("id", "_id"), ("type", "_type"), ("sn", "_sn"), ("name", "_name"), ("version", "_version")):
        g = dev.methods.get(prop)
        ok = g is not None and g.kind == "property" and strip(summarize(prog, g).return_term()) == ("attr", ("param", g.params[0]), attr)
        ctx.count("getters")
        ctx.ob("C17.b", f"{DEV}.{prop}", ok, f"Device.{prop} returns self.{attr}", func=f"{DEV}.{prop}", file=dev.module.rel, construct=f"{prop} getter",
               fail=f"Device.{prop} does not return self.{attr}")
    aci = prog.cls(AC).methods["__init__"]
    acs = summarize(prog, aci)
    sup = [t2 for n2, t2 in acs.ta.terms_at.items() if isinstance(n2, ast.Call) and call_is(t2, f"{DEV}.__init__")]
    ok = False
    for c in sup:
        kw = dict(c[3])
        ok = kw.get("ip") == ("param", "ip") and kw.get("port") == ("param", "port") and kw.get("device_id") == ("param", "device_id") and \
            kw.get("device_type", ("top",))[0] == "enum" and kw["device_type"][3] == 0xAC and "**" in kw
    ctx.ob("C17.b", aci.qual, ok, "AirConditioner passes ip / port / device_id / remaining identity fields through to Device and fixes the type to 0xAC",
           func=aci.qual, file=prog.cls(AC).module.rel, construct="super().__init__(...)", fail="AirConditioner.__init__ does not forward the identity fields unchanged")
    # ---------------------------------------------------------------- C17.c
    gv = ctx.fn(f"{DISC}._get_device_version")
    gvs = summarize(prog, gv)
    dpv = gv.params[-1]
    seen = {}
    for pc2, t2, n2, _st in gvs.returns:
        if n2 is None:
            continue
        ts2 = strip(t2)
        if ts2[0] == "item" and ts2[2] == 1 and ts2[1][0] == "iter" and is_const(strip(ts2[1][1])):
            # table-driven: for marker, version in <constant table>: if data[:2] == marker: return version
            table = strip(ts2[1][1])[1]
            key = ("item", ts2[1], 0)
            cmp_ok = any(strip(x)[0] == "slice" and strip(strip(x)[1]) == ("param", dpv) and strip(x)[2] is None and strip(x)[3] == ("const", 2) and strip(y) == key
                         for a, b in equality_atoms(atoms(pc2)) for x, y in ((a, b), (b, a)))
            if cmp_ok and isinstance(table, (tuple, list)) and all(isinstance(r, (tuple, list)) and len(r) == 2 for r in table) \
                    and len({r[0] for r in table}) == len(table):
                for marker, ver in table:
                    seen[ver] = marker
            continue
        if not is_const(t2) and ts2[0] == "ite":
            # a gated constant (dictionary / conditional-expression dispatch): one version per leaf, with the gates as facts
            def vleaves(x, conds=()):
                x = strip(x)
                if x[0] == "ite":
                    yield from vleaves(x[2], conds + ((x[1], True),))
                    yield from vleaves(x[3], conds + ((x[1], False),))
                else:
                    yield conds, x
            for conds, leaf in vleaves(ts2):
                if not (is_const(leaf) and isinstance(leaf[1], int)):
                    continue
                from ..facts import cases as _cases
                try:
                    css_ = _cases(tuple(pc2) + tuple(conds), cap=128) or [atoms(tuple(pc2) + tuple(conds))]
                except ValueError:
                    css_ = [atoms(tuple(pc2) + tuple(conds))]
                mks = set()
                for case in css_:          # every way of reaching the leaf matched the same marker
                    mk = None
                    for a, b in equality_atoms(case):
                        for x, y in ((a, b), (b, a)):
                            xs = strip(x)
                            if xs[0] == "slice" and strip(xs[1]) == ("param", dpv) and xs[2] is None and xs[3] == ("const", 2) and is_const(y) and isinstance(y[1], bytes):
                                mk = y[1]
                    mks.add(mk)
                seen[leaf[1]] = next(iter(mks)) if len(mks) == 1 else None
            continue
        if not is_const(t2):
            continue
        facts = atoms(pc2)
        mk = None
        for a, b in equality_atoms(facts):
            for x, y in ((a, b), (b, a)):
                xs = strip(x)
                if xs[0] == "slice" and strip(xs[1]) == ("param", dpv) and xs[2] is None and xs[3] == ("const", 2) and is_const(y) and isinstance(y[1], bytes):
                    mk = y[1]
        seen[t2[1]] = mk
    xml_first = any(isinstance(n2, ast.Call) and call_is(t2, "xml.etree.ElementTree.fromstring") for n2, t2 in gvs.ta.terms_at.items())
    if not xml_first:
        from ..helpers import with_helpers
        for h_ in with_helpers(prog, gv)[1:]:          # (the classification moved into a helper, possibly in another module)
            xml_first = xml_first or any(isinstance(n2, ast.Call) and call_is(t2, "xml.etree.ElementTree.fromstring") for n2, t2 in summarize(prog, h_).ta.terms_at.items())
    ctx.count("version_returns", len(seen))
    ctx.ob("C17.c", gv.qual, seen.get(2) == b"\x5a\x5a" and seen.get(3) == b"\x83\x70" and 1 in seen and seen.get(1) is None and xml_first,
           "version dispatch: XML -> 1, 5a5a -> 2, 8370 -> 3", func=gv.qual, file=file, construct="version dispatch", detail={"markers": {k: (v.hex() if v else None) for k, v in seen.items()}},
           fail=f"version dispatch changed: {{version: marker}} = { {k: (v.hex() if v else None) for k, v in seen.items()} }")
    raises_ok = any(exc == "msmart.discover.DiscoverError" for _pc, exc, _n, _st in gvs.raises)
    ctx.ob("C17.c", gv.qual, raises_ok, "anything else raises DiscoverError", func=gv.qual, file=file, construct="raise DiscoverError()", fail="unknown replies no longer raise DiscoverError")
    gc = ctx.fn(f"{DISC}._get_device_class")
    gcs = summarize(prog, gc)
    tp = gc.params[-1]
    # the class as one gated term; its value with `type == 0xAC` assumed / refuted (statement and expression forms alike)
    rt = gcs.return_term()
    tests = [x for x in subterms(rt) if x[0] == "cmp" and x[1] in ("==", "!=") and {strip(x[2])[0], strip(x[3])[0]} == {"param", "enum"}
             and any(y[0] == "enum" and y[3] == 0xAC for y in (strip(x[2]), strip(x[3])))]
    ac_ret = dev_ret = False
    if tests:
        t0 = tests[0]
        eq = ("cmp", "==", t0[2], t0[3])
        ne = ("cmp", "!=", t0[2], t0[3])
        ac_ret = strip(simplify(rt, [eq])) == ("global", AC)
        dev_ret = strip(simplify(rt, [ne])) == ("global", DEV)
    ctx.ob("C17.c", gc.qual, ac_ret and dev_ret, "AirConditioner exactly for type 0xAC, generic Device otherwise", func=gc.qual, file=file, construct="class mapping",
           fail="appliance type -> device class mapping changed")
    # ---------------------------------------------------------------- C17.d
    cm = prog.module("msmart.const")
    msg = prog.fold_or_none(prog.module_assigns(cm).get("DISCOVERY_MSG"), cm)
    ok = isinstance(msg, bytes) and len(msg) == 72 and msg[:2] == b"\x5a\x5a" and int.from_bytes(msg[4:6], "little") == 72 \
        and hashlib.md5(msg[:-16] + SIGN_KEY).digest() == msg[-16:]
    ctx.ob("C17.d", "msmart.const.DISCOVERY_MSG", bool(ok), "DISCOVERY_MSG: 72 bytes, marker 5a5a, length field 72, trailing md5(msg[:-16] ‖ SIGN_KEY)",
           func="msmart.const", file=cm.rel, construct="DISCOVERY_MSG", fail="DISCOVERY_MSG is no longer a self-consistent signed V2 packet (a byte changed): real devices do not answer it")
    sd = ctx.fn(f"{DP}._send_discovery")
    sds = summarize(prog, sd)
    ports = None
    sends = [t2 for n2, t2 in sds.ta.terms_at.items() if isinstance(n2, ast.Call) and meth_is(t2, "sendto")]
    # the port of the sendto address iterates over a constant collection (any container type, named or literal)
    for c in sends:
        adr = strip(c[2][1]) if len(c[2]) > 1 else None
        pt = strip(adr[1][1]) if adr is not None and adr[0] == "tuple" and len(adr[1]) == 2 else None
        if pt is not None and pt[0] == "iter":
            src = strip(pt[1])
            if is_const(src) and isinstance(src[1], (list, tuple, set, frozenset)):
                ports = sorted(src[1])
            elif src[0] in ("list", "tuple", "set") and all(is_const(x) for x in src[1]):
                ports = sorted(x[1] for x in src[1])
            elif src[0] == "attr" and src[1] == ("param", sd.params[0]):
                # the ports held in an attribute the constructor fills from a parameter nobody in the package supplies: its (constant) default
                ports = _ctor_default_collection(prog, sd.cls, src[2])
    s_ok = bool(sends) and all(c[2][0] == ("const", msg) and strip(c[2][1])[0] == "tuple" and strip(strip(c[2][1])[1][0]) == ("attr", ("param", sd.params[0]), "_target") for c in sends)
    if ports is None and sends:
        # the destinations precomputed as a list of (target, port) pairs the send loop iterates over
        tgt = ("attr", ("param", sd.params[0]), "_target")
        pairs = []
        for c in sends:
            adr = strip(c[2][1]) if len(c[2]) > 1 else None
            src = strip(adr[1]) if adr is not None and adr[0] == "iter" else None
            if src is not None and src[0] in ("list", "tuple") and all(strip(x)[0] == "tuple" and len(strip(x)[1]) == 2 for x in src[1]):
                pairs += [strip(x)[1] for x in src[1]]
            else:
                pairs = None
                break
        if pairs and all(strip(a_) == tgt and is_const(strip(b_)) for a_, b_ in pairs):
            ports = sorted(strip(b_)[1] for _a, b_ in pairs)
            s_ok = all(c[2][0] == ("const", msg) for c in sends)
    ctx.ob("C17.d", sd.qual, ports == [6445, 20086] and s_ok, "the probe is sent to the target on ports 6445 and 20086", func=sd.qual, file=file, construct="_send_discovery",
           detail={"ports": ports}, fail=f"the probe is sent to ports {ports} / with another payload or target")
    # ---- C17.e "every device that answers ... is reported": replies are collected for the whole timeout, whatever the target - every normal way
    # through discover() passes through `await asyncio.sleep(timeout)` with the caller's timeout (a wait that an early reply can end stops
    # listening while other devices are still answering)
    from ..absint import EventAnalysis, run_events
    dsc = ctx.fn(f"{DISC}.discover")
    dss = summarize(prog, dsc)

    def on_sleep(node, st):
        if isinstance(node, (ast.FunctionDef, ast.AsyncFunctionDef)):
            return []
        for c in ast.walk(node):
            if isinstance(c, ast.Await) and isinstance(c.value, ast.Call):
                t = dss.ta.terms_at.get(c.value)
                if t is not None and call_is(t, "asyncio.sleep") and t[2] and strip(t[2][0]) == ("param", "timeout"):
                    return ["listened"]
        return []
    eas = EventAnalysis(must=True, on_stmt=on_sleep)
    run_events(prog, dsc, eas)
    rets_d = [n for n in eas.at if isinstance(n, ast.Return)]
    ctx.count("discover_returns", len(rets_d))
    for n in rets_d:
        ctx.ob("C17.e", dsc.qual, "listened" in eas.at[n], "discover() listens for the whole timeout before it reports (await asyncio.sleep(timeout) on every path)",
               func=dsc.qual, file=file, node=n,
               fail="discover() can report without having listened for the whole timeout: devices that answer after the first reply are not reported")
    ctx.require_min("discover_returns", 1)
    # ... and the socket it listens on stays open that long: none of the callbacks asyncio invokes while discover() sleeps (connection_made,
    # datagram_received, error_received) closes or aborts the transport - an ICMP error for one probe port, or one odd reply, must not end the
    # listening before the other devices' replies have arrived
    from ..helpers import with_helpers as _wh17
    dp_cls = prog.cls("msmart.discover._DiscoverProtocol")
    n_cb = 0
    for cb in ("connection_made", "datagram_received", "error_received"):
        f0 = prog.lookup_method(dp_cls, cb)
        if f0 is None or not f0.qual.startswith("msmart."):
            continue
        n_cb += 1
        closers = []
        for f2 in _wh17(prog, f0):
            for n in ast.walk(f2.node):
                if isinstance(n, ast.Call) and isinstance(n.func, ast.Attribute) and n.func.attr in ("close", "abort") and \
                        any((isinstance(x, ast.Attribute) and x.attr in ("_transport", "transport")) or (isinstance(x, ast.Name) and x.id in ("transport", "_transport"))
                            for x in ast.walk(n.func.value)):
                    closers.append((f2, n))
        ctx.ob("C17.e", f0.qual, not closers, f"{cb} leaves the listening socket open", func=f0.qual, file=f0.module.rel, node=closers[0][1] if closers else None,
               fail=f"{cb} closes the discovery transport ({norm(closers[0][1])[:50] if closers else ''}): replies that arrive later within the timeout are never "
                    "seen, so devices that answered with a well-formed reply are not reported")
    ctx.count("listening_callbacks", n_cb)
    ctx.require_min("listening_callbacks", 2)
    # ---- C17.t18 "every device that answers with a well-formed reply is reported" needs the other hosts' replies, whatever they are, not to
    # abort the run: the per-host containment and de-duplication obligations of C18 are re-run here, not assumed
    from . import c18
    ctx.import_rules(c18, "t18")
    ctx.require_min("info_fields", 7)
    ctx.require_min("handover_sites", 1)
    ctx.require_min("device_attrs", 7)
    ctx.require_min("getters", 7)
    ctx.require_min("version_returns", 3)
