"""C05 - V3 encrypted packet codec: interoperable for every length, tamper-evident.

  C05.a  padding congruence: for each of the 16 residues of (len(data)+2) mod 16 the pad is in [0,15] and
         (len(data)+2+pad) ≡ 0 (mod 16); pad<<4 | type fits one byte with the type in the low nibble
  C05.b  layout: 8370 ‖ BE16(len+pad+32) ‖ 20 ‖ (pad<<4|6) ‖ AES-CBC(key, BE16(counter) ‖ data ‖ rnd(pad)) ‖
         SHA-256(header ‖ plaintext); declared size = actual size − 8; counter field 2 bytes
  C05.c  decoder agreement: header ← [:6], ciphertext ← [6:-32], tag ← [-32:], tag recomputed over header ‖ decrypted,
         pad ← header[5] >> 4, type ← packet[5] & 0xF, magic [4] == 0x20, marker 8370; same CBC mode and zero IV
  C05.d  the payload strip is exact for every pad including 0: returned range = plaintext[2 : len − pad]
  C05.e  tamper evidence: every return of the encrypted decoder is dominated by the full-width tag equality whose
         failing side raises a ProtocolError; every rejection in _process_packet is a ProtocolError
"""
from __future__ import annotations

import ast

from fractions import Fraction

from ..affine import Lin, lin
from ..facts import abs_range, alternatives, atoms, call_is, cases, digest_parts, simplify, equality_atoms, index_of, meth_is, slice_bounds, strip
from ..intervals import ceval, iv_of
from ..model import AnalysisError
from ..seq import Byte, Const, Digest, Field, Layouts, Opaque, flatten, show_layout, total
from ..terms import is_const, show, subterms, summarize

V3 = "msmart.lan._LanProtocolV3"
ENC = f"{V3}._encode_encrypted_request"
DEC = f"{V3}._decode_encrypted_response"
PROC = f"{V3}._process_packet"
SEC = "msmart.lan.Security"
PROTO = "msmart.lan.ProtocolError"
REQ_TYPE = 0x6


def byte_leaf(t):
    if t[0] == "sub":
        return (0, 255)
    return None


def upper_cases(up, dlen_term, pad_term):
    """Effective end of the returned slice for pad == 0 and for pad > 0, as ('len', delta) | None (unknown).
    delta is an offset from len(decrypted): ('len', 0) = to the end, ('len', -pad) encoded as ('len', '-pad')."""
    def ev(t, pad_zero):
        if t is None or (is_const(t) and t[1] is None):
            return ("len", 0)
        t = strip(t)
        if t == pad_term:
            return ("abs", 0) if pad_zero else ("abs", "pad")
        if is_const(t) and isinstance(t[1], int):
            return ("abs", t[1]) if t[1] >= 0 else ("len", t[1])
        if t[0] == "un" and t[1] == "neg":
            a = ev(t[2], pad_zero)
            if a == ("abs", 0):
                return ("abs", 0)          # x[:-0] is x[:0]  -> empty
            if a == ("abs", "pad"):
                return ("len", "-pad")
            return None
        if t[0] == "bin" and t[1] == "-":
            a, b = strip(t[2]), ev(t[3], pad_zero)
            if call_is(a, "len") and strip(a[2][0]) == dlen_term:
                if b == ("abs", 0):
                    return ("len", 0)
                if b == ("abs", "pad"):
                    return ("len", "-pad")
            return None
        if t[0] == "bool" and t[1] == "or":
            for x in t[2]:
                v = ev(x, pad_zero)
                if v is None:
                    return None
                if v == ("abs", 0):
                    continue               # falsy: try the next operand
                return v
            return ("abs", 0)
        if t[0] == "ite":
            c = strip(t[1])
            truth = None
            if c == pad_term:
                truth = not pad_zero
            elif c[0] == "cmp" and strip(c[2]) == pad_term and is_const(c[3], 0):
                truth = {"!=": not pad_zero, "==": pad_zero, ">": not pad_zero}.get(c[1])
            if truth is None:
                return None
            return ev(t[2] if truth else t[3], pad_zero)
        return None
    return ev(up, True), ev(up, False)


def run(ctx):
    prog = ctx.prog
    L = Layouts(prog)
    ctx.explanation = ("byte-sequence layout of _encode_encrypted_request with the pad evaluated in the congruence domain for all 16 "
                       "residues; range agreement with _decode_encrypted_response / _process_packet; interval reasoning on the payload "
                       "strip; path-condition dominance of the SHA-256 tag comparison")
    ctx.trusted = ["SHA-256 and AES-CBC in hashlib / pycryptodome", "CPython slicing semantics (x[a:-0] is empty)"]
    enc = ctx.fn(ENC)
    file = enc.module.rel
    es = summarize(prog, enc)
    rets = [(pc, t, n) for pc, t, n, _ in es.returns if n is not None]
    if len(rets) != 1:
        raise AnalysisError(f"{ENC}: expected one return, found {len(rets)}")
    pc, t, node = rets[0]
    id_p, data_p = enc.params[1], enc.params[2]
    lay = L.layout(t)
    ctx.count("codecs")
    ctx.sample({"encode_layout": show_layout(lay)[:600]})
    segs = list(lay)
    # locate segments
    ct = [s for s in segs if isinstance(s, Opaque) and s.label.startswith("enc:")]
    dg = [s for s in segs if isinstance(s, Digest)]
    ok_shape = len(ct) == 1 and len(dg) == 1 and segs.index(ct[0]) < segs.index(dg[0]) and segs[-1] is dg[0]
    ctx.ob("C05.b", ENC, ok_shape, "packet = header ‖ ciphertext ‖ digest", func=ENC, file=file, construct="packet shape",
           fail=f"encrypted request is not header ‖ ciphertext ‖ tag: {show_layout(lay)[:200]}")
    if not ok_shape:
        return
    header = segs[:segs.index(ct[0])]
    ct, dg = ct[0], dg[0]
    plain = ct.of or []
    rnd = [s for s in plain if isinstance(s, Opaque) and s.label == "random"]
    if len(rnd) != 1:
        ctx.violation("C05.b", ENC, "the plaintext does not end in one random padding segment", file=file, construct="padding")
        return
    pad_t = rnd[0].keyterm
    len_sym = ("call", ("ext", "len"), (("param", data_p),), ())
    # ---- C05.a
    for r in range(16):
        ctx.count("residues")
        mods = {len_sym: (16, (r - 2) % 16)}
        pad = ceval(pad_t, mods)
        ok = isinstance(pad, int) and 0 <= pad <= 15 and (r + pad) % 16 == 0
        ctx.ob("C05.a", ENC, ok, f"(len+2) ≡ {r} (mod 16): pad = {pad}, (len+2+pad) ≡ 0", func=ENC, file=file,
               construct=f"pad at residue {r}", fail=f"for (len(data)+2) ≡ {r} (mod 16) the pad evaluates to {pad}: "
               f"{'not block aligned' if isinstance(pad, int) and (r + pad) % 16 else 'outside 0..15 (does not fit the header nibble)'}")
    # ---- C05.b header
    hl = total(header)
    ctx.ob("C05.b", ENC, hl == Lin(6), "header is 6 bytes", func=ENC, file=file, construct="header length", fail=f"header is {hl} bytes, not 6")
    hseg = flatten(header)
    pat = len(hseg) == 4 and isinstance(hseg[0], Const) and hseg[0].b == b"\x83\x70" and isinstance(hseg[1], Field) and hseg[1].n == Lin(2) \
        and hseg[1].order == "big" and isinstance(hseg[2], Const) and hseg[2].b == b"\x20" and isinstance(hseg[3], Byte)
    ctx.ob("C05.b", ENC, pat, "header = 8370 ‖ BE16(size) ‖ 20 ‖ pad/type byte", func=ENC, file=file, construct="header layout",
           fail=f"header layout is {show_layout(hseg)[:160]}")
    if pat:
        declared = L.int_lin(hseg[1].term)
        actual = total(lay)
        ctx.ob("C05.b", ENC, declared == actual - Lin(8), f"size field ({declared}) = packet length ({actual}) − 8",
               func=ENC, file=file, construct=f"size = {show(hseg[1].term)[:60]}",
               fail=f"declared size {declared} is not the packet length {actual} minus 8 (receiver framing uses size + 8)")
        for r in range(16):
            mods = {len_sym: (16, (r - 2) % 16)}
            pad = ceval(pad_t, mods)
            b = ceval(hseg[3].term, mods)
            ok = isinstance(b, int) and isinstance(pad, int) and b == (pad << 4 | REQ_TYPE) and 0 <= b <= 255
            ctx.ob("C05.b", ENC, ok, f"residue {r}: pad/type byte = {b if isinstance(b, int) else '?'} = pad<<4 | 6", func=ENC, file=file,
                   construct=f"pad/type byte at residue {r}",
                   fail=f"residue {r}: pad/type byte evaluates to {b}, expected (pad {pad} << 4) | {REQ_TYPE}")
    # plaintext = BE16(counter) ‖ data ‖ random(pad)
    pl = flatten(plain)
    pok = len(pl) == 3 and isinstance(pl[0], Field) and pl[0].n == Lin(2) and pl[0].order == "big" and strip(pl[0].term) == ("param", id_p) \
        and isinstance(pl[1], Opaque) and pl[1].label == f"param:{data_p}" and pl[2] is rnd[0]
    ctx.ob("C05.b", ENC, pok, "plaintext = BE16(counter) ‖ payload ‖ random(pad)", func=ENC, file=file, construct="plaintext layout",
           fail=f"plaintext layout is {show_layout(pl)[:160]}")
    ctx.ob("C05.b", ENC, ct.label == "enc:cbc", "ciphertext is AES-CBC of the plaintext", func=ENC, file=file, construct="cipher mode",
           fail=f"payload cipher is {ct.label}, not AES-CBC")
    over_ok = dg.alg == "sha256" and [s.key() for s in flatten(dg.over)] == [s.key() for s in flatten(header + plain)]
    ctx.ob("C05.b", ENC, over_ok, "tag = SHA-256(header ‖ plaintext)", func=ENC, file=file, construct="tag input",
           fail=f"tag is {dg.alg} over {show_layout(dg.over)[:160]}, not SHA-256 over header ‖ plaintext")
    keyt = ct.keyterm[0] if ct.keyterm else None
    ctx.ob("C05.b", ENC, keyt is not None and strip(keyt) == ("attr", ("param", enc.params[0]), "_local_key"),
           "encrypted under the session key", func=ENC, file=file, construct="key", fail="request is not encrypted under self._local_key")

    # ---- C05.c cbc pairing
    ce, cd = summarize(prog, ctx.fn(f"{SEC}.encrypt_aes_cbc")).return_term(), summarize(prog, ctx.fn(f"{SEC}.decrypt_aes_cbc")).return_term()

    def cbc(t):
        if t[0] == "call" and t[1][0] == "meth" and call_is(t[1][1], "Crypto.Cipher.AES.new"):
            new = t[1][1]
            return (t[1][2], new[2][0] if new[2] else None, show(new[2][1]) if len(new[2]) > 1 else None, dict(new[3]).get("iv"), t[2][0] if t[2] else None)
        return None
    e_, d_ = cbc(ce), cbc(cd)
    pair = e_ and d_ and e_[0] == "encrypt" and d_[0] == "decrypt" and e_[2] == d_[2] and "CBC" in (e_[2] or "") \
        and e_[3] == d_[3] and e_[3] in (("call", ("ext", "bytes"), (("const", 16),), ()), ("const", bytes(16))) and e_[1] == ("param", "key") == d_[1]
    ctx.ob("C05.c", SEC, bool(pair), "encrypt_aes_cbc / decrypt_aes_cbc: same mode (CBC), zero IV, caller's key", func=SEC, file=file,
           construct="AES.new(key, MODE_CBC, iv=bytes(16))", fail="CBC encrypt / decrypt disagree on mode, IV or key")

    # ---- decoder
    dec = ctx.fn(DEC)
    ds = summarize(prog, dec)
    pk = dec.params[-1]
    ctx.count("codecs")
    n_ret = 0
    for pc2, ret, node2, _st in ds.returns:
        if node2 is None:
            continue
        n_ret += 1
        facts = atoms(pc2)
        tag = None
        for a, b in equality_atoms(facts):
            for x, y in ((a, b), (b, a)):
                dp = digest_parts(x) if meth_is(x, "digest") else None     # one-shot, incremental .update() and hashlib.new spellings
                if dp is not None and dp[0] == "sha256" and dp[1]:
                    tag = (dp[1], strip(y))
        if not ctx.ob("C05.e", DEC, tag is not None, "return is dominated by a full-width SHA-256 tag equality", func=DEC, file=file, node=node2,
                      fail="a payload can be returned on a path where the SHA-256 tag was not (fully) compared"):
            continue
        ctx.count("comparisons")
        hashed, rx = tag
        rb0 = slice_bounds(rx)
        ctx.ob("C05.c", DEC, rb0 is not None and strip(rb0[0]) == ("param", pk) and rb0[1] == -32 and rb0[2] is None,
               "received tag = packet[-32:]", func=DEC, file=file, node=node2, detail={"tag": show(rx)},
               fail=f"received tag is read from {show(rx)}, encoder appends it as the last 32 bytes")
        # hashed = bytes(packet[:6]) + decrypted(packet[6:-32])
        parts = list(hashed)
        hs = parts[0] if len(parts) == 1 else ("tuple", tuple(parts))
        hdr_ok = len(parts) == 2 and slice_bounds(parts[0]) is not None and strip(slice_bounds(parts[0])[0]) == ("param", pk) \
            and slice_bounds(parts[0])[1] in (None, 0) and slice_bounds(parts[0])[2] == 6
        dec_ok = len(parts) == 2 and call_is(parts[1], f"{SEC}.decrypt_aes_cbc") and len(parts[1][2]) >= 2 \
            and strip(parts[1][2][-2]) == ("attr", ("param", dec.params[0]), "_local_key") \
            and slice_bounds(strip(parts[1][2][-1])) is not None and strip(slice_bounds(strip(parts[1][2][-1]))[0]) == ("param", pk) \
            and slice_bounds(strip(parts[1][2][-1]))[1:] == (6, -32)
        ctx.ob("C05.c", DEC, hdr_ok and dec_ok, "tag recomputed over packet[:6] ‖ decrypt(packet[6:-32]) (header ‖ plaintext, as the encoder)",
               func=DEC, file=file, node=node2, detail={"hashed": show(hs)[:200]},
               fail=f"tag is recomputed over {show(hs)[:160]}: not header[:6] ‖ decrypted [6:-32] (encoder hashes header ‖ plaintext)")
        if not (hdr_ok and dec_ok):
            continue
        D = parts[1]
        # ---- C05.d returned range
        r = strip(ret)
        rb = r if r[0] == "slice" else None
        ok_base = rb is not None and strip(rb[1]) == D and rb[4] is None
        ctx.ob("C05.d", DEC, ok_base, "the returned payload is a slice of the decrypted (verified) plaintext", func=DEC, file=file, node=node2,
               detail={"returned": show(r)[:200]}, fail="the returned payload is not a slice of the verified plaintext")
        if ok_base:
            lo, up = rb[2], rb[3]
            ctx.ob("C05.d", DEC, lo == ("const", 2), "strip starts after the 2-byte counter", func=DEC, file=file, node=node2,
                   fail=f"payload starts at {show(lo) if lo else 0}, the encoder puts a 2-byte counter in front")
            # pad term of the decoder
            pads = [x for x in subterms(up) if x[0] == "bin" and x[1] == ">>" and is_const(x[3], 4)] if up is not None else []
            pad_d = pads[0] if pads else None
            pio = index_of(pad_d[2]) if pad_d else None
            ctx.ob("C05.c", DEC, pio == (("param", pk), ("front", 5)), "pad ← header byte 5 >> 4 (encoder: pad << 4 in byte 5)", func=DEC, file=file,
                   node=node2, detail={"pad": show(pad_d) if pad_d else None},
                   fail="the decoder does not take the pad count from the high nibble of header byte 5")
            if pad_d is not None:
                z, nz = upper_cases(up, D, pad_d)
                iv = iv_of(pad_d, byte_leaf)
                ctx.count("pad_cases", 2)
                ctx.ob("C05.d", DEC, z == ("len", 0), f"pad = 0 (pad ∈ [{iv[0]},{iv[1]}] includes 0): the strip keeps the plaintext to its end",
                       func=DEC, file=file, node=node2, construct=f"{show(r)[-60:]} at pad = 0",
                       fail=f"for pad = 0 the slice end `{show(up)[:60]}` denotes {'the empty range (x[a:-0] is x[a:0])' if z == ('abs', 0) else z}: "
                            "a payload with (len+2) % 16 == 0 decodes to the wrong bytes")
                ctx.ob("C05.d", DEC, nz == ("len", "-pad"), "pad > 0: the strip removes exactly pad trailing bytes", func=DEC, file=file, node=node2,
                       construct=f"{show(r)[-60:]} at pad > 0", fail=f"for pad > 0 the slice end `{show(up)[:60]}` is not len − pad")
    # ---- C05.e error classes
    for pc2, exc, node2, _st in ds.raises:
        ctx.count("raises")
        ctx.ob("C05.e", DEC, prog.exc_is(exc, PROTO), f"rejection raises {exc.split('.')[-1]} (a ProtocolError)", func=DEC, file=file, node=node2,
               fail=f"encrypted-response decoder raises {exc}: not a protocol error")
    pr = ctx.fn(PROC)
    ps = summarize(prog, pr)
    pp = pr.params[-1]
    for pc2, exc, node2, _st in ps.raises:
        ctx.count("raises")
        ctx.ob("C05.e", PROC, prog.exc_is(exc, PROTO), f"_process_packet rejection raises {exc.split('.')[-1]}", func=PROC, file=file, node=node2,
               fail=f"_process_packet raises {exc}: not a protocol error")
    def dispatch_cases():
        """(facts, returned term, node) for every return of _process_packet, one per case of its path condition with the gates of
        the returned value that the case settles resolved (a dispatch table / conditional expression returns a gated value)."""
        out = []
        for pc2, ret, node2, _st in ps.returns:
            if node2 is None:
                continue
            for case in cases(pc2):
                r = strip(simplify(ret, case))
                # remaining gates that only test the packet type: one sub-case per alternative
                todo = [(list(case), r)]
                while todo:
                    fs, rr = todo.pop()
                    if rr[0] == "ite":
                        for truth in (True, False):
                            for alt in alternatives(rr[1], truth):
                                fs2 = fs + [a for a in alt if a not in fs]
                                todo.append((fs2, strip(simplify(rr[2] if truth else rr[3], fs2))))
                    elif rr[0] != "top":
                        out.append((fs, rr, node2))
        return out
    for facts, ret, node2 in dispatch_cases():
        pc2 = tuple((f, True) for f in facts)
        ctx.count("dispatch_returns")
        mk = mg = ty = False
        tyv = None
        for a, b in equality_atoms(facts):
            for x, y in ((a, b), (b, a)):
                xs = strip(x)
                if slice_bounds(xs) and strip(slice_bounds(xs)[0]) == ("param", pp) and slice_bounds(xs)[1:] in ((None, 2), (0, 2)) and y == ("const", b"\x83\x70"):
                    mk = True
                if index_of(xs) == (("param", pp), ("front", 4)) and is_const(y, 0x20):
                    mg = True
                if xs[0] == "bin" and xs[1] == "&" and index_of(xs[2]) == (("param", pp), ("front", 5)) and is_const(xs[3], 0xF) and \
                        (y[0] == "enum" or (y[0] == "const" and isinstance(y[1], int) and not isinstance(y[1], bool))):
                    ty, tyv = True, (y[3] if y[0] == "enum" else y[1])
        target = ret[1][1] if ret[0] == "call" and ret[1][0] == "func" else None
        want = {3: DEC, 1: f"{V3}._decode_handshake_response"}.get(tyv)
        if tyv == 1:
            # the handshake reply is the raw bytes after the 6-byte header and the 2-byte counter - through the decoder or inline
            hr = None
            if target == want and want in prog.funcs and ret[2] and strip(ret[2][-1]) == ("param", pp):
                hf = ctx.fn(want)
                r2 = [t for _pc, t, n, _ in summarize(prog, hf).returns if n is not None]
                hr = abs_range(r2[0]) if len(r2) == 1 else None
                hr = (("param", pp),) + tuple(hr[1:]) if hr is not None and hr[0] == ("param", hf.params[-1]) else None
            elif target is None:
                hr = abs_range(ret)
            if hr is not None and hr[0] == ("param", pp) and hr[1] == 8 and hr[2] in (None, 0):
                target = want
            else:
                target = target if target != want else "handshake decoder with another range"
        ctx.ob("C05.c", PROC, mk and mg and ty and target == want,
               f"type {tyv} is dispatched after marker 8370, magic 0x20 and low-nibble type tests to {str(target).split('.')[-1]}",
               func=PROC, file=file, node=node2, detail={"facts": [show(f)[:80] for f in facts]},
               fail="a packet is decoded without the marker / magic / type-nibble tests the header layout requires, or by the wrong decoder")
    def pending_flag_ok(attr):
        """self.<attr> is a 'handshake outstanding' flag: False from __init__, written elsewhere only by the protocol's
        authenticate, where it is True exactly around the handshake write / read and False again on every way out."""
        from .c06 import stores_to, store_owners
        from ..ctor import init_attrs
        if init_attrs(prog, prog.cls(V3)).get(attr) != ("const", False):
            return False
        owners = set(store_owners(prog, stores_to(prog, V3, attr)))
        auth = ctx.fn(f"{V3}.authenticate")
        if not owners <= {f"{V3}.__init__", auth.qual}:
            return False
        as_ = summarize(prog, auth)
        key = f"{auth.params[0]}.{attr}"
        outs = [rst for _pc, _t, _n, rst in as_.returns] + [rst for _pc, _e, _n, rst in as_.raises]
        if not outs or any(rst.env.get(key, ("const", False)) != ("const", False) for rst in outs):
            return False
        # set to True before the handshake write
        from ..absint import EventAnalysis, run_events
        def on_stmt(node, st):
            ev = []
            for n in ast.walk(node):
                if isinstance(n, ast.Assign) and any(isinstance(t, ast.Attribute) and t.attr == attr for t in n.targets) and isinstance(n.value, ast.Constant) and n.value.value is True:
                    ev.append("armed")
            return ev
        ea = EventAnalysis(must=True, on_stmt=on_stmt)
        run_events(prog, auth, ea)
        reads = [n for n in ea.at if isinstance(n, ast.stmt) and not isinstance(n, (ast.Try, ast.If, ast.With, ast.For, ast.While)) and
                 any(isinstance(c, ast.Call) and isinstance(c.func, ast.Attribute) and c.func.attr == "read" for c in ast.walk(n))]
        if not (bool(reads) and all("armed" in ea.at[n] for n in reads)):
            return False
        # ... and False again on *every* way out, also the ones nobody names (a timeout or a cancellation of the read is no ProtocolError):
        # whatever can raise while the flag may be up sits in a try whose `finally` (or catch-all handler) lowers it
        def is_store(n, val):
            return isinstance(n, ast.Assign) and any(isinstance(t, ast.Attribute) and t.attr == attr for t in n.targets) and isinstance(n.value, ast.Constant) \
                and n.value.value is val

        def on_stmt2(node, st):
            return ["up"] if any(is_store(n, True) for n in ast.walk(node)) else []
        may = EventAnalysis(must=False, on_stmt=on_stmt2, kill=lambda node, e: e == "up" and any(is_store(n, False) for n in ast.walk(node)) and not isinstance(node, ast.Try))
        run_events(prog, auth, may)
        # parents over the whole module: the analysis walks into same-class helpers, whose statements are then judged where they stand
        # and, failing that, at every call site of the helper
        par = {}
        for root_ in [auth.module.tree]:
            for n in ast.walk(root_):
                for c in ast.iter_child_nodes(n):
                    par[c] = n

        def try_covers(p_, x):
            if isinstance(p_, ast.Try) and any(x is b for b in p_.body):
                lowers = any(is_store(y, False) for st_ in p_.finalbody for y in ast.walk(st_))
                catch_all = any((h.type is None or (isinstance(h.type, ast.Name) and h.type.id == "BaseException")) and
                                any(is_store(y, False) for st_ in h.body for y in ast.walk(st_)) for h in p_.handlers)
                return lowers or catch_all
            return False

        def protected(n, depth=0):
            x = n
            while x in par:
                p_ = par[x]
                if try_covers(p_, x):
                    return True
                if isinstance(p_, (ast.FunctionDef, ast.AsyncFunctionDef)) and p_ is not auth.node and depth < 4:
                    cls_ = par.get(p_)
                    sites = [c for c in ast.walk(cls_) if isinstance(c, ast.Call) and isinstance(c.func, ast.Attribute) and c.func.attr == p_.name
                             and isinstance(c.func.value, ast.Name)] if isinstance(cls_, ast.ClassDef) else []
                    return bool(sites) and all(protected(c, depth + 1) for c in sites)
                x = p_
            return False
        for n, st_ in may.at.items():
            if isinstance(n, ast.stmt) and not isinstance(n, (ast.Try, ast.If, ast.With, ast.For, ast.While, ast.FunctionDef, ast.AsyncFunctionDef)) and "up" in st_ \
                    and any(isinstance(c, (ast.Call, ast.Await)) for c in ast.walk(n)) and not is_store(n, False) and not protected(n):
                return False
        return True

    # ---- C05.f every payload _process_packet hands out for a header-valid packet went through the tag comparison.
    # The type nibble is itself unauthenticated at this point, so an accepted type that is returned *without* the tag check is
    # reachable from an encrypted response by altering header bits (3 -> 1 is a single-bit flip).
    for facts, ret, node2 in dispatch_cases():
        pc2 = tuple((f, True) for f in facts)
        verified = ret[0] == "call" and ret[1] == ("func", DEC)
        # ... or the unauthenticated type is accepted only while a handshake request is outstanding (flag discipline checked below)
        flag_attrs = {strip(a)[2] for a in atoms(pc2) if strip(a)[0] == "attr" and strip(a)[1] == ("param", pr.params[0])}
        if not verified and flag_attrs:
            verified = any(pending_flag_ok(fa) for fa in sorted(flag_attrs))
        tys = sorted({y[3] for a, b in equality_atoms(atoms(pc2)) for y in (strip(a), strip(b)) if y[0] == "enum" and y[1].endswith("PacketType")})
        ctx.ob("C05.f", PROC, verified, "the payload returned for an accepted packet has passed the SHA-256 tag comparison", func=PROC, file=file,
               construct=f"dispatch of packet type {tys[0] if tys else '?'} returns bytes that were not tag-verified",
               detail={"returns": show(ret)[:120], "path_types": tys},
               fail=f"_process_packet returns the bytes of a type-{tys[0] if tys else '?'} packet without any tag check: an encrypted response whose type nibble is altered "
                    f"(3 -> {tys[0] if tys else '?'}) is not rejected with a ProtocolError at this layer")
    # what the encoders build is what goes out: write() hands the encoding selected by the packet type to the transport
    from ._pipeline import write_reaches_wire
    write_reaches_wire(ctx, "C05.g")
    # ---- C05.t4 "every encrypted response produced by that implementation is decoded to exactly the payload sent" needs the response to reach the
    # decoder at all: whole, once, whatever arrived before it on the connection (a watermark left behind by an earlier split packet keeps a
    # later, shorter response in the buffer).  The reassembly premises of C04 are re-run here, not assumed.
    from . import c04
    ctx.import_rules(c04, "t4")
    ctx.require_min("codecs", 2)
    ctx.require_min("residues", 16)
    ctx.require_min("comparisons", 1)
    ctx.require_min("raises", 5)
    ctx.require_min("dispatch_returns", 2)
    ctx.require_min("pad_cases", 2)
