"""Connectivity of the V2 send / receive pipeline, shared by C01 (end to end), C02 (what is written is the wrapped frame) and C03 (what is
returned went through the verifying decoder)."""
from __future__ import annotations

import ast

from ..facts import call_is, meth_is, strip
from ..terms import summarize

LAN = "msmart.lan.LAN"


def send_writes_wrapped(ctx, rule: str):
    """every transport write of LAN.send (helpers seen through) is _Packet.encode(self._device_id, <the frame it was given>)"""
    from ..helpers import term_lookup, with_helpers
    from .c08 import attr_call
    prog = ctx.prog
    send = ctx.fn(f"{LAN}.send")
    lp = send.params[0]
    stl = term_lookup(prog, send)
    send_fns = with_helpers(prog, send)
    writes = [(n, stl(n)) for f_ in send_fns for n in ast.walk(f_.node) if isinstance(n, ast.Call) and attr_call(n, "_protocol", "write")]
    w_ok = bool(writes) and all(t is not None and call_is(strip(t[2][0]), "msmart.lan._Packet.encode") and strip(strip(t[2][0])[2][-2]) == ("attr", ("param", lp), "_device_id")
                                and strip(strip(t[2][0])[2][-1]) == ("param", send.params[1]) for n, t in writes)
    ctx.ob(rule, send.qual, w_ok, "LAN.send writes _Packet.encode(self._device_id, data) and nothing else", func=send.qual, file=send.module.rel, construct="self._protocol.write(packet)",
           fail="LAN.send does not write exactly the V2-wrapped frame for this device id")
    return w_ok


def read_returns_decoded(ctx, rule: str):
    """LAN._read returns _Packet.decode(await protocol.read()) on its only return: no packet reaches the caller around the verifying decoder"""
    prog = ctx.prog
    rd = ctx.fn(f"{LAN}._read")
    rt = [t for _pc, t, n, _ in summarize(prog, rd).returns if n is not None]
    def leaves(x):
        x = strip(x)
        return leaves(x[2]) + leaves(x[3]) if x[0] == "ite" else [x]
    rd_ok = len(rt) == 1 and call_is(strip(rt[0]), "msmart.lan._Packet.decode") and \
        all(y[0] == "await" and meth_is(strip(y[1]), "read") for y in leaves(strip(rt[0])[2][-1]))          # (whichever way the timeout is passed on)
    ctx.ob(rule, rd.qual, rd_ok, "_read returns _Packet.decode(await protocol.read())", func=rd.qual, file=rd.module.rel, construct="_read", fail="_read does not return the decoded packet it read")
    return rd_ok
