"""Connectivity of the V2 send / receive pipeline, shared by C01 (end to end), C02 (what is written is the wrapped frame) and C03 (what is
returned went through the verifying decoder)."""
from __future__ import annotations

import ast

from ..facts import call_is, meth_is, strip
from ..model import norm
from ..terms import summarize

LAN = "msmart.lan.LAN"


def send_writes_wrapped(ctx, rule: str):
    """every transport write of LAN.send (helpers seen through) is _Packet.encode(self._device_id, <the frame it was given>)"""
    from ..helpers import term_lookup, with_helpers
    from .c08 import attr_call
    prog = ctx.prog
    send = ctx.fn(f"{LAN}.send")
    lp = send.params[0]
    stl = term_lookup(prog, send)
    send_fns = with_helpers(prog, send)
    writes = [(n, stl(n)) for f_ in send_fns for n in ast.walk(f_.node) if isinstance(n, ast.Call) and attr_call(n, "_protocol", "write")]
    w_ok = bool(writes) and all(t is not None and call_is(strip(t[2][0]), "msmart.lan._Packet.encode") and strip(strip(t[2][0])[2][-2]) == ("attr", ("param", lp), "_device_id")
                                and strip(strip(t[2][0])[2][-1]) == ("param", send.params[1]) for n, t in writes)
    ctx.ob(rule, send.qual, w_ok, "LAN.send writes _Packet.encode(self._device_id, data) and nothing else", func=send.qual, file=send.module.rel, construct="self._protocol.write(packet)",
           fail="LAN.send does not write exactly the V2-wrapped frame for this device id")
    # ... where self._device_id is the id the LAN object was constructed with, all of it
    from ..ctor import init_attrs
    lan_cls = prog.cls(LAN)
    ini = prog.lookup_method(lan_cls, "__init__")
    did = init_attrs(prog, lan_cls).get("_device_id")
    want = ("param", "device_id") if ini is None or "device_id" in ini.params else None
    id_ok = did is not None and (strip(did) == want or (want is None and strip(did)[0] == "param"))
    ctx.ob(rule, LAN, id_ok, "the id wrapped into every packet is the constructor's device id, unmodified", func=LAN, file=lan_cls.module.rel, construct="self._device_id = device_id",
           detail={"stored": None if did is None else str(did)[:100]},
           fail="LAN.__init__ does not keep the device id as given (masked, truncated or converted): ids outside the kept range are wrapped as another device's id")
    return w_ok


def drain_yields_decoded(ctx, rule: str):
    """The non-blocking drain hands on every queued packet through the decoder and stops only on an empty queue: it does not swallow the
    decoder's rejection (an altered packet picked up by the drain must fail the exchange like one picked up by the read)."""
    from .c08 import attr_call
    prog = ctx.prog
    ra = ctx.fn(f"{LAN}._read_available")
    ys = [n for n in ast.walk(ra.node) if isinstance(n, ast.Yield)]
    reads = [n for n in ast.walk(ra.node) if isinstance(n, ast.Await) and isinstance(n.value, ast.Call) and attr_call(n.value, "_read")]
    nonblocking = bool(reads) and all(any(k.arg == "timeout" and prog.fold_or_none(k.value, ra.module, ra.cls) == 0 and prog.fold_or_none(k.value, ra.module, ra.cls) is not False
                                          for k in r.value.keywords) for r in reads)
    # the yielded value is the awaited read (directly, or through one local)
    def is_read_value(v):
        if isinstance(v, ast.Await) and v in reads:
            return True
        if isinstance(v, ast.Name):
            asg = [a for a in ast.walk(ra.node) if isinstance(a, ast.Assign) and any(isinstance(t, ast.Name) and t.id == v.id for t in a.targets)]
            return len(asg) == 1 and asg[0].value in reads
        return False
    yields_read = len(ys) >= 1 and all(is_read_value(y.value) for y in ys)
    swallowed = []
    for t in ast.walk(ra.node):
        if isinstance(t, ast.Try) and any(r is x for b in t.body for x in ast.walk(b) for r in reads):
            for h in t.handlers:
                names = ["BaseException"] if h.type is None else [norm(x).split(".")[-1] for x in (h.type.elts if isinstance(h.type, ast.Tuple) else [h.type])]
                if any(n_ not in ("QueueEmpty",) for n_ in names) and not any(isinstance(x, ast.Raise) for x in ast.walk(h)):
                    swallowed.append((h, names))
    ctx.ob(rule, ra.qual, nonblocking and yields_read and not swallowed, "_read_available yields every queued frame through _read without blocking and stops only on an empty queue",
           func=ra.qual, file=ra.module.rel, construct="_read_available", node=swallowed[0][0] if swallowed else None,
           fail=("_read_available swallows " + ", ".join(swallowed[0][1]) + ": an altered packet picked up by the drain is consumed silently" if swallowed else
                 "_read_available no longer yields each queued decoded frame"))


def read_returns_decoded(ctx, rule: str):
    """LAN._read returns _Packet.decode(await protocol.read()) on its only return: no packet reaches the caller around the verifying decoder"""
    prog = ctx.prog
    rd = ctx.fn(f"{LAN}._read")
    rt = [t for _pc, t, n, _ in summarize(prog, rd).returns if n is not None]
    def leaves(x):
        x = strip(x)
        return leaves(x[2]) + leaves(x[3]) if x[0] == "ite" else [x]
    r0 = strip(rt[0]) if len(rt) == 1 else None
    if r0 is not None and r0[0] == "attr" and call_is(strip(r0[1]), "msmart.lan._Packet.decode"):
        r0 = strip(r0[1])          # (decode hands back a record: _read takes its frame field)
    rd_ok = r0 is not None and call_is(r0, "msmart.lan._Packet.decode") and \
        all(y[0] == "await" and meth_is(strip(y[1]), "read") for y in leaves(r0[2][-1]))          # (whichever way the timeout is passed on)
    ctx.ob(rule, rd.qual, rd_ok, "_read returns _Packet.decode(await protocol.read())", func=rd.qual, file=rd.module.rel, construct="_read", fail="_read does not return the decoded packet it read")
    return rd_ok


V2 = "msmart.lan._LanProtocol"
V3 = "msmart.lan._LanProtocolV3"


def write_reaches_wire(ctx, rule: str, parts=("v2", "v3")):
    """What LAN.send hands to protocol.write() is what the transport gets: _LanProtocol.write passes its argument, unmodified, to
    transport.write on every normal way out (and does so when there *is* a transport); _LanProtocolV3.write hands the packet built by the
    encoder its packet type selects - the encrypted-request encoder for data, the handshake encoder for the handshake - to that write."""
    from ..absint import EventAnalysis, run_events
    from ..facts import atoms, simplify
    from ..terms import is_const, show, subterms
    prog = ctx.prog
    w = ctx.fn(f"{V2}.write")
    sp, dp = w.params[0], w.params[1]

    def wire_call(n):
        return isinstance(n, ast.Call) and isinstance(n.func, ast.Attribute) and n.func.attr == "write" and isinstance(n.func.value, ast.Attribute) \
            and n.func.value.attr == "_transport" and isinstance(n.func.value.value, ast.Name) and n.func.value.value.id == sp

    def on_stmt(node, st):
        if isinstance(node, ast.stmt) and not isinstance(node, (ast.If, ast.While, ast.For, ast.Try, ast.With)) and any(wire_call(c) for c in ast.walk(node)):
            return ["wire"]
        return []
    ea = EventAnalysis(must=True, on_stmt=on_stmt)
    comp = run_events(prog, w, ea)
    exits = [st for st, _n in comp.returns] + list(comp.normal)
    ws = summarize(prog, w)
    calls = [(n, ws.ta.terms_at.get(n)) for n in ast.walk(w.node) if wire_call(n)]
    same = bool(calls) and all(t is not None and len(t[2]) == 1 and strip(t[2][0]) == ("param", dp) for _n, t in calls)
    none_t = ("cmp", "is", ("attr", ("param", sp), "_transport"), ("const", None))
    on_none = any(none_t in [strip(a) for a in atoms(ws.ta.env_at[s_].pc)] for s_ in ws.ta.env_at
                  if isinstance(s_, ast.stmt) and not isinstance(s_, (ast.If, ast.While, ast.For, ast.Try, ast.With)) and any(wire_call(c) for c in ast.walk(s_)))
    ctx.count("wire_writes", len(calls))
    ctx.ob(rule, w.qual, bool(exits) and all("wire" in st for st in exits) and same and not on_none,
           "_LanProtocol.write hands its argument to transport.write on every normal way out", func=w.qual, file=w.module.rel, construct="self._transport.write(data)",
           fail="_LanProtocol.write can return without having written its argument to the transport (or writes something else / only when there is no transport): "
                "the request never reaches the device and every exchange times out")
    if "v3" not in parts:
        return
    w3 = ctx.fn(f"{V3}.write")
    s3 = summarize(prog, w3)
    sp3, dp3 = w3.params[0], w3.params[1]
    sup = [(n, s3.ta.terms_at.get(n.args[0])) for n in ast.walk(w3.node) if isinstance(n, ast.Call) and isinstance(n.func, ast.Attribute) and n.func.attr == "write"
           and isinstance(n.func.value, ast.Call) and isinstance(n.func.value.func, ast.Name) and n.func.value.func.id == "super" and n.args]
    ok3 = len(sup) == 1 and sup[0][1] is not None
    detail = {}
    if ok3:
        t = sup[0][1]
        ptype = next((("param", p) for p in w3.args if p != dp3), None)
        pairs = (("ENCRYPTED_REQUEST", f"{V3}._encode_encrypted_request"), ("HANDSHAKE_REQUEST", f"{V3}._encode_handshake_request"))
        enums = {}
        for member, _enc in pairs:
            enums[member] = next((x for x in subterms(t) if x[0] == "enum" and x[2] == member), None) or \
                next((x for pc, _e, _n, _st in list(s3.raises) + list(s3.returns) for c_, _tr in pc for x in subterms(c_) if x[0] == "enum" and x[2] == member), None)
        for member, encoder in pairs:
            if enums[member] is None or ptype is None:
                ok3 = False
                detail[member] = "member not tested"
                continue
            facts_ = [("cmp", "==", ptype, enums[member])] + [("cmp", "!=", ptype, e_) for m_, e_ in enums.items() if m_ != member and e_ is not None]
            v = strip(simplify(t, facts_))
            good = call_is(v, encoder) and strip(v[2][-1]) == ("param", dp3)
            # ... and the write is reached for this type (its path condition is not refuted by `packet_type == member`)
            from ..facts import decide
            stmt_pc = next((s3.ta.env_at[s_].pc for s_ in s3.ta.env_at if isinstance(s_, ast.stmt) and not isinstance(s_, (ast.If, ast.While, ast.For, ast.Try, ast.With))
                            and any(c is sup[0][0] for c in ast.walk(s_))), ())
            for c_, tr_ in stmt_pc:
                d_ = decide(c_, facts_)
                if d_ is not None and d_ != tr_:
                    good = False
                    detail[member] = "write not reached for this type"
            detail[member] = show(v)[:80]
            ok3 = ok3 and good
    ctx.ob(rule, w3.qual, ok3, "_LanProtocolV3.write sends the encrypted-request encoding for data and the handshake encoding for the handshake", func=w3.qual,
           file=w3.module.rel, construct="super().write(packet)", detail=detail,
           fail=f"_LanProtocolV3.write does not hand the encoder selected by the packet type to the transport write ({detail}): data or handshake packets go out in the wrong framing / not at all")


def decode_returns(prog, s):
    """The returns of _Packet.decode as (pc, frame term, node, state).  When decode hands back a record (a NamedTuple / dataclass of the package,
    e.g. (length, frame)), the frame is the field LAN._read takes from it; the other fields are bookkeeping, not plaintext."""
    out = []
    field = None
    rd = prog.funcs.get(f"{LAN}._read")
    if rd is not None:
        for _pc, t, n, _st in summarize(prog, rd).returns:
            t0 = strip(t)
            if n is not None and t0[0] == "attr" and call_is(strip(t0[1]), "msmart.lan._Packet.decode"):
                field = t0[2]
    for pc, t, n, st in s.returns:
        t0 = strip(t)
        if n is not None and field is not None and t0[0] == "call" and t0[1][0] == "func" and t0[1][1] in prog.classes:
            c = prog.classes[t0[1][1]]
            rf = prog.record_fields(c)
            if rf is not None:
                vals = {f: v for (f, _d), v in zip(rf, t0[2])}
                vals.update({k: v for k, v in t0[3] if isinstance(k, str)})
                if field in vals:
                    out.append((pc, vals[field], n, st))
                    continue
        out.append((pc, t, n, st))
    return out


def result_in_arrival_order(ctx, rule):
    """LAN.send returns the frames of the exchange as they arrived: what was queued before the request, then the response, then what followed
    it - each a decoded read, none dropped, in that order (a caller applies them in order: the latest report wins)."""
    import ast
    from ..facts import call_is, strip
    from ..helpers import term_lookup, unknown_callee
    from ..terms import summarize
    prog = ctx.prog
    send = ctx.fn(f"{LAN}.send")
    ss = summarize(prog, send)
    stl = term_lookup(prog, send)
    # every element appended to the result comes from self._read() / self._read_available()
    ret_names = {n.value.id for n in ast.walk(send.node) if isinstance(n, ast.Return) and isinstance(n.value, ast.Name)}
    # appends to the returned list: in send itself, or in a helper that receives the list as an argument (once per call site)
    apps = [n for n in ast.walk(send.node) if isinstance(n, ast.Call) and isinstance(n.func, ast.Attribute) and n.func.attr == "append" and isinstance(n.func.value, ast.Name)
            and n.func.value.id in ret_names]
    for c in [n for n in ast.walk(send.node) if isinstance(n, ast.Call)]:
        h = unknown_callee(prog, send, c)
        if h is None:
            continue
        hp = h.params[1:] if h.kind in ("method", "classmethod") else h.params
        passed = {p for p, a in zip(hp, c.args) if isinstance(a, ast.Name) and a.id in ret_names} | \
                 {k.arg for k in c.keywords if isinstance(k.value, ast.Name) and k.value.id in ret_names}
        apps += [n for n in ast.walk(h.node) if isinstance(n, ast.Call) and isinstance(n.func, ast.Attribute) and n.func.attr == "append" and isinstance(n.func.value, ast.Name)
                 and n.func.value.id in passed]
    srcs = []
    for a in apps:
        t = stl(a.args[0])
        ts = strip(t) if t else None
        kind = None

        def leaves_(x):
            x = strip(x)
            return leaves_(x[2]) + leaves_(x[3]) if x[0] == "ite" else [x]
        lv_ = leaves_(ts) if ts is not None else []
        if ts is not None and ts[0] == "await" and call_is(strip(ts[1]), f"{LAN}._read"):
            kind = "read"
        elif lv_ and any(x[0] == "await" and call_is(strip(x[1]), f"{LAN}._read") for x in lv_) and \
                all((x[0] == "await" and call_is(strip(x[1]), f"{LAN}._read")) or x == ("const", None) for x in lv_):
            kind = "read"       # the Optional result of a helper that returns the decoded read (None = nothing to add, guarded)
        elif ts is not None and ts[0] == "iter" and call_is(strip(ts[1]), f"{LAN}._read_available"):
            kind = "drain"
        srcs.append(kind)
        ctx.ob(rule, send.qual, kind is not None, "an element of the result is a decoded read", func=send.qual, file=send.module.rel, node=a,
               fail="something other than a decoded read is added to the response list")
    # drains written as comprehensions: responses = [r async for r in self._read_available()] / responses.extend([...]) / responses += [...]
    parent_ = {}
    for n in ast.walk(send.node):
        for c in ast.iter_child_nodes(n):
            parent_[c] = n
    for n in ast.walk(send.node):
        if not isinstance(n, ast.ListComp):
            continue
        t = ss.ta.terms_at.get(n)
        if t is None or t[0] != "comp" or len(t[3]) != 1 or t[3][0][2] or t[2] != ("bound", t[3][0][0]) or not call_is(strip(t[3][0][1]), f"{LAN}._read_available"):
            continue
        p_ = parent_.get(n)
        into_result = (isinstance(p_, ast.Assign) and all(isinstance(x, ast.Name) and x.id in ret_names for x in p_.targets)) or \
            (isinstance(p_, ast.AugAssign) and isinstance(p_.op, ast.Add) and isinstance(p_.target, ast.Name) and p_.target.id in ret_names) or \
            (isinstance(p_, ast.Call) and isinstance(p_.func, ast.Attribute) and p_.func.attr == "extend" and isinstance(p_.func.value, ast.Name) and p_.func.value.id in ret_names)
        if into_result:
            srcs.append("drain")
    # the same, read off the returned value: early + [response] + late, [*early, response, *late], results of helpers ...
    def seq_parts(t, depth=0):
        t = strip(t)
        if depth > 20 or not isinstance(t, tuple) or not t:
            return ["other"]
        if t[0] == "bin" and t[1] == "+":
            return seq_parts(t[2], depth + 1) + seq_parts(t[3], depth + 1)
        if t[0] in ("list", "tuple"):
            out = []
            for it in t[1]:
                out += seq_parts(it[1], depth + 1) if it[0] == "starred" else [elem_kind(it)]
            return out
        if t[0] == "ite":
            a_, b_ = seq_parts(t[2], depth + 1), seq_parts(t[3], depth + 1)
            return a_ if len(a_) >= len(b_) else b_
        if t[0] == "mut" and t[1] == "append":
            return seq_parts(t[2], depth + 1) + [elem_kind(t[3][0])]
        if t[0] == "mut" and t[1] in ("extend", "__iadd__"):
            return seq_parts(t[2], depth + 1) + seq_parts(t[3][0], depth + 1)
        if t[0] == "comp" and t[1] == "list" and len(t[3]) == 1 and not t[3][0][2] and t[2] == ("bound", t[3][0][0]) and call_is(strip(t[3][0][1]), f"{LAN}._read_available"):
            return ["drain"]
        if t[0] == "call" and t[1] == ("ext", "list") and len(t[2]) == 1:
            return seq_parts(t[2][0], depth + 1)
        if t[0] == "await":
            return seq_parts(t[1], depth + 1)
        if t[0] == "loopvar":
            # a list filled by `async for x in self._read_available(): lst.append(x)`: what it held before the loop, then the drained frames
            for ln, info in ss.loops.items():
                if getattr(ln, "lineno", None) == t[2] and isinstance(ln, ast.While):
                    # a retry loop that leaves the list alone on every back edge: at the loop head it is what it was before the loop
                    if all(strip(st_.env.get(t[1], ("top",))) == t for st_ in info["ends"] + info["continues"]):
                        before = info["entry"].env.get(t[1])
                        return seq_parts(before, depth + 1) if before is not None else ["other"]
                if getattr(ln, "lineno", None) != t[2] or not isinstance(ln, (ast.AsyncFor, ast.For)):
                    continue
                it = ss.ta.terms_at.get(ln.iter)
                body = [b_ for b_ in ln.body if not (isinstance(b_, ast.Expr) and isinstance(b_.value, ast.Constant))]
                if it is not None and call_is(strip(it), f"{LAN}._read_available") and isinstance(ln.target, ast.Name) and len(body) == 1 \
                        and isinstance(body[0], ast.Expr) and isinstance(body[0].value, ast.Call) and isinstance(body[0].value.func, ast.Attribute) \
                        and body[0].value.func.attr == "append" and isinstance(body[0].value.func.value, ast.Name) and body[0].value.func.value.id == t[1] \
                        and len(body[0].value.args) == 1 and isinstance(body[0].value.args[0], ast.Name) and body[0].value.args[0].id == ln.target.id:
                    before = info["entry"].env.get(t[1])
                    return (seq_parts(before, depth + 1) if before is not None else ["other"]) + ["drain"]
        return ["other"]

    def elem_kind(x):
        x = strip(x)
        lv = leaves_(x)
        if lv and any(y[0] == "await" and call_is(strip(y[1]), f"{LAN}._read") for y in lv) and \
                all((y[0] == "await" and call_is(strip(y[1]), f"{LAN}._read")) or y == ("const", None) for y in lv):
            return "read"
        return "other"

    def leaves_(x):
        x = strip(x)
        return leaves_(x[2]) + leaves_(x[3]) if x[0] == "ite" else [x]
    if not (srcs.count("drain") >= 2 and srcs.count("read") >= 1):
        for _pc, rt_, rn_, _st in ss.returns:
            if rn_ is None:
                continue
            parts_ = seq_parts(rt_)
            if "other" not in parts_ and "read" in parts_ and "drain" in parts_[:parts_.index("read")] and "drain" in parts_[parts_.index("read") + 1:]:
                srcs = parts_
    ctx.count("result_sources", len(srcs))
    ctx.ob(rule, send.qual, srcs.count("drain") >= 2 and srcs.count("read") >= 1, "frames read before the write and after the response are appended in arrival order (unsolicited frames are kept, not dropped, older before newer)",
           func=send.qual, file=send.module.rel, construct="pre-send and post-response drains", detail={"sources": srcs},
           fail="the pre-send or post-response drain no longer adds its frames to the result in arrival order (queued before the request, the response, queued after it): "
                "unsolicited state reports are lost, or an older report is applied after a newer one")
