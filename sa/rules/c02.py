"""C02 - V2 packet codec interoperates: every frame and device id round-trips.

Oracle: the format in the property statement (start marker, little-endian total length, AES-128-ECB/PKCS7 under the
fixed key, keyed MD5 over everything before it) plus the header description at the top of _LanProtocol.

  C02.a  layout of _Packet.encode (byte-sequence domain): 5a5a ‖ 0111 ‖ LE16(length) ‖ 2000 ‖ zeros(4) ‖ ts(8) ‖
         LE64(device_id) ‖ zeros(12) ‖ ciphertext ‖ md5(everything before ‖ SIGN_KEY); header is 40 bytes; the declared
         length equals the affine length of the whole sequence
  C02.b  sibling agreement: _Packet.decode reads the length from [4:6] little-endian, the ciphertext from [40:-16], the
         signature from [-16:], verifies over [:-16] and hands the ciphertext to the inverse of the encoder's transform
  C02.c  crypto pairing: encrypt_aes / decrypt_aes use the same key expression and ECB mode, pad / unpad the same
         block size in inverse order; ENC_KEY = md5(SIGN_KEY); sign = md5(data ‖ SIGN_KEY); SIGN_KEY is the protocol constant
  C02.d  domains fit: device id on 8 bytes; the length field holds 40 + 272 + 16; every timestamp byte stays in [0, 255]
  C02.e  no padding amount is special-cased (no branch on the command length in encode / decode transform)
"""
from __future__ import annotations

import ast
import hashlib
from fractions import Fraction

from ..affine import Lin
from ..facts import abs_range, atoms, call_is, cut_normalise, equality_atoms, meth_is, strip, simplify
from ..intervals import iv_of
from ..model import AnalysisError, norm
from ..seq import Byte, Const, Digest, Field, Layouts, Opaque, Zeros, explode, pad16, show_layout, total
from ..terms import is_const, show, subterms, summarize

ENC = "msmart.lan._Packet.encode"
DEC = "msmart.lan._Packet.decode"
SEC = "msmart.lan.Security"
SIGN_KEY = b"xhdiwjnchekd4d512chdjx5d8e4c394D2D7S"      # pinned: the property says "the fixed key"
DT_RANGES = {"microsecond": (0, 999999), "second": (0, 61), "minute": (0, 59), "hour": (0, 23), "day": (1, 31),
             "month": (1, 12), "year": (1, 9999)}


def dt_leaf(t):
    if t[0] == "attr" and t[2] in DT_RANGES and any(call_is(x, "datetime.datetime.now", "datetime.datetime.utcnow") for x in subterms(t[1])):
        return DT_RANGES[t[2]]
    return None


def offsets(lay):
    """[(offset Lin, seg)]"""
    out, off = [], Lin(0)
    for s in lay:
        out.append((off, s))
        off = off + s.n
    return out


def cipher_desc(prog, qual):
    """(direction, key term, mode, pad-call position) of Security.encrypt_aes / decrypt_aes read from the terms."""
    f = prog.func(qual)
    s = summarize(prog, f)
    t = s.return_term()
    info = {"term": t}
    for x in subterms(t):
        if meth_is(x, "encrypt", "decrypt") and call_is(x[1][1], "Crypto.Cipher.AES.new"):
            new = x[1][1]
            info["dir"] = x[1][2]
            info["key"] = new[2][0] if new[2] else None
            info["mode"] = new[2][1] if len(new[2]) > 1 else None
            info["iv"] = dict(new[3]).get("iv")
            info["op_arg"] = x[2][0]
        if call_is(x, "Crypto.Util.Padding.pad", "Crypto.Util.Padding.unpad"):
            info["padcall"] = x[1][1].split(".")[-1]
            info["block"] = x[2][1] if len(x[2]) > 1 else None
            info["pad_arg"] = x[2][0]
            info["style"] = dict(x[3]).get("style", x[2][2] if len(x[2]) > 2 else ("const", "pkcs7"))
    return info


def run(ctx):
    prog = ctx.prog
    L = Layouts(prog)
    ctx.explanation = ("byte-sequence layout of _Packet.encode derived from value-flow terms (segments with affine lengths), compared "
                       "with the stated format; range agreement with _Packet.decode; crypto pairing by constant folding; interval "
                       "evaluation of every emitted byte")
    ctx.trusted = ["AES-128-ECB, PKCS7 and MD5 in pycryptodome / hashlib behave as specified"]
    enc = ctx.fn(ENC)
    file = enc.module.rel
    sg = summarize(prog, ctx.fn(f"{SEC}.sign")).return_term()
    sign_ok = meth_is(sg, "digest") and call_is(sg[1][1], "hashlib.md5") and sg[1][1][2] and \
        strip(sg[1][1][2][0]) == ("bin", "+", ("param", prog.func(f"{SEC}.sign").params[-1]), ("const", SIGN_KEY))
    ctx.ob("C02.c", f"{SEC}.sign", sign_ok, "sign(data) = md5(data ‖ SIGN_KEY).digest()", func=f"{SEC}.sign", file=file, construct="sign",
           fail="Security.sign is not md5(data ‖ SIGN_KEY)")
    if not sign_ok:
        return          # (the layout of encode is stated in terms of sign)

    # C02.e (history) the codec is stateless: its classes are used through classmethods only, so anything one of them stores on the class (an
    # output buffer "reused between encryptions", a memo of earlier packets) is shared by every packet of the process - bytes of an earlier,
    # longer frame reappear behind a later, shorter one
    class_stores = []
    for cq in (SEC, "msmart.lan._Packet"):
        k_ = prog.classes.get(cq)
        if k_ is None:
            continue
        for m_ in k_.methods.values():
            recv_ = {m_.params[0]} if m_.params and m_.kind in ("classmethod", "method") else set()
            for n_ in ast.walk(m_.node):
                tg_ = n_.targets if isinstance(n_, (ast.Assign, ast.Delete)) else ([n_.target] if isinstance(n_, (ast.AugAssign, ast.AnnAssign)) else [])
                for t_ in tg_:
                    b_ = t_.value if isinstance(t_, ast.Subscript) else t_
                    if isinstance(b_, ast.Attribute) and isinstance(b_.value, ast.Name) and (b_.value.id in recv_ or b_.value.id == k_.name):
                        class_stores.append((m_, n_))
    ctx.ob("C02.e", SEC, not class_stores, "the codec classes store nothing on themselves (every packet is computed from its arguments and the constants alone)",
           func=class_stores[0][0].qual if class_stores else SEC, file=file, node=class_stores[0][1] if class_stores else None,
           fail=(f"{class_stores[0][0].qual} stores state on the class (`{norm(class_stores[0][1])[:60]}`): what one packet leaves there is part of the next one "
                 "(a longer earlier frame's ciphertext behind a shorter later one)") if class_stores else "")
    if class_stores:
        return
    s = summarize(prog, enc)
    rets = [(pc, t, n) for pc, t, n, _ in s.returns if n is not None]
    ctx.ob("C02.e", ENC, len(rets) == 1 and not rets[0][0], "encode has a single unconditional return (no length-dependent branch)",
           func=ENC, file=file, construct="return", fail="encode branches before returning: some command lengths are treated differently")
    pc, t, node = rets[0]
    cmd_p0 = enc.params[2]
    special = [x for x in subterms(t) if x[0] == "ite" and any(y == ("param", cmd_p0) for y in subterms(x[1]))]
    if not ctx.ob("C02.e", ENC, not special, "the packet does not depend on a test of the command (no padding amount / length is special-cased)",
                  func=ENC, file=file, construct="conditional on the command", detail={"condition": show(special[0][1]) if special else None},
                  fail=f"encode treats some commands differently: `{show(special[0][1])[:80] if special else ''}`"):
        return
    from ..shared import held_buffer_mutations
    held = held_buffer_mutations(prog, enc)
    if not ctx.ob("C02.e", ENC, not held, "every packet is built in fresh buffers (nothing of one packet - id, length, timestamp - is left in an object the next call reuses)",
                  func=ENC, file=file, construct="in-place store into a kept buffer", detail={"stores": held[:3]},
                  fail=f"encode patches a buffer kept in `{held[0][0] if held else ''}` in place: bytes written for one packet (e.g. another device's id) reappear in the next one"):
        return
    lay = L.layout(t)
    ctx.count("encoders")
    ctx.sample({"encode_layout": show_layout(lay)[:700], "total_length": repr(total(lay))})
    offs = offsets(lay)
    did_p, cmd_p = enc.params[1], enc.params[2]

    def seg_at(off, typ=None):
        for o, sg in offs:
            if o == Lin(off) and (typ is None or isinstance(sg, typ)):
                return sg
        return None

    ex = None
    head = [sg for o, sg in offs if o.is_const() and int(o.c) < 40]
    head_len = total(head)
    ctx.ob("C02.a", ENC, head_len == Lin(40) and any(isinstance(sg, Opaque) and sg.label == "enc:ecb" for o, sg in offs if o == Lin(40)),
           "the ciphertext starts at offset 40 (40-byte header)", func=ENC, file=file, construct="header",
           fail=f"the header before the ciphertext is {head_len} bytes, not 40 (device parsers read the payload at offset 40)")
    ctx.count("segments", len(lay))
    hb = explode(head) if head_len.is_const() else None

    def const_at(i, want: bytes, what):
        ok = hb is not None and all(i + k < len(hb) and hb[i + k] == ("c", want[k]) for k in range(len(want)))
        ctx.ob("C02.a", ENC, ok, f"bytes [{i}:{i + len(want)}] = {want.hex()} ({what})", func=ENC, file=file, construct=f"header[{i}:{i + len(want)}]",
               fail=f"{what}: header bytes [{i}:{i + len(want)}] are not {want.hex()}")
    const_at(0, b"\x5a\x5a", "start of packet marker")
    const_at(2, b"\x01\x11", "message type")
    const_at(6, b"\x20\x00", "magic bytes")
    const_at(8, bytes(4), "message id")
    const_at(28, bytes(12), "reserved")
    lf = seg_at(4, Field)
    lok = lf is not None and lf.n == Lin(2) and lf.order == "little"
    ctx.ob("C02.a", ENC, lok, "length field: 2 bytes little-endian at offset 4", func=ENC, file=file, construct="length field",
           fail="the packet length is not a 2-byte little-endian field at offset 4")
    if lok:
        declared = L.int_lin(lf.term)
        ctx.ob("C02.a", ENC, declared == total(lay), f"declared length ({declared}) equals the length of the emitted sequence ({total(lay)})",
               func=ENC, file=file, construct=f"length = {show(lf.term)[:80]}",
               fail=f"declared length {declared} differs from the actual packet length {total(lay)}")
    df = seg_at(20, Field)
    ctx.ob("C02.a", ENC, df is not None and df.n == Lin(8) and df.order == "little" and strip(df.term) == ("param", did_p),
           "device id: 8 bytes little-endian at offset 20, the caller's id unchanged", func=ENC, file=file, construct="device id field",
           fail="the device id is not serialised as 8 little-endian bytes at offset 20")
    ts = [sg for o, sg in offs if o.is_const() and 12 <= int(o.c) < 20]
    ctx.ob("C02.a", ENC, total(ts) == Lin(8), "timestamp occupies the 8 bytes at offset 12", func=ENC, file=file, construct="timestamp",
           fail=f"timestamp field is {total(ts)} bytes at offset 12, not 8")
    # ciphertext and signature
    ct = seg_at(40, Opaque)
    ct_ok = ct is not None and ct.label == "enc:ecb" and ct.of is not None and len(ct.of) == 2 \
        and isinstance(ct.of[0], Opaque) and ct.of[0].label == f"param:{cmd_p}" and ct.of[1].label == "pkcs7pad"
    ctx.ob("C02.a", ENC, ct_ok, "payload = AES-ECB(PKCS7-pad(command)) of the whole command", func=ENC, file=file, construct="encrypted payload",
           fail="the encrypted payload is not AES-ECB over the PKCS7-padded command")
    last = lay[-1]
    before = lay[:-1]
    sig_ok = isinstance(last, Digest) and last.alg == "md5" and len(last.over) >= 1 and isinstance(last.over[-1], Const) \
        and last.over[-1].b.endswith(SIGN_KEY)
    if sig_ok:
        tail = last.over[-1].b[:-len(SIGN_KEY)]
        signed = list(last.over[:-1]) + ([Const(tail)] if tail else [])
        from ..seq import flatten
        sig_ok = [x.key() for x in flatten(signed)] == [x.key() for x in flatten(before)]
    ctx.ob("C02.a", ENC, sig_ok, "trailer = MD5(everything before it ‖ SIGN_KEY), 16 bytes", func=ENC, file=file, construct="signature",
           fail="the trailing signature is not the keyed MD5 over exactly the bytes that precede it")

    # ---------------------------------------------------------------- C02.c crypto pairing
    sec = prog.cls(SEC)
    sk = prog.fold_or_none(sec.attrs.get("SIGN_KEY"), sec.module, sec) if "SIGN_KEY" in sec.attrs else None
    ek = prog.fold_or_none(sec.attrs.get("ENC_KEY"), sec.module, sec) if "ENC_KEY" in sec.attrs else None
    ctx.ob("C02.c", SEC, sk == SIGN_KEY, "SIGN_KEY folds to the protocol's fixed signing key", func=SEC, file=file, construct="SIGN_KEY",
           fail="SIGN_KEY is not the protocol constant")
    ctx.ob("C02.c", SEC, isinstance(sk, bytes) and ek == hashlib.md5(sk).digest(), "ENC_KEY = md5(SIGN_KEY).digest() (AES-128 key)", func=SEC, file=file,
           construct="ENC_KEY", fail="ENC_KEY is not md5(SIGN_KEY)")
    e, d = cipher_desc(prog, f"{SEC}.encrypt_aes"), cipher_desc(prog, f"{SEC}.decrypt_aes")
    ctx.fn(f"{SEC}.encrypt_aes"), ctx.fn(f"{SEC}.decrypt_aes")
    pair = e.get("dir") == "encrypt" and d.get("dir") == "decrypt" and e.get("key") == d.get("key") and e.get("mode") == d.get("mode") \
        and e.get("key") == ("const", ek) and "ECB" in show(e.get("mode")) and e.get("iv") == d.get("iv")
    ctx.ob("C02.c", SEC, pair, "encrypt_aes / decrypt_aes: same key (ENC_KEY), same mode (ECB)", func=SEC, file=file, construct="AES.new(...)",
           fail=f"encrypt/decrypt disagree on key or mode: {show(e.get('key'))[:40]}/{show(e.get('mode'))} vs {show(d.get('key'))[:40]}/{show(d.get('mode'))}")
    order = e.get("padcall") == "pad" and d.get("padcall") == "unpad" and e.get("block") == d.get("block") == ("const", 16) \
        and e.get("style") == d.get("style") == ("const", "pkcs7") \
        and e.get("op_arg") is not None and call_is(e["op_arg"], "Crypto.Util.Padding.pad") \
        and d.get("pad_arg") is not None and meth_is(d["pad_arg"], "decrypt")
    ctx.ob("C02.c", SEC, order, "pad(.,16) then encrypt / decrypt then unpad(.,16)", func=SEC, file=file, construct="Padding.pad / unpad",
           fail="padding and cipher are not applied in inverse order with the same block size on both sides")
    # ---------------------------------------------------------------- C02.b decoder agreement
    dec = ctx.fn(DEC)
    ds = summarize(prog, dec)
    ctx.count("decoders")
    dp = dec.params[-1]
    from ._pipeline import decode_returns
    for pc2, ret, node2, _st in decode_returns(prog, ds):
        if node2 is None:
            continue
        facts = atoms(pc2)
        ret = simplify(ret, set(facts))          # gates the path condition settles (values merged after a validation step)
        ret = cut_normalise(ret, ("param", dp), facts)
        # ciphertext range
        calls = [x for x in subterms(ret) if call_is(x, f"{SEC}.decrypt_aes")]
        ok = len(calls) == 1 and strip(ret) == calls[0]
        ctx.ob("C02.b", DEC, ok, "decode returns exactly Security.decrypt_aes(ciphertext)", func=DEC, file=file, node=node2,
               fail="decode does not return the inverse transform of the encoder's payload encryption")
        if not ok:
            continue
        ctr = strip(calls[0][2][-1])
        # base of the ranges: data or data[:length]
        inner = ctr[1] if ctr[0] == "slice" else None
        rng = None
        lenfield_ok = False
        ar = abs_range(ctr) if ctr[0] == "slice" else None
        if ar is not None and ar[0] != ctr:
            rng = (ar[1], ar[2])          # constant slices compose: x[:-16][40:] is x[40:-16]
            q = strip(ar[0])
            if q == ("param", dp):
                lenfield_ok = True    # not cut: exact packets only; still consistent
            elif q[0] == "slice" and strip(q[1]) == ("param", dp) and q[2] is None and q[3] is not None:
                lt = strip(q[3])
                if call_is(lt, "int.from_bytes") and len(lt[2]) >= 1:
                    fld = strip(lt[2][0])
                    order = lt[2][1] if len(lt[2]) > 1 else dict(lt[3]).get("byteorder")
                    lenfield_ok = fld[0] == "slice" and strip(fld[1]) == ("param", dp) and fld[2] == ("const", 4) \
                        and fld[3] == ("const", 6) and fld[4] is None and order == ("const", "little")
        ctx.ob("C02.b", DEC, rng == (40, -16), "ciphertext is read from [40:-16] (encoder: 40-byte header, 16-byte trailer)", func=DEC, file=file,
               node=node2, detail={"ciphertext": show(ctr)}, fail=f"decoder reads the ciphertext from {show(ctr)}, encoder writes it at [40:-16]")
        ctx.ob("C02.b", DEC, lenfield_ok, "packet is cut to the length read little-endian from [4:6] (encoder: LE16 at offset 4)", func=DEC, file=file,
               node=node2, detail={"base": show(strip(ctr[1])) if ctr[0] == "slice" else None},
               fail="decoder's length field (position / width / byte order) disagrees with the encoder's")
        marker = any(abs_range(a) == (("param", dp), 0, 0) is False for a, b in [])  # placeholder, marker agreement below
        mk = False
        for a, b in equality_atoms(facts):
            for x, y in ((a, b), (b, a)):
                xs = strip(x)
                if xs[0] == "slice" and strip(xs[1]) == ("param", dp) and xs[2] is None and xs[3] == ("const", 2) and y == ("const", b"\x5a\x5a"):
                    mk = True
        ctx.ob("C02.b", DEC, mk, "decoder requires the start marker the encoder emits (5a5a)", func=DEC, file=file, node=node2,
               fail="decoder's start-marker test does not match the encoder's marker")
    # every explicit rejection of decode: decided against the packets a conforming peer produces (total length 72..328,
    # length field = actual length, marker/type constants as emitted by the encoder)
    from ..intervals import iv_of as _iv
    LEN = ("call", ("ext", "int.from_bytes"), (("slice", ("call", ("ext", "memoryview"), (("param", dp),), ()), ("const", 4), ("const", 6), None), ("const", "little")), ())

    def valid_leaf(t_):
        ts = strip(t_)
        if call_is(ts, "int.from_bytes"):
            f_ = strip(ts[2][0])
            if f_[0] == "slice" and strip(f_[1]) == ("param", dp) and f_[2] == ("const", 4) and f_[3] == ("const", 6):
                return (72, 328)
            if f_[0] == "slice" and strip(f_[1]) == ("param", dp) and f_[4] is None and all(b is not None and is_const(b) and isinstance(b[1], int) and b[1] >= 0 for b in (f_[2], f_[3])) \
                    and 0 < f_[3][1] - f_[2][1] <= 4:
                return (0, 256 ** (f_[3][1] - f_[2][1]) - 1)          # some other header bytes read as a number: any value of that width
        if call_is(ts, "len") and strip(ts[2][0]) == ("param", dp):
            return (72, 328)
        if call_is(ts, "len") and strip(ts[2][0])[0] == "slice":
            # len(P[a:b]) for constant a, b over the packet (or the packet cut to its declared length - the same bytes for a valid packet)
            sl_ = strip(ts[2][0])
            base = strip(sl_[1])
            if base[0] == "slice" and strip(base[1]) == ("param", dp) and base[2] is None and base[3] is not None and valid_leaf(base[3]) == (72, 328) and base[4] is None:
                base = ("param", dp)
            if base == ("param", dp) and sl_[4] is None and all(b is None or (is_const(b) and isinstance(b[1], int)) for b in (sl_[2], sl_[3])):
                lo_, hi_ = (None if sl_[2] is None else sl_[2][1]), (None if sl_[3] is None else sl_[3][1])
                ends = [len(range(n_)[lo_:hi_]) for n_ in (72, 328)]
                return (min(ends), max(ends))
        return None
    for pc2, exc, node2, _st in ds.raises:
        if not pc2:
            continue
        c, truth = pc2[-1]
        cs = strip(c)
        ctx.count("decode_rejections")
        kind = None
        alts = [(cs, truth)]
        # normalise not / and / or one level
        def flat(cx, tr):
            cx = strip(cx)
            if cx[0] == "un" and cx[1] == "not":
                return flat(cx[2], not tr)
            if cx[0] == "bool" and ((cx[1] == "or" and tr) or (cx[1] == "and" and not tr)):
                out = []
                for x in cx[2]:
                    out += flat(x, tr)
                return out
            if cx[0] == "cmp" and cx[1] in ("is not", "!=", "is", "==") and strip(cx[3]) == ("const", None) and strip(cx[2])[0] == "ite" \
                    and ((cx[1] in ("is not", "!=")) == tr):
                # `problem is not None` for a message chain: as below, with "is None" in the place of "is falsy"
                def chain(t):
                    t = strip(t)
                    out = []
                    for cond_tr, leaf in ((True, strip(t[2])), (False, strip(t[3]))):
                        if leaf == ("const", None):
                            continue
                        if leaf[0] == "ite":
                            out += (flat(t[1], cond_tr) if cond_tr else []) + chain(leaf) if cond_tr else chain(leaf)
                        else:
                            out += flat(t[1], cond_tr)
                    return out
                return chain(cx[2])
            if cx[0] == "ite" and tr and all(is_const(strip(leaf)) or strip(leaf)[0] in ("ite", "fstr") for leaf in (cx[2], cx[3])):
                # truth of a "problem message" chain: msg1 if c1 else (msg2 if c2 else None) - it fires when some ci with a truthy message holds
                out = []
                for cond_tr, leaf in ((True, strip(cx[2])), (False, strip(cx[3]))):
                    if is_const(leaf) and not leaf[1]:
                        continue
                    if cond_tr:
                        out += flat(cx[1], True)
                    elif leaf[0] == "ite":
                        out += flat(leaf, True)
                    else:
                        out += flat(cx[1], False)
                return out
            if cx[0] == "ite":
                # a gated boolean (a validity helper seen through, a None test of a message chain): it is `tr` when the gate holds and the first
                # alternative is `tr`, or the gate fails and the second one is - the gate itself is a disjunct where the alternative is constant
                out = []
                for cond_tr, leaf in ((True, strip(cx[2])), (False, strip(cx[3]))):
                    if is_const(leaf) and isinstance(leaf[1], (bool, type(None), int)):
                        if bool(leaf[1]) == tr:
                            out += flat(cx[1], cond_tr)
                    else:
                        out += flat(leaf, tr)
                return out
            return [(cx, tr)]
        verdicts = []
        for a, tr in flat(cs, truth):
            if any(x[0] == "call" and x[1][0] == "func" and x[1][1].startswith(f"{SEC}.") for x in subterms(a)):
                verdicts.append("signature")      # integrity verdicts are C03's; a conforming packet passes them
                continue
            if a[0] == "cmp":
                l, r = strip(a[2]), strip(a[3])
                # signature / marker / decrypt failures
                if any(call_is(x, f"{SEC}.sign") for x in (l, r)):
                    verdicts.append("signature")
                    continue
                if (l[0] == "slice" and strip(l[1]) == ("param", dp) and is_const(r)) or (r[0] == "slice" and strip(r[1]) == ("param", dp) and is_const(l)):
                    sl, cv = (l, r) if l[0] == "slice" else (r, l)
                    if any(b is not None and not (is_const(b) and isinstance(b[1], int)) for b in (sl[2], sl[3])):
                        raise AnalysisError(f"{DEC}: header comparison `{show(a)[:100]}` uses non-constant slice bounds")
                    lo = sl[2][1] if sl[2] is not None else 0
                    hi = sl[3][1] if sl[3] is not None else None
                    emitted = bytes(x[1] for x in (hb or [])[lo:hi]) if hb and all(x[0] == "c" for x in hb[lo:hi]) else None
                    same = emitted is not None and cv[1] == emitted
                    verdicts.append("constant-ok" if ((a[1] == "!=") == tr and same) or ((a[1] == "==") != tr and same) else "constant-mismatch")
                    continue
                il, ir = _iv(l, valid_leaf), _iv(r, valid_leaf)
                if il is not None and ir is not None:
                    op = a[1] if tr else {"<": ">=", ">=": "<", ">": "<=", "<=": ">", "==": "!=", "!=": "=="}[a[1]]
                    # can `l op r` be true for some valid packet?  (len(packet) and the length field are equal for valid packets)
                    same_q = valid_leaf(l) is not None and valid_leaf(r) is not None
                    if same_q:
                        possible = op in ("<=", ">=", "==")
                    else:
                        possible = {"<": il[0] < ir[1], "<=": il[0] <= ir[1], ">": il[1] > ir[0], ">=": il[1] >= ir[0],
                                    "==": not (il[1] < ir[0] or ir[1] < il[0]), "!=": not (il[0] == il[1] == ir[0] == ir[1])}[op]
                    verdicts.append("length-rejects-valid" if possible else "length-ok")
                    continue
            verdicts.append("unknown")
        if exc != "msmart.lan.ProtocolError" and not prog.exc_is(exc, "msmart.lan.ProtocolError"):
            continue
        if "ValueError" in str(_st.env.get("e", "")):
            verdicts = ["decrypt"]
        bad_v = [v for v in verdicts if v in ("length-rejects-valid", "constant-mismatch")]
        und = [v for v in verdicts if v == "unknown"]
        # handler-raised rejections (decrypt failure) have the handler's pseudo condition: accept when raised inside an except clause
        if und and isinstance(node2, ast.Raise) and node2.cause is not None:
            und = []
        ctx.ob("C02.b", DEC, not bad_v, f"rejection `{show(cs)[:70]}` cannot fire for a packet a conforming peer produces ({', '.join(verdicts)})", func=DEC, file=file, node=node2,
               fail=f"decode rejects packets a conforming implementation produces: `{show(cs)[:100]}` is satisfiable for valid total lengths 72..328 / emitted header constants")
        if und:
            raise AnalysisError(f"{DEC}: rejection guard `{show(cs)[:100]}` is outside the decidable forms (length / header constant / signature)")
    # ---------------------------------------------------------------- C02.d domains
    ctx.ob("C02.d", ENC, Lin(40) + Lin(272) + Lin(16) == Lin(328) and 328 < 2 ** 16 and lok, "largest packet (255-byte frame -> 272-byte ciphertext) fits the 2-byte length field",
           func=ENC, file=file, construct="length width", fail="length field too narrow")
    ctx.ob("C02.d", ENC, df is not None and df.n == Lin(8), "device ids 0..2^64-1 fit the 8-byte field (to_bytes cannot overflow)", func=ENC, file=file,
           construct="device id width", fail="device id field narrower than 8 bytes: ids above its range raise OverflowError")
    for sgm in ts:
        if isinstance(sgm, Byte):
            ctx.count("timestamp_bytes")
            r = iv_of(sgm.term, dt_leaf)
            ok = r is not None and 0 <= r[0] and r[1] <= 255
            ctx.ob("C02.d", "msmart.lan._Packet._timestamp", ok, f"timestamp byte `{show(sgm.term)[-40:]}` ∈ [{r[0] if r else '?'}, {r[1] if r else '?'}] ⊆ [0,255]",
                   func="msmart.lan._Packet._timestamp", file=file, construct=show(sgm.term)[-60:],
                   fail=f"timestamp byte `{show(sgm.term)[-60:]}` can leave [0,255] for some wall-clock time (struct.error)")
    # what goes out on a V2 connection is that encoding of the frame, once: observed "at the bytes written to the transport by LAN.send"
    from ._pipeline import read_returns_decoded, send_writes_wrapped, write_reaches_wire
    send_writes_wrapped(ctx, "C02.f")
    write_reaches_wire(ctx, "C02.f", parts=("v2",))
    read_returns_decoded(ctx, "C02.f")
    # ... and what the decoder is given is the packet the device sent, whole: the V2 receive path frames by the length field (C01.e's premises)
    from . import c04
    from .c01 import v2_size_ok
    c04.check_reassembly(ctx, "C02.g", "msmart.lan._LanProtocol.data_received", b"\x5a\x5a", v2_size_ok,
                         "int.from_bytes(view[4:6], 'little') (the V2 total length, optionally floored at header + signature)", 56)
    ctx.require_min("encoders", 1)
    ctx.require_min("decoders", 1)
    ctx.require_min("segments", 8)
    ctx.require_min("timestamp_bytes", 8)
