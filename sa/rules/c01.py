"""C01 - end-to-end fidelity: applied state reaches the device; device state is read back.

The universal statement over all field values, both transports and all segmentations is decided compositionally:

  C01.a  apply chain: for each of the 16 settable states, public setter -> backing attribute -> read in apply ->
         SetStateCommand attribute (or_default is total on non-None values; aux mode splits into two flags); the command
         that is sent is that object.  The last link (command attribute -> wire bits -> vendor decode) is C10, re-run here.
  C01.b  refresh chain: vendor 0xC0 layout -> StateResponse._parse -> _update_state -> getters is C11, re-run here.
  C01.c  pipeline connectivity: Device._send_command sends command.tobytes() through LAN.send; LAN.send writes
         _Packet.encode(device id, data) and nothing else; every returned element is _Packet.decode of a read(); frames read
         before the write and after the response are appended, not dropped; every constructed response reaches
         _update_state in refresh / apply / _apply_properties; V3 write goes through _encode_encrypted_request, read
         through _process_packet
  C01.d  duplicates / unsolicited frames are harmless: every store in _update_state overwrites (never accumulates)
  C01.e  receive paths are siblings: the V2 data_received delivers whole packets too (length-framed reassembly with the
         V2 marker / little-endian total length), as the V3 one does (C04)
  C01.t  transport identity is imported by re-running the obligations of C02, C04, C05 and C12 (not assumed)
"""
from __future__ import annotations

import ast

from ..affine import Lin, lin
from ..helpers import collect_loop
from ..facts import atoms, call_is, meth_is, strip
from ..model import AnalysisError, is_self_attr, norm
from ..report import Ctx
from ..terms import is_const, show, subterms, summarize
from . import c02, c04, c05, c10, c11, c12
from ._chains import CHAINS, apply_chains  # noqa: F401
from .c08 import attr_call
from ..helpers import passed_for

AC = "msmart.device.AC.device.AirConditioner"
CMD = "msmart.device.AC.command"
LAN = "msmart.lan.LAN"
V2 = "msmart.lan._LanProtocol"
V3 = "msmart.lan._LanProtocolV3"

def sub_run(ctx, mod, label):
    """Re-run another property's obligations inside this check (their findings are reported under C01)."""
    ctx.import_rules(mod, label)


def v2_size_ok(N, V):
    """N = int.from_bytes(view[4:6], 'little'), optionally floored at a constant <= 56 (header + signature)."""
    n = strip(N)
    floor = None
    if call_is(n, "max") and len(n[2]) == 2:
        a, b = strip(n[2][0]), strip(n[2][1])
        if is_const(a) and isinstance(a[1], int):
            a, b = b, a
        if is_const(b) and isinstance(b[1], int):
            n, floor = a, b[1]
    if n[0] == "ite" and strip(n[1])[0] == "cmp":
        # max spelled as a conditional: `c if X < c else X` and its mirror images
        c = strip(n[1])
        op, l, r = c[1], strip(c[2]), strip(c[3])
        th, el = strip(n[2]), strip(n[3])
        if is_const(l) and not is_const(r):
            l, r, op = r, l, {"<": ">", ">": "<", "<=": ">=", ">=": "<="}.get(op, op)
        if is_const(r) and isinstance(r[1], int):
            if op in ("<", "<=") and th == r and el == l:
                n, floor = l, r[1]
            elif op in (">", ">=") and th == l and el == r:
                n, floor = l, r[1]
    ok = call_is(n, "int.from_bytes") and len(n[2]) >= 1
    if ok:
        fld = strip(n[2][0])
        order = n[2][1] if len(n[2]) > 1 else dict(n[3]).get("byteorder")
        ok = fld[0] == "slice" and strip(fld[1]) == V and fld[2] == ("const", 4) and fld[3] == ("const", 6) and order == ("const", "little")
    ok = ok and (floor is None or 6 <= floor <= 56)
    return ok, (Lin(0, {strip(N): 1}))



def run(ctx):
    prog = ctx.prog
    ctx.explanation = ("compositional: def-use chains setter -> attribute -> apply -> command (then C10's abstract round trip), C11's decode chain, "
                       "value-flow connectivity of the send / receive pipeline, overwrite-only stores in _update_state, the reassembly "
                       "premises for both data_received implementations, and the re-run obligations of C02 / C04 / C05 / C12")
    ctx.trusted = ["AES / MD5 / SHA-256 invert / verify as specified", "real socket scheduling is not needed: both receive callbacks are sequential"]
    ac = prog.cls(AC)
    # ---------------------------------------------------------------- C01.a
    apply_chains(ctx, "C01.a")
    td = ctx.fn(f"{AC}.toggle_display")
    tds = summarize(prog, td)
    t_ok = any(isinstance(n, ast.Call) and call_is(t, f"{AC}._send_command_get_responses") and any(call_is(x, f"{CMD}.ToggleDisplayCommand") for x in subterms(t)) for n, t in tds.ta.terms_at.items()) \
        and any(isinstance(n, ast.Call) and call_is(t, f"{AC}.refresh") for n, t in tds.ta.terms_at.items())
    ctx.ob("C01.a", td.qual, t_ok, "display: toggle command sent, then a refresh reads the new state back", func=td.qual, file=td.module.rel, construct="toggle_display",
           fail="toggle_display no longer sends the toggle command followed by a refresh")
    sub_run(ctx, c10, "a")
    # ---------------------------------------------------------------- C01.b
    sub_run(ctx, c11, "b")
    # ---------------------------------------------------------------- C01.c pipeline
    sc = ctx.fn("msmart.base_device.Device._send_command")
    scs = summarize(prog, sc)
    sends = [t for n, t in scs.ta.terms_at.items() if isinstance(n, ast.Call) and meth_is(t, "send") and strip(t[1][1]) == ("attr", ("param", sc.params[0]), "_lan")]
    ok = len(sends) == 1 and meth_is(sends[0][2][0], "tobytes") and sends[0][2][0][1][1] == ("param", sc.params[1]) and not sends[0][2][0][2]
    ctx.ob("C01.c", sc.qual, ok, "_send_command hands command.tobytes() to LAN.send", func=sc.qual, file=sc.module.rel, construct="self._lan.send(command.tobytes())",
           fail="_send_command does not send exactly the command's frame")
    rets = [t for _pc, t, n, _ in scs.returns if n is not None]
    r_ok = any(any(meth_is(x, "send") for x in subterms(t)) for t in rets)
    ctx.ob("C01.c", sc.qual, r_ok, "_send_command returns the responses LAN.send produced", func=sc.qual, file=sc.module.rel, construct="return responses", fail="_send_command drops the responses of LAN.send")
    send = ctx.fn(f"{LAN}.send")
    ss = summarize(prog, send)
    lp = send.params[0]
    from ..helpers import term_lookup, unknown_callee, with_helpers
    stl = term_lookup(prog, send)
    send_fns = with_helpers(prog, send)
    from ._pipeline import read_returns_decoded, send_writes_wrapped, write_reaches_wire
    send_writes_wrapped(ctx, "C01.c")
    write_reaches_wire(ctx, "C01.c")
    from ._pipeline import result_in_arrival_order
    result_in_arrival_order(ctx, "C01.c")
    # the pre-send drain is what makes "the next frame read is the answer to this request" true: everything the device pushed on its own so
    # far is taken off the queue, and the request is written before the event loop can deliver more - drain and first transmission lie in one
    # atomic section (no await / async for / async with between them; a retransmission follows a read that found the queue empty for its
    # whole timeout).  A suspension point in between (a handshake with its settle delay, say) lets a stale report be taken for the response.
    from ..atomic import sections, self_call, simple

    def _drain(n):
        # (the drain itself; or a blocking read - it returns the head of the queue or finds the queue empty for its whole timeout, and a
        #  retransmission only ever follows the latter)
        return (isinstance(n, ast.AsyncFor) and self_call(n.iter, "_read_available")) or (simple(n) and (self_call(n, "_read_available") or self_call(n, "_read")))
    sec = sections(prog, send, _drain, lambda n: simple(n) and self_call(n, "_protocol", "write"),
                   on_raise=lambda n: [("TimeoutError", True)] if simple(n) and self_call(n, "_read") else [])
    ctx.count("transmission_sites", len(sec))
    for n_, dirty in sec.items():
        ctx.ob("C01.c", send.qual, not dirty, "the request is written in the atomic section that drained the queue (nothing can arrive between the drain and the write)",
               func=send.qual, file=send.module.rel, node=n_, detail={"suspension_points": dirty},
               fail=f"between the pre-send drain and the transmission the coroutine can be suspended (`{dirty[0] if dirty else ''}`): a frame the device pushes "
                    "in that window is returned as the response to the request, the real answer stays queued - a refresh reports stale state")
    read_returns_decoded(ctx, "C01.c")
    from ._pipeline import drain_yields_decoded
    drain_yields_decoded(ctx, "C01.c")
    v3w = ctx.fn(f"{V3}.write")
    v3ws = summarize(prog, v3w)
    sup = [t for n, t in v3ws.ta.terms_at.items() if isinstance(n, ast.Call) and call_is(t, f"{V2}.write")]
    enc_ok = bool(sup) and all(strip(t[2][-1])[0] == "ite" and call_is(strip(strip(t[2][-1])[2]), f"{V3}._encode_encrypted_request") and
                               strip(strip(strip(t[2][-1])[2])[2][-1]) == ("param", v3w.params[1]) for t in sup)
    ctx.ob("C01.c", v3w.qual, enc_ok, "V3 write sends _encode_encrypted_request(counter, data) for data packets", func=v3w.qual, file=v3w.module.rel, construct="super().write(packet)",
           fail="the V3 data path does not send the encrypted encoding of the given data")
    def queue_pop(x):
        """x takes the next packet off the receive queue: _read_queue(), the base read(), or queue.get() / get_nowait() itself"""
        x = strip(x)
        if call_is(x, f"{V2}._read_queue") or call_is(x, f"{V2}.read"):
            return True
        return x[0] == "call" and x[1][0] == "meth" and x[1][2] in ("get", "get_nowait") and strip(x[1][1])[0] == "attr" and strip(x[1][1])[2] == "_queue"
    v3r = ctx.fn(f"{V3}.read")
    rr = [t for _pc, t, n, _ in summarize(prog, v3r).returns if n is not None]
    r3_ok = len(rr) == 1 and call_is(strip(rr[0]), f"{V3}._process_packet") and any(queue_pop(x) for x in subterms(rr[0]))
    ctx.ob("C01.c", v3r.qual, r3_ok, "V3 read returns _process_packet(<queued packet>)", func=v3r.qual, file=v3r.module.rel, construct="read", fail="V3 read does not decode the queued packet")
    v2r = ctx.fn(f"{V2}.read")
    rr2 = [t for _pc, t, n, _ in summarize(prog, v2r).returns if n is not None]
    r2_ok = bool(rr2) and all(any(queue_pop(x) for x in subterms(t)) for t in rr2)
    ctx.ob("C01.c", v2r.qual, r2_ok, "V2 read returns the queued packet", func=v2r.qual, file=v2r.module.rel, construct="read", fail="V2 read does not return the queued packet")
    # every constructed response reaches _update_state
    for q in (f"{AC}.refresh", f"{AC}.apply", f"{AC}._apply_properties"):
        q_fn = ctx.fn(q)
        n_q = 0
        from ..helpers import with_helpers as _wh
        chain_ = _wh(prog, q_fn)
        for f in chain_:          # (the operation itself and the helpers it hands the exchange to)
            fs = summarize(prog, f)
            fors = [n for n in ast.walk(f.node) if isinstance(n, ast.For)]
            # loops that only gather the responses into a list another loop then walks are judged through that other loop
            gatherers = set()
            for l2 in fors:
                it2 = fs.ta.terms_at.get(l2.iter)
                it2 = strip(it2) if it2 is not None else None
                if it2 is not None and it2[0] == "loopvar" and collect_loop(fs, f, it2) is not None:
                    outer = next((l for l in fors if l.lineno == it2[2]), None)
                    if outer is not None:
                        gatherers |= {n for n in ast.walk(outer) if isinstance(n, ast.For)}
            for lpn in fors:
                if lpn in gatherers:
                    continue
                it = fs.ta.terms_at.get(lpn.iter)
                if it is not None and f is not q_fn and strip(it)[0] == "param" and strip(it)[1] in f.params[1:]:
                    # the loop sits in a helper and walks one of its parameters: what the operation (or the helper in between) passes for it
                    passed = passed_for(prog, chain_, f, strip(it)[1])
                    if passed and all(any(call_is(x, f"{AC}._send_command_get_responses") for x in subterms(a_)) or
                                      (collect_loop(cs_, cf_, strip(a_)) is not None and
                                       any(call_is(x, f"{AC}._send_command_get_responses") for x in subterms(collect_loop(cs_, cf_, strip(a_)))))
                                      for cf_, cs_, a_ in passed):
                        it = ("await", ("call", ("func", f"{AC}._send_command_get_responses"), (), ()))
                src = collect_loop(fs, f, strip(it)) if it is not None else None
                if it is None or not any(call_is(x, f"{AC}._send_command_get_responses") for x in list(subterms(it)) + list(subterms(src or ()))):
                    continue
                ctx.count("update_loops")
                n_q += 1
                body_calls = [n for n in ast.walk(lpn) if isinstance(n, ast.Call) and attr_call(n, "_update_state")]
                uncond = any(isinstance(st, ast.Expr) and st.value is c for st in lpn.body for c in body_calls)
                arg_ok = all(isinstance(c.args[0], ast.Name) and isinstance(lpn.target, ast.Name) and c.args[0].id == lpn.target.id for c in body_calls)
                its = strip(it)
                whole = (its[0] == "await" and call_is(strip(its[1]), f"{AC}._send_command_get_responses")) or \
                    (its[0] == "comp" and its[1] == "list" and its[2] == ("bound", its[3][-1][0]) and all(not g[2] for g in its[3])) or \
                    collect_loop(fs, f, its) is not None
                uncond = uncond and whole
                ctx.ob("C01.c", q, uncond and arg_ok, f"{q.split('.')[-1]}: every response of the exchange is passed to _update_state", func=q, file=f.module.rel, node=lpn,
                       fail=f"{q.split('.')[-1]} does not apply every response it received (only some / the first / under a condition)")
        ctx.ob("C01.c", q, n_q >= 1, f"{q.split('.')[-1]} walks the responses of its exchange", func=q, file=q_fn.module.rel, construct="update loop",
               fail=f"{q.split('.')[-1]} no longer passes the responses of its exchange to _update_state")
    rf = ctx.fn(f"{AC}.refresh")
    rfs = summarize(prog, rf)
    comp = [t for n, t in rfs.ta.terms_at.items() if isinstance(n, ast.ListComp)]
    c_ok = any(t[0] == "comp" and t[2] == ("bound", t[3][-1][0]) and not t[3][-1][2] and not t[3][0][2] and any(call_is(x, f"{AC}._send_command_get_responses") for x in subterms(t[3][-1][1])) for t in comp)
    if not c_ok:
        # statement form: responses = []; for cmd in commands: responses.extend(await send(cmd))   (also += / nested append)
        for lpn in [n for n in ast.walk(rf.node) if isinstance(n, ast.For)]:
            it = rfs.ta.terms_at.get(lpn.iter)
            src = collect_loop(rfs, rf, strip(it)) if it is not None else None
            if src is not None and any(call_is(x, f"{AC}._send_command_get_responses") for x in subterms(src)):
                c_ok = True
        # ... or the collected list handed, whole, to the helper that walks it
        from ..helpers import unknown_callee as _uc
        for n_ in ast.walk(rf.node):
            if isinstance(n_, ast.Call) and _uc(prog, rf, n_) is not None:
                for a_ in list(n_.args) + [k.value for k in n_.keywords]:
                    t_ = rfs.ta.terms_at.get(a_)
                    src = collect_loop(rfs, rf, strip(t_)) if t_ is not None else None
                    if src is not None and any(call_is(x, f"{AC}._send_command_get_responses") for x in subterms(src)):
                        c_ok = True
    # the valid responses of an exchange are handed on as they arrived: all of them, in arrival order (the last one decides the state) - the
    # collected list itself, not a de-duplicated / sorted / sliced / reversed version of it
    gr = ctx.fn(f"{AC}._send_command_get_responses")
    for _pc, gt_, gn_, _st in summarize(prog, gr).returns:
        if gn_ is None:
            continue

        def plain(t_, depth=0):
            t_ = strip(t_)
            if depth > 8:
                return False
            if t_[0] in ("loopvar", "mut", "comp", "list"):
                return not any(x[0] == "call" and x[1][0] == "ext" and x[1][1] in ("dict.fromkeys", "set", "frozenset", "sorted", "reversed", "dict") for x in subterms(t_))
            if t_[0] == "ite":
                return plain(t_[2], depth + 1) and plain(t_[3], depth + 1)
            if t_[0] == "call" and t_[1] == ("ext", "list") and len(t_[2]) == 1:
                return plain(t_[2][0], depth + 1)
            return False
        ctx.ob("C01.c", gr.qual, plain(gt_), "the exchange returns its valid responses as collected (every one, in arrival order)", func=gr.qual, file=gr.module.rel, node=gn_,
               detail={"returns": show(gt_)[:120]},
               fail=f"the valid responses are transformed before they are returned (`{show(gt_)[:80]}`): duplicates / order decide which report wins")
    ctx.ob("C01.c", rf.qual, c_ok, "refresh collects every response of every command it sent (no filter)", func=rf.qual, file=rf.module.rel, construct="responses comprehension",
           fail="refresh filters or truncates the responses it collects")
    cmds = {x[1][1].split(".")[-1] for n, t in rfs.ta.terms_at.items() for x in subterms(t) if x[0] == "call" and x[1][0] == "func" and x[1][1].startswith(CMD) and x[1][1].endswith("Command")}
    ctx.ob("C01.c", rf.qual, "GetStateCommand" in cmds, "refresh always queries the state", func=rf.qual, file=rf.module.rel, construct="GetStateCommand", fail="refresh no longer sends GetStateCommand")
    # ---------------------------------------------------------------- C01.d overwrite-only
    us = ctx.fn(f"{AC}._update_state")
    aug = [n for n in ast.walk(us.node) if isinstance(n, ast.AugAssign)]
    ctx.ob("C01.d", us.qual, not aug, "_update_state has no accumulating (augmented) store", func=us.qual, file=us.module.rel, node=aug[0] if aug else None,
           fail="an accumulating store in _update_state: a duplicated or later response does not simply replace the earlier value")
    n_st = 0
    for n in ast.walk(us.node):
        if isinstance(n, ast.Assign):
            for tg in n.targets:
                if isinstance(tg, ast.Attribute) and isinstance(tg.value, ast.Name) and tg.value.id == us.params[0]:
                    n_st += 1
                    reads = [x for x in ast.walk(n.value) if is_self_attr(x, tg.attr, recv=(us.params[0],))]
                    if reads:
                        # "keep it unless the response says otherwise": the old value only passes through unchanged on the paths where the
                        # response does not carry the field (neither a condition nor a new value is computed from it)
                        uss_ = summarize(prog, us)
                        tv_ = uss_.ta.terms_at.get(n.value)
                        old_ = ("attr", ("param", us.params[0]), tg.attr)

                        def passthrough(t_):
                            t_ = strip(t_)
                            if t_ == old_:
                                return True
                            if t_[0] == "ite":
                                return not any(y == old_ for y in subterms(t_[1])) and passthrough(t_[2]) and passthrough(t_[3])
                            return not any(y == old_ for y in subterms(t_))
                        if tv_ is not None and passthrough(tv_):
                            reads = []
                    ctx.ob("C01.d", us.qual, not reads, f"self.{tg.attr} is overwritten (its new value does not depend on the old one)", func=us.qual, file=us.module.rel, node=n,
                           fail=f"the new self.{tg.attr} depends on its previous value: applying a response twice differs from applying it once")
    ctx.count("state_stores", n_st)
    # ---------------------------------------------------------------- C01.e sibling receive paths
    ok_v2 = c04.check_reassembly(ctx, "C01.e", f"{V2}.data_received", b"\x5a\x5a", v2_size_ok,
                                 "int.from_bytes(view[4:6], 'little') (the V2 total length, optionally floored at header + signature)", 56)
    # ---------------------------------------------------------------- C01.t imported transport obligations
    sub_run(ctx, c02, "t")
    sub_run(ctx, c04, "t4")
    sub_run(ctx, c05, "t5")
    sub_run(ctx, c12, "t12")
    from . import c13
    sub_run(ctx, c13, "t13")          # (every valid frame of an exchange is used, every invalid one only dropped: C13 / C14)
    ctx.require_min("apply_chains", 15)
    ctx.require_min("result_sources", 3)
    ctx.require_min("update_loops", 3)
    ctx.require_min("state_stores", 25)
