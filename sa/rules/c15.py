"""C15 - capability records are interpreted independently and survive paging.

  C15.a  cursor discipline: on every path through the record loop that reaches the next iteration the cursor advanced
         by exactly 3 + size (the size == 0 path's 3 is the same form)
  C15.b  record-local reads: every read caps[k] in the body has k <= 2 + size on its path
  C15.c  no cross-record state: the only values carried from one iteration to the next are the cursor and the result
         dictionary, which is only written (update / key store), never read
  C15.d  paging: merge = dict.update(other); get_capabilities sends the second request iff the flag is set, with
         GetCapabilitiesCommand(True), merges it *into* the first and runs _update_capabilities after the merge with the
         merged response; the flag is read from the second-to-last byte after the loop
(a)-(c) give parse(list) = fold of parse(single record); (d) gives split-point independence.
"""
from __future__ import annotations

import ast

from ..affine import Lin, lin
from ..facts import atoms, call_is, cases, meth_is, strip
from ..model import AnalysisError, norm
from ..paths import CursorLoop, eq_subst, find_loops, int_lower_bounds, offset_view
from ..terms import is_const, show, subterms, summarize

PARSE = "msmart.device.AC.command.CapabilitiesResponse._parse_capabilities"
MERGE = "msmart.device.AC.command.CapabilitiesResponse.merge"
GETCAPS = "msmart.device.AC.device.AirConditioner.get_capabilities"
HDR = 3          # 2-byte id + 1-byte size
SIZE_AT = 2


def record_loop(ctx, s, fn, cursor_candidates=("caps",)):
    loops = [l for l in find_loops(fn.node) if l in s.loops]
    for l in loops:
        for name in list(cursor_candidates) + sorted({n.id for n in ast.walk(l) if isinstance(n, ast.Name) and isinstance(n.ctx, ast.Store)}):
            cl = CursorLoop(s, l, name)
            edges = cl.back_edges()
            if edges and any(strip(st.env.get(name, ("top",)))[0] == "slice" for _k, st in edges):
                return cl
    # an integer cursor into the payload (offset += 3 + size; payload[offset + k]) is the same loop over the view payload[offset:]
    for l in loops:
        ov = offset_view(s, l)
        if ov is not None:
            return ov[0]
    raise AnalysisError(f"{fn.qual}: no record loop with a sliced cursor found")


def check_cursor(ctx, rule, cl, fn, hdr, size_at, label):
    """Shared with C16.d: every back edge advances the cursor by hdr + size."""
    file = fn.module.rel
    size = cl.field(size_at)
    n = 0
    for kind, st in cl.back_edges():
        n += 1
        facts = atoms(st.pc)
        adv = cl.advance(st)
        if adv is None:
            raise AnalysisError(f"{fn.qual}: cursor update `{show(st.env.get(cl.cursor))}` is outside the analysed slice-advance form")
        sub = eq_subst(facts)
        want = Lin(hdr) + lin(size, sub)
        ok = adv == want
        why = [show(f)[:70] for f in facts][-3:]
        ctx.ob(rule, fn.qual, ok, f"{label} path via {kind} [{'; '.join(why)}] advances the cursor by {hdr} + size",
               func=fn.qual, file=file, construct=f"{kind}: {cl.cursor} advanced by {adv} when {why[-1] if why else 'always'}",
               fail=f"a path to the next iteration ({kind}) advances the cursor by `{adv}` instead of {hdr} + size "
                    f"(path facts: {why}): following records are mis-framed or re-read")
        ctx.sample({"path": kind, "facts": why, "advance": repr(adv), "expected": repr(want)})
    # the loop is left early only for want of data: a `break` whose path does not say "fewer bytes left than a record header" stops at a
    # record that could have been skipped, and every record behind it is lost
    for st in cl.info["breaks"]:
        facts = atoms(st.pc)
        short = any(f[0] == "cmp" and f[1] in ("<", "<=") and call_is(strip(f[2]), "len") and is_const(f[3]) and isinstance(f[3][1], int) and f[3][1] <= hdr
                    and any(y == cl.lv for y in subterms(strip(f[2])[2][0])) for f in facts)
        why = [show(f)[:60] for f in facts][-2:]
        ctx.ob(rule, fn.qual, short, f"{label} loop is left early only when fewer than {hdr} bytes remain", func=fn.qual, file=file,
               construct=f"break when {why[-1] if why else 'always'}",
               fail=f"the {label} loop stops early on a path that does not say the data is exhausted ({why}): the records after that point are never interpreted")
    return n


def run(ctx):
    prog = ctx.prog
    ctx.explanation = ("value-flow terms of the record loop: affine cursor advance on every back edge, index-vs-size bounds on every "
                       "read, loop-carried values; paging order from the terms / path conditions of get_capabilities and merge")
    ctx.trusted = ["CPython ast", "dict.update merges in order"]
    fn = ctx.fn(PARSE)
    file = fn.module.rel
    s = summarize(prog, fn)
    cl = record_loop(ctx, s, fn)
    s = cl.s                  # (the summary seen through the view rewrite when the cursor is an integer offset)
    ctx.count("record_loops")
    # ---- C15.a
    n = check_cursor(ctx, "C15.a", cl, fn, HDR, SIZE_AT, "record-loop")
    ctx.count("back_edges", n)
    # ---- C15.b
    size = cl.field(SIZE_AT)
    for node, k, pc in cl.reads(prog):
        ctx.count("reads")
        # weakest bound over the (consistent) cases of the path condition: `not (a and b)` followed by `a` leaves `not b`
        try:
            cs_ = cases(pc)
        except ValueError:
            cs_ = [atoms(pc)]
        size_lb = min((int_lower_bounds(facts).get(size, 0) for facts in cs_), default=0) if cs_ else 0
        ok = k <= SIZE_AT + size_lb
        ctx.ob("C15.b", PARSE, ok, f"read {cl.cursor}[{k}] stays inside the record (size >= {size_lb} on its path)",
               func=PARSE, file=file, node=node,
               fail=f"read `{norm(node)}` reaches past the record: only size >= {size_lb} is established on its path, index {k} needs size >= {k - SIZE_AT}")
    # ---- C15.c
    carried = cl.carried()
    allowed = {cl.cursor}
    recv = fn.params[0]
    for name, uses in sorted(carried.items()):
        ctx.count("carried")
        if name in allowed:
            ctx.ob("C15.c", PARSE, True, f"`{name}` is the cursor")
            continue
        # an iteration budget (count down / count up, tested only by the loop condition) interprets no record
        lvc = ("loopvar", name, cl.loop.lineno)
        own_updates = True
        for st_ in cl.loop.body:
            for n_ in ast.walk(st_):
                if isinstance(n_, ast.stmt) and not isinstance(n_, (ast.If, ast.For, ast.While, ast.Try, ast.With)):
                    uses = any(isinstance(x_, ast.expr) and x_ in s.ta.terms_at and any(y_ == lvc for y_ in subterms(s.ta.terms_at[x_])) for x_ in ast.walk(n_))
                    if uses:
                        tg_ = n_.targets if isinstance(n_, ast.Assign) else ([n_.target] if isinstance(n_, ast.AugAssign) else None)
                        if not (tg_ and all(isinstance(t_, ast.Name) and t_.id == name for t_ in tg_)):
                            own_updates = False
                elif isinstance(n_, (ast.If, ast.While)) and n_.test in s.ta.terms_at and any(y_ == lvc for y_ in subterms(s.ta.terms_at[n_.test])):
                    own_updates = False
        if "." not in name and own_updates and isinstance(cl.loop, ast.While):
            ctx.ob("C15.c", PARSE, True, f"`{name}` is an iteration budget: it is only updated by itself and tested by the loop condition")
            continue
        # the result dictionary: only written (mutation / store), never read for a decision
        is_result = name.startswith(recv + ".")
        if not is_result and "." not in name:
            # ... or a local dictionary the parser hands back (alone, or as a field of the tuple / record it returns) for its caller to keep
            returned = [t_ for _pc, t_, n_, _st in s.returns if n_ is not None]
            is_result = bool(returned) and all(any(strip(x_)[0] in ("mut", "store", "loopvar", "local") and f"{name}" in show(x_)[:400] for x_ in subterms(t_)) for t_ in returned)
        only_written = True
        for node, t in s.ta.terms_at.items():
            for x in subterms(t):
                if x == ("loopvar", name, cl.loop.lineno):
                    pass
        # reads of the carried value: every occurrence must be the `old` operand of a mut / store term
        bad_uses = []
        lv = ("loopvar", name, cl.loop.lineno)
        body_nodes = {n for st in cl.loop.body for n in ast.walk(st)}
        for node, t in s.ta.terms_at.items():
            if node not in body_nodes or not isinstance(node, ast.expr):
                continue
            if isinstance(node, (ast.Attribute, ast.Name)) and strip(t) == lv:
                # how is this node used?  as the receiver of .update()/store only
                bad_uses.append(node)
        par = {}
        for st in cl.loop.body:
            for n in ast.walk(st):
                for c in ast.iter_child_nodes(n):
                    par[c] = n
        real_reads = []
        for node in bad_uses:
            p = par.get(node)
            if isinstance(p, ast.Attribute) and p.attr in ("update", "setdefault", "clear", "append", "extend", "add", "insert") and isinstance(par.get(p), ast.Call) \
                    and par[p].func is p and isinstance(par.get(par[p]), ast.Expr):
                continue          # a write-only accumulator (the call's value is not used)
            if isinstance(p, ast.Subscript) and isinstance(p.ctx, ast.Store) and p.value is node:
                continue
            real_reads.append(node)
        ok = is_result and not real_reads
        ctx.ob("C15.c", PARSE, ok, f"`{name}` is carried across records only as the result dictionary (written by update / key store, never read)",
               func=PARSE, file=file, construct=f"loop-carried {name}: {uses}",
               fail=f"`{name}` carries state from one record to the next ({uses}): a record's interpretation depends on earlier records")
    # ---- C15.d paging
    # flag read after the loop from the second-to-last byte of the remaining data
    stores = []
    for _pc, _t, _n, rst in s.returns:
        v = rst.env.get(f"{recv}._additional_capabilities")
        if v is not None:
            stores.append((v, rst))
    if not stores:
        # the parser returns its results: the flag is a field of the returned record, stored by the constructor
        ini_ = prog.lookup_method(fn.cls, "__init__") if fn.cls is not None else None
        if ini_ is not None:
            for _pc, _t, _n, rst in summarize(prog, ini_).returns:
                v = rst.env.get(f"{ini_.params[0]}._additional_capabilities")
                if v is not None and any(call_is(x, fn.qual) for x in subterms(v)):
                    stores.extend((t_, None) for _pc2, t_, n_, _st in s.returns if n_ is not None)
    flag_ok = False
    for v, rst in stores:
        for x in subterms(v):
            if x[0] == "sub" and is_const(x[2], -2):
                flag_ok = True
    ctx.ob("C15.d", PARSE, flag_ok, "the additional-capabilities flag is the second-to-last byte of the data left after the record loop",
           func=PARSE, file=file, construct="self._additional_capabilities = bool(caps[-2])",
           fail="the additional-capabilities flag is not read from the second-to-last byte after the records")
    ctx.count("paging")
    m = ctx.fn(MERGE)
    ms = summarize(prog, m)
    mp = m.params
    merged = False
    variadic = None
    if len(mp) < 2:
        # merge(*others): the body is a loop over the responses handed over, judged per iteration at syntax level (in-order update of this
        # response's table with each other's; the forms are update(), |=, and {**mine, **theirs})
        va = m.node.args.vararg
        loop_ = next((st for st in m.node.body if isinstance(st, ast.For) and isinstance(st.iter, ast.Name) and va is not None and st.iter.id == va.arg
                      and isinstance(st.target, ast.Name)), None)
        if loop_ is None:
            raise AnalysisError(f"{MERGE}: no second parameter and no loop over a variadic one: the merge is not recognised")
        on_, self_n = loop_.target.id, mp[0]

        def is_caps(e, who):
            return isinstance(e, ast.Attribute) and e.attr == "_capabilities" and isinstance(e.value, ast.Name) and e.value.id == who
        verdicts = []
        for st in ast.walk(loop_):
            if isinstance(st, ast.Call) and isinstance(st.func, ast.Attribute) and st.func.attr == "update" and is_caps(st.func.value, self_n):
                verdicts.append(len(st.args) == 1 and is_caps(st.args[0], on_))
            elif isinstance(st, ast.AugAssign) and is_caps(st.target, self_n):
                verdicts.append(isinstance(st.op, ast.BitOr) and is_caps(st.value, on_))
            elif isinstance(st, ast.Assign) and any(is_caps(t_, self_n) for t_ in st.targets):
                v_ = st.value
                if isinstance(v_, ast.Dict) and all(k_ is None for k_ in v_.keys) and len(v_.values) == 2:
                    verdicts.append(is_caps(v_.values[0], self_n) and is_caps(v_.values[1], on_))
                elif isinstance(v_, ast.BinOp) and isinstance(v_.op, ast.BitOr):
                    verdicts.append(is_caps(v_.left, self_n) and is_caps(v_.right, on_))
                else:
                    verdicts.append(False)
        variadic = bool(verdicts) and all(verdicts) and not any(isinstance(n_, (ast.Break, ast.Continue, ast.Return)) for n_ in ast.walk(loop_))
        mp = [mp[0], on_]
    other_caps = ("attr", ("param", mp[1]), "_capabilities")

    def certainly_empty(path):
        """the path's tests say the other response holds no capabilities (an update with it would change nothing)"""
        for c, tr in path:
            c = strip(c)
            if c[0] == "un" and c[1] == "not":
                c, tr = strip(c[2]), not tr
            if (c == other_caps or (call_is(c, "len") and strip(c[2][0]) == other_caps)) and not tr:
                return True
            if c[0] == "cmp" and call_is(strip(c[2]), "len") and strip(strip(c[2])[2][0]) == other_caps and is_const(c[3], 0) \
                    and ((c[1] in (">", "!=") and not tr) or (c[1] in ("==", "<=") and tr)):
                return True
            # merging a response into itself: d.update(d) changes nothing
            if c[0] == "cmp" and c[1] in ("is", "is not") and {strip(c[2]), strip(c[3])} == {("param", mp[0]), ("param", mp[1])} and (tr == (c[1] == "is")):
                return True
            if c[0] == "cmp" and strip(c[2]) == other_caps and strip(c[3]) in (("dict", ()), ("call", ("ext", "dict"), (), ())) \
                    and ((c[1] == "!=" and not tr) or (c[1] == "==" and tr)):
                return True
        return False

    def leaves(v, path):
        if v is not None and v[0] == "ite":
            yield from leaves(v[2], path + [(v[1], True)])
            yield from leaves(v[3], path + [(v[1], False)])
        else:
            yield v, path
    outcomes = []
    for pc_, _t, _n, rst in ms.returns:
        outcomes.extend(leaves(rst.env.get(f"{mp[0]}._capabilities"), list(pc_)))
    skipped_only_when_empty = all(certainly_empty(path) for v, path in outcomes if v is None or strip(v) == ("attr", ("param", mp[0]), "_capabilities"))
    for v, _path in outcomes:
        if v is None or strip(v) == ("attr", ("param", mp[0]), "_capabilities"):
            continue
        def uncopied(x):
            """dict(d) / d.copy() / {**d}: a snapshot of d holds the same items in the same order"""
            x = strip(x)
            if x[0] == "call" and x[1] == ("ext", "dict") and len(x[2]) == 1 and not x[3]:
                return uncopied(x[2][0])
            if x[0] == "call" and x[1][0] == "meth" and x[1][2] == "copy" and not x[2]:
                return uncopied(x[1][1])
            return x
        if v and v[0] == "mut" and v[1] == "update" and v[2] == ("attr", ("param", mp[0]), "_capabilities") \
                and uncopied(v[3][0]) == ("attr", ("param", mp[1]), "_capabilities"):
            merged = True
        # the same as an explicit in-order copy loop / the dict union operators
        if v and strip(v)[0] == "bin" and strip(v)[1] == "|" and strip(strip(v)[2]) == ("attr", ("param", mp[0]), "_capabilities") \
                and strip(strip(v)[3]) == ("attr", ("param", mp[1]), "_capabilities"):
            merged = True
        if v and v[0] == "loopvar":
            loop = next((l for l in ms.loops if getattr(l, "lineno", None) == v[2] and isinstance(l, ast.For)), None)
            info = ms.loops.get(loop) if loop is not None else None
            if info and not info["breaks"] and not info["continues"] and len(info["ends"]) == 1 and info["body_entry"] is not None \
                    and info["ends"][0].pc == info["body_entry"].pc and info["entry"].env.get(f"{mp[0]}._capabilities") is None:
                it = strip(ms.ta.terms_at.get(loop.iter, ("top",)))
                e = info["ends"][0].env.get(f"{mp[0]}._capabilities")
                if it[0] == "call" and it[1][0] == "meth" and it[1][2] == "items" and strip(it[1][1]) == ("attr", ("param", mp[1]), "_capabilities") \
                        and e is not None and e[0] == "store" and e[1] == v and strip(e[2]) == ("item", ("iter", ms.ta.terms_at[loop.iter]), 0) \
                        and strip(e[3]) == ("item", ("iter", ms.ta.terms_at[loop.iter]), 1):
                    merged = True
    merged = (merged and skipped_only_when_empty) if variadic is None else variadic
    ctx.ob("C15.d", MERGE, merged, "merge(other) is self._capabilities.update(other._capabilities) (later records override earlier ones)",
           func=MERGE, file=m.module.rel, construct="self._capabilities.update(other._capabilities)",
           fail="merge() is not an in-order dict.update of the other response's capabilities into this one")
    ctx.count("paging")
    from ..helpers import delegate
    g = delegate(prog, ctx.fn(GETCAPS))          # (the exchange itself, when get_capabilities only takes a lock around it)
    gs = summarize(prog, g)
    # locate the merge call, the second command and the update call through their terms
    merge_calls = []
    for n in ast.walk(g.node):
        if isinstance(n, ast.Call) and isinstance(n.func, ast.Attribute) and n.func.attr == m.name and n.func.value in gs.ta.terms_at and n.args:
            merge_calls.append((n, (gs.ta.terms_at[n.func.value], gs.ta.terms_at[n.args[0]])))
    upd_calls = [(n, t) for n, t in gs.ta.terms_at.items() if isinstance(n, ast.Call) and call_is(t, "msmart.device.AC.device.AirConditioner._update_capabilities")]
    ctx.ob("C15.d", GETCAPS, len(merge_calls) >= 1 and len(upd_calls) >= 1, "get_capabilities merges and then updates", func=GETCAPS,
           file=g.module.rel, construct="merge / _update_capabilities calls",
           fail="get_capabilities no longer merges the additional response or no longer updates the device capabilities")
    first = None
    loops_ = [l_ for l_ in ast.walk(g.node) if isinstance(l_, (ast.While, ast.For, ast.AsyncFor))]
    if any(n is x for n, _t in merge_calls for l_ in loops_ for x in ast.walk(l_)):
        # the pages are followed in a loop (more than one additional page): which response receives which is not decided by the two-page rule
        ctx.deferred_errors.append(f"{GETCAPS}: the additional pages are merged inside a loop: merge direction / order over several pages is not decided")
        ctx.count("paging", len(merge_calls) + len(upd_calls))
        merge_calls, upd_calls = [], []
    for n, t in merge_calls:
        ctx.count("paging")
        recv_t, arg_t = strip(t[0]), strip(t[1])
        # receiver = response to GetCapabilitiesCommand(False); argument = response to GetCapabilitiesCommand(True)

        def cmd_of(resp):
            for x in subterms(resp):
                if call_is(x, "msmart.device.AC.command.GetCapabilitiesCommand"):
                    a = x[2][0] if x[2] else (dict(x[3]).get("additional") if x[3] else None)
                    return bool(a[1]) if a is not None and is_const(a) else False
            return None
        r_cmd, a_cmd = cmd_of(recv_t), cmd_of(arg_t) if arg_t else None
        ctx.ob("C15.d", GETCAPS, r_cmd is False and a_cmd is True,
               "the additional response (GetCapabilitiesCommand(True)) is merged *into* the first response",
               func=GETCAPS, file=g.module.rel, node=n,
               fail=f"merge direction / commands wrong: receiver from additional={r_cmd}, argument from additional={a_cmd} "
                    "(the first page must receive the additional page)")
        first = recv_t
        # the second request is sent iff the first response's flag is set
        stn = n
        pcs = None
        for st_node, st in gs.ta.env_at.items():
            if isinstance(st_node, ast.stmt) and any(x is n for x in ast.walk(st_node)) and not isinstance(st_node, (ast.If, ast.For, ast.While, ast.Try, ast.With)):
                pcs = st.pc
        facts = atoms(pcs or ())
        flag = any(f[0] == "attr" and f[2] == "additional_capabilities" and strip(f[1]) == recv_t for f in facts)
        ctx.ob("C15.d", GETCAPS, flag, "the additional request / merge happens only under the first response's additional_capabilities flag",
               func=GETCAPS, file=g.module.rel, node=n, detail={"facts": [show(f) for f in facts]},
               fail="the second page is not conditioned on the first response's additional_capabilities flag")
    # _update_capabilities runs after the merge, with the merged (first) response, on the merge path
    for n, t in upd_calls:
        ctx.count("paging")
        arg = strip(t[2][1]) if len(t[2]) > 1 else None
        # the argument's value at the call: on the merge path it must carry the merge mutation
        st_pc = None
        argv_ok = False
        if arg is not None:
            muts = [x for x in subterms(arg) if x[0] == "mut" and x[1] == "merge"]
            bases = [x for x in subterms(arg) if call_is(x, "msmart.device.AC.command.GetCapabilitiesCommand")]
            argv_ok = bool(muts)
        ctx.ob("C15.d", GETCAPS, argv_ok, "_update_capabilities receives the first response *after* the additional page was merged into it",
               func=GETCAPS, file=g.module.rel, node=n, detail={"argument": show(arg) if arg else None},
               fail="_update_capabilities does not see the merged response (update before merge, or the wrong response object)")
    # ---- C15.d (history) the reported capabilities are those of *this* fetch: what _update_capabilities leaves in the set of supported
    # properties is a function of the merged response - the old contents do not survive it (cleared, or rebuilt from nothing).  A partial reset
    # (only the ids some table knows about) keeps what an earlier fetch reported for the others.
    uc = prog.funcs.get("msmart.device.AC.device.AirConditioner._update_capabilities")
    if uc is not None:
        ucs = summarize(prog, uc)
        old_sp = ("attr", ("param", uc.params[0]), "_supported_properties")

        def survives(t_, depth=0):
            """the old set's contents can reach the new value: it occurs in the term other than as the receiver of a clear()"""
            t_ = strip(t_) if isinstance(t_, tuple) and t_ and isinstance(t_[0], str) else t_
            if t_ == old_sp:
                return True
            if not isinstance(t_, tuple) or depth > 60:
                return False
            if t_ and t_[0] == "mut" and t_[1] == "clear":
                return False
            if t_ and t_[0] == "ite":
                return survives(t_[2], depth + 1) or survives(t_[3], depth + 1)          # (the gates only read it)
            return any(survives(x, depth + 1) for x in t_ if isinstance(x, tuple))
        n_sp = 0
        for _pc, _t, rn_, rst_ in ucs.returns:
            v_ = rst_.env.get(f"{uc.params[0]}._supported_properties")
            if v_ is None:
                continue
            n_sp += 1
            ctx.ob("C15.d", uc.qual, not survives(v_), "the supported-property set after _update_capabilities is rebuilt from the response (cleared first)", func=uc.qual,
                   file=uc.module.rel, node=rn_, construct="self._supported_properties reset",
                   fail="the supported-property set is only partly reset before the new capabilities are added: a capability an earlier fetch reported "
                        "(and this one does not) is still reported - the result is not the merge of this fetch's records")
        ctx.count("supported_property_resets", n_sp)
    # ---- C15.e the result of one response is its own: the dict the parser fills and merge() later extends is not also kept - the object
    # itself - in state that outlives the response (a class-level cache, a module-level registry); nor is class-level state mutated through
    # an instance.  Otherwise what one fetch merges shows up in the next one's first page.
    from ..shared import check as shared_check, escaping_instance_state
    from ..model import norm as _norm
    capcls = prog.cls("msmart.device.AC.command.CapabilitiesResponse")
    shared_check(ctx, "C15.e", [capcls], "the capabilities response")
    esc = escaping_instance_state(prog, [capcls])
    ctx.ob("C15.e", capcls.qual, not esc, "the capability dict of a response is not stored (uncopied) in class-level or module-level state", func=capcls.qual,
           file=capcls.module.rel, construct="escaping per-response state") if not esc else None
    for _c, attr_, node_, q_ in esc:
        ctx.ob("C15.e", q_, False, "", func=q_, file=capcls.module.rel, node=node_, construct=_norm(node_)[:80],
               fail=f"self.{attr_} - the dict this response keeps filling (merge() extends it) - is put uncopied into state shared by all responses: "
                    "a later merge changes what other responses / later fetches report")
    # ... nor is a response object itself remembered and handed out again: a memoised constructor (functools.lru_cache / cache around
    # something that returns Response.construct(..)) returns the *same* object for an identical first page, and merge() has already extended it
    memo = []
    for q_, f_ in prog.funcs.items():
        if not q_.startswith("msmart.") or ".tests." in q_ or q_.split(".")[-1].startswith("test_"):
            continue
        decos = [_norm(d.func if isinstance(d, ast.Call) else d) for d in getattr(f_.node, "decorator_list", [])]
        if not any(d.split(".")[-1] in ("lru_cache", "cache", "cached") for d in decos):
            continue
        for n_ in ast.walk(f_.node):
            if isinstance(n_, ast.Call):
                r_ = prog.resolve_expr(f_.module, n_.func, f_.cls)
                rq = getattr(r_, "qual", "")
                if rq.endswith("Response.construct") or rq.endswith("Response._construct") or (rq in prog.classes and any(k.name == "Response" for k in prog.mro(prog.classes[rq]))):
                    memo.append((f_, n_))
    ctx.ob("C15.e", capcls.qual, not memo, "no memoised function hands out response objects (each exchange gets its own, merge() mutates only that one)", func=capcls.qual,
           file=capcls.module.rel, construct="memoised constructors", node=memo[0][1] if memo else None,
           fail=(f"{memo[0][0].qual} is memoised and returns response objects: an identical first page yields the object an earlier merge() already "
                 "extended, so a later fetch reports the earlier additional page's capabilities") if memo else "")
    # ---- C15.f what the getters report is computed from the merged dict: an attribute derived from the capability dict at construction
    # time (a precomputed flag, a cached list) and read by a getter is stale after merge() unless merge() recomputes it
    own = {}
    for m_ in capcls.methods.values():
        if not (m_.name == "__init__" or m_.name.startswith("_parse")) or not m_.params:
            continue
        sp_ = m_.params[0]
        for n_ in ast.walk(m_.node):
            if isinstance(n_, (ast.Assign, ast.AnnAssign, ast.AugAssign)) and getattr(n_, "value", None) is not None:
                tg_ = n_.targets if isinstance(n_, ast.Assign) else [n_.target]
                reads_caps = any(isinstance(x, ast.Attribute) and x.attr == "_capabilities" and isinstance(x.ctx, ast.Load) and isinstance(x.value, ast.Name) and x.value.id == sp_
                                 for x in ast.walk(n_.value))
                for t_ in tg_:
                    if reads_caps and isinstance(t_, ast.Attribute) and isinstance(t_.value, ast.Name) and t_.value.id == sp_ and t_.attr != "_capabilities":
                        own.setdefault(t_.attr, m_)
    mg = ctx.fn(MERGE)
    merged_attrs = {k_.split(".", 1)[1] for _pc, _t, _n, rst in summarize(prog, mg).returns for k_ in rst.env if k_.startswith(mg.params[0] + ".")}
    stale = []
    for a_, where in sorted(own.items()):
        if a_ in merged_attrs:
            continue
        for m_ in list(capcls.methods.values()) + list(capcls.props_set.values()):
            if m_.name in ("__init__", "merge") or m_.name.startswith("_parse"):
                continue
            for n_ in ast.walk(m_.node):
                if isinstance(n_, ast.Attribute) and n_.attr == a_ and isinstance(n_.ctx, ast.Load) and isinstance(n_.value, ast.Name) and m_.params and n_.value.id == m_.params[0]:
                    stale.append((a_, m_, n_, where))
    ctx.count("derived_attributes", len(own))
    ctx.ob("C15.f", capcls.qual, not stale, "nothing a getter reads is derived from the capability dict at construction time without being recomputed by merge()",
           func=stale[0][1].qual if stale else capcls.qual, file=capcls.module.rel, node=stale[0][2] if stale else None, construct="derived attributes",
           fail=(f"self.{stale[0][0]} is computed from the capability dict in {stale[0][3].name} and read by {stale[0][1].name}, but merge() does not update it: "
                 "records that arrive in the additional response are ignored by that getter (paged delivery differs from single-response delivery)") if stale else "")
    # the page get_capabilities works on is the response to its own query: the helper it uses returns, of the valid responses, only one whose
    # id is the id asked for (or nothing)
    wid = prog.funcs.get("msmart.device.AC.device.AirConditioner._send_command_get_response_with_id")
    if wid is not None and len(wid.args) >= 2:
        ctx.fn(wid.qual)
        ws_ = summarize(prog, wid)
        idp = ("param", wid.args[1])
        ok_id = True
        n_ret = 0
        for pc, t, n_, _st in ws_.returns:
            if n_ is None or strip(t) == ("const", None):
                continue
            n_ret += 1
            t0 = strip(t)

            def id_matched(v, pc_):
                return any(f[0] == "cmp" and f[1] == "==" and ((strip(f[2]) == ("attr", v, "id") and strip(f[3]) == idp) or (strip(f[3]) == ("attr", v, "id") and strip(f[2]) == idp))
                           for f in atoms(pc_))
            match = id_matched(t0, pc)
            loop_targets = {x.id for l_ in ast.walk(wid.node) if isinstance(l_, (ast.For, ast.AsyncFor)) for x in ast.walk(l_.target) if isinstance(x, ast.Name)}
            if not match and isinstance(getattr(n_, "value", None), ast.Name) and n_.value.id not in loop_targets:
                # a result variable set inside the loop (`found = response; break`): every iteration that sets it has matched the id
                name_ = n_.value.id
                sets, all_ok = 0, True
                for l_, info_ in ws_.loops.items():
                    head_v = info_["head"].env.get(name_)
                    for st_ in info_["breaks"] + info_["ends"] + info_["continues"]:
                        v_ = st_.env.get(name_)
                        if v_ is not None and v_ != head_v and strip(v_) != ("const", None):
                            sets += 1
                            all_ok = all_ok and id_matched(strip(v_), st_.pc)
                match = sets >= 1 and all_ok
            ok_id = ok_id and match
        ctx.count("paging")
        ctx.ob("C15.d", wid.qual, ok_id and n_ret >= 1, "the response handed back for an id is one whose id equals it", func=wid.qual, file=wid.module.rel, construct="response.id == response_id",
               fail="_send_command_get_response_with_id can hand back a response with another id: the capability query is answered by whatever else arrived")
    from . import c12
    ctx.import_rules(c12, "t12", only=("C12.a",))          # (a capability page is only interpreted if its valid frame is accepted: the checksum formula)
    ctx.require_min("record_loops", 1)
    ctx.require_min("back_edges", 1)          # (a single advance statement at the end of the body is one back edge)
    ctx.require_min("reads", 2)
    ctx.require_min("carried", 1)
    ctx.require_min("paging", 4)
