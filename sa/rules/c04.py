"""C04 - V3 stream reassembly is segmentation-independent.

data_received is sequential and deterministic in (buffer, segment); independence from the segmentation is the inductive
invariant "after each call the buffer is the not-yet-delivered suffix of the stream and holds no complete leading
packet".  The premises of the inductive step, each decided on the value-flow terms of the function:

  C04.a  framing constant: for both encoders len(packet) − size_field = 8, and data_received frames with
         int.from_bytes(view[2:4], "big") + 8 on the marker-aligned view
  C04.b  tight completeness guard: extraction happens exactly under len(view) >= total_size (not >, not a smaller
         bound); a header guard, if present, has a constant <= 8 (never delays a complete packet)
  C04.c  partition and carry-over: delivered = view[:N], kept = view[N:] with the same N; view = buffer[find(marker):];
         the buffer is extended (not replaced) at entry; every early return leaves it untouched; marker = encoders' 8370
  C04.d  all, once, in order: extraction sits in a loop that only ends when the buffer is empty (or by the early
         returns); one put_nowait of exactly the delivered slice per iteration; read() pops the same FIFO queue
"""
from __future__ import annotations

import ast

from ..affine import Lin, lin, offset_canon
from ..helpers import ancestor_chains, term_lookup
from ..facts import alternatives, atoms, call_is, cases, meth_is, simplify, slice_bounds, strip
from ..model import AnalysisError, norm
from ..paths import find_loops
from ..seq import Const, Field, Layouts, flatten, total
from ..terms import FLIP, NEG, State, is_const, show, subterms, summarize

V3 = "msmart.lan._LanProtocolV3"
DR = f"{V3}.data_received"
ENCODERS = [f"{V3}._encode_encrypted_request", f"{V3}._encode_handshake_request"]
MARKER = b"\x83\x70"


def run(ctx):
    prog = ctx.prog
    L = Layouts(prog)
    ctx.explanation = ("value-flow terms of data_received (buffer value at entry, loop head, early returns and back edge; delivered and kept "
                       "slices; guard facts at the extraction) + affine packet lengths of both V3 encoders")
    ctx.trusted = ["asyncio.Queue is FIFO", "bytearray.find / slicing semantics"]
    # ---- C04.a encoders
    for q in ENCODERS:
        f = ctx.fn(q)
        s = summarize(prog, f)
        rets = [(pc, t, n) for pc, t, n, _ in s.returns if n is not None]
        for pc, t, node in rets:
            lay = flatten(L.layout(t))
            ctx.count("encoders")
            hdr_ok = len(lay) >= 2 and isinstance(lay[0], Const) and lay[0].b[:2] == MARKER and isinstance(lay[1], Field) and lay[1].n == Lin(2) \
                and lay[1].order == "big" and len(lay[0].b) == 2
            ctx.ob("C04.a", q, hdr_ok, "packet starts with 8370 ‖ BE16(size)", func=q, file=f.module.rel, node=node,
                   fail="encoder does not start with the 8370 marker followed by a 2-byte big-endian size")
            if hdr_ok:
                diff = total(lay) - L.int_lin(lay[1].term)
                ctx.ob("C04.a", q, diff == Lin(8), f"len(packet) − size_field = {diff} (receiver frames with size + 8)", func=q, file=f.module.rel, node=node,
                       fail=f"len(packet) − size_field = {diff}, but the receiver frames packets with size + 8")
                ctx.sample({"encoder": q.split(".")[-1], "packet_length": repr(total(lay)), "size_field": repr(L.int_lin(lay[1].term))})
    check_reassembly(ctx, "C04", DR, MARKER, v3_size_ok, "int.from_bytes(view[2:4], 'big') + 8 (the encoders' framing constant)", 8)
    ctx.require_min("encoders", 2)
    ctx.require_min("loops", 1)
    ctx.require_min("early_returns", 3)
    ctx.require_min("back_edges", 1)
    ctx.require_min("buffer_stores", 2)
    ctx.require_min("puts", 1)


def v3_size_ok(N, V):
    """N = int.from_bytes(view[2:4], 'big') + 8"""
    Nl = lin(N)
    size_terms = [x for x in subterms(N) if call_is(x, "int.from_bytes")]
    if len(size_terms) != 1:
        return False, Nl
    sz = size_terms[0]
    fld = strip(sz[2][0])
    order = sz[2][1] if len(sz[2]) > 1 else dict(sz[3]).get("byteorder")
    ok = fld[0] == "slice" and strip(fld[1]) == V and fld[2] == ("const", 2) and fld[3] == ("const", 4) and order == ("const", "big") \
        and Nl == Lin(8, {sz: 1})
    return ok, Nl


def buffer_ownership(ctx, R, DR):
    """The reassembly buffer belongs to one connection and to its receive callback: it is per-instance (not one class-level object), and
    nothing but the initialisers and data_received (with its helpers) stores or mutates it - a flush, a disconnect or a retry that clears
    it drops the head of a packet whose tail is still to come."""
    from ..helpers import with_helpers
    from ..shared import MUTATORS, shared_mutable_state
    prog = ctx.prog
    RE = R if "." in R else R + ".e"
    cb = ctx.fn(DR)
    owners = with_helpers(prog, cb)
    recv, data_p = cb.params[0], cb.params[1]
    attr = None
    for f in owners:
        for n in ast.walk(f.node):
            if isinstance(n, ast.AugAssign) and isinstance(n.op, ast.Add) and isinstance(n.target, ast.Attribute) and isinstance(n.target.value, ast.Name) \
                    and n.target.value.id == f.params[0] and isinstance(n.value, ast.Name) and n.value.id == (data_p if f is cb else n.value.id):
                attr = attr or n.target.attr
            if isinstance(n, ast.Call) and isinstance(n.func, ast.Attribute) and n.func.attr == "extend" and isinstance(n.func.value, ast.Attribute) \
                    and isinstance(n.func.value.value, ast.Name) and n.func.value.value.id == f.params[0] and len(n.args) == 1:
                attr = attr or n.func.value.attr
    if attr is None:
        return          # (no `self.x += data`: what the callback does with the bytes is the subject of the rules below)
    cls = cb.cls
    family = {k.qual: k for k in prog.mro(cls) + prog.subclasses(cls) if k.module.name.startswith("msmart")}
    hits = [(k, a, node, q) for k, a, node, q in shared_mutable_state(prog, list(family.values())) if a == attr]
    ctx.count("buffer_owners")
    ctx.ob(RE, DR, not hits, f"{attr} is a per-connection object (not one class-level buffer shared by every protocol instance)", func=DR, file=cb.module.rel,
           construct=f"{attr} initialisation", node=hits[0][2] if hits else None,
           fail=f"{attr} is one class-level object mutated in place: every connection appends to and frames packets from the same buffer "
                "(a reconnect or a second device replays / corrupts another connection's packets)")
    # ... and every protocol class starts with one (its own initialiser or an inherited one sets it)
    from ..ctor import init_attrs
    missing = []
    for k in family.values():
        try:
            if attr not in init_attrs(prog, k):
                missing.append(k)
        except AnalysisError:
            pass
    ctx.ob(RE, DR, not missing, f"every protocol class initialises {attr} when it is constructed", func=DR, file=cb.module.rel, construct=f"{attr} initialisation",
           fail=f"{', '.join(k.name for k in missing)} is constructed without {attr}: the first received segment raises AttributeError inside the event loop callback")
    allowed = {f.qual for f in owners}
    grew = True
    while grew:          # (an override, anywhere in the family, of the callback or of one of its helpers plays the same role)
        grew = False
        names_ = {q.rsplit(".", 1)[-1] for q in allowed}
        for k in family.values():
            for m in k.methods.values():
                if m.name in names_ and m.qual not in allowed:
                    allowed |= {f.qual for f in with_helpers(prog, m)}
                    grew = True
    writers = []
    for k in family.values():
        for m in list(k.methods.values()) + list(k.props_set.values()):
            if m.qual in allowed or m.name == "__init__" or not m.params:
                continue
            if not prog.is_known(m.qual):
                # a helper the initialisers hand their stores to (and nobody else calls) is part of the initialisation
                from ..helpers import known_owners
                ow_ = known_owners(prog, m)
                if ow_ and all(q.rsplit(".", 1)[-1] == "__init__" for q in ow_):
                    continue
            r_ = m.params[0]
            for n in ast.walk(m.node):
                tg = n.targets if isinstance(n, (ast.Assign, ast.Delete)) else [n.target] if isinstance(n, (ast.AugAssign, ast.AnnAssign)) else []
                for t in tg:
                    for x in ast.walk(t):
                        if isinstance(x, ast.Attribute) and x.attr == attr and isinstance(x.value, ast.Name) and x.value.id == r_ \
                                and (x is t or (isinstance(t, (ast.Tuple, ast.List)) and x in t.elts) or (isinstance(t, ast.Subscript) and t.value is x)):
                            writers.append((m, n))
                if isinstance(n, ast.Call) and isinstance(n.func, ast.Attribute) and n.func.attr in MUTATORS and isinstance(n.func.value, ast.Attribute) \
                        and n.func.value.attr == attr and isinstance(n.func.value.value, ast.Name) and n.func.value.value.id == r_:
                    writers.append((m, n))
    ctx.ob(RE, DR, not writers, f"only the initialisers and {DR.split('.')[-1]} store or mutate {attr}", func=DR, file=cb.module.rel, construct=f"writers of {attr}",
           node=writers[0][1] if writers else None,
           fail=(f"{writers[0][0].qual} also writes {attr} (`{norm(writers[0][1])[:60]}`): bytes of a packet whose remainder has not arrived yet are dropped, "
                 "the rest of that packet is then skipped as garbage") if writers else "")


def check_reassembly(ctx, R, DR, MARKER, size_ok, size_desc, min_packet=8):
    """The inductive-step premises of a length-framed data_received (shared by C04 for V3 and C01.e for V2)."""
    buffer_ownership(ctx, R, DR)
    prog = ctx.prog
    fn = ctx.fn(DR)
    file = fn.module.rel
    data_p = fn.params[1]
    from ..producer import reassembly_function
    fn, s = reassembly_function(prog, fn)          # (the loop may live in a method the callback hands over to)
    self_p = fn.params[0]
    buf_key = None
    # the buffer attribute = the self attribute that receives `+= data`
    loops = [l for l in find_loops(fn.node) if l in s.loops]
    ext_loop = None
    for l in loops:
        info = s.loops[l]
        for st in info["ends"] + info["continues"]:
            for k, v in st.env.items():
                if k.startswith(self_p + ".") and strip(v)[0] in ("slice", "call", "const", "ite") and strip(v)[0] != "mut" \
                        and v != info["head"].env.get(k) and k.count(".") == 1:
                    ext_loop, buf_key = l, k
    put_sites = ancestor_chains(prog, fn, lambda f, n: isinstance(n.func, ast.Attribute) and n.func.attr == "put_nowait")
    puts = [n for _f, n, _ch in put_sites]
    tl = term_lookup(prog, fn)
    if ext_loop is None and check_reassembly_offset(ctx, R, DR, MARKER, size_ok, size_desc, min_packet, fn, s, put_sites, tl, data_p):
        return True
    ctx.ob(R + ".d", DR, ext_loop is not None, "packet extraction happens inside a loop (several packets per segment are all delivered now)",
           func=DR, file=file, construct="extraction loop",
           fail="packets are not extracted in a loop: with several packets in one segment only the first is delivered when its last byte arrives")
    if ext_loop is None:
        return False
    ctx.count("loops")
    info = s.loops[ext_loop]
    attr = buf_key.split(".", 1)[1]
    B0 = ("attr", ("param", self_p), attr)
    Bh = ("loopvar", buf_key, ext_loop.lineno)
    # offset arithmetic on the buffer (buffer[start + a:start + b], len(buffer) - start) is read as operations on the view
    # buffer[start:]; valid for 0 <= start <= len(buffer), i.e. under the 'marker found' fact required below
    used_offsets = []

    def is_off(sym):
        y = strip(sym)
        return meth_is(y, "find") and strip(y[1][1]) == Bh and y[2] == (("const", MARKER),)

    def oc(x):
        return offset_canon(x, Bh, is_off, used_offsets)

    def ost(st):
        return State({k: oc(v) for k, v in st.env.items()}, tuple((oc(c), tr) for c, tr in st.pc))
    info = dict(info)
    info["returns"] = [(ost(st), n) for st, n in info["returns"]]
    for key in ("breaks", "ends", "continues"):
        info[key] = [ost(st) for st in info[key]]
    # entry: accumulate
    entry_v = info["entry"].env.get(buf_key)
    ev_ = strip(entry_v) if entry_v is not None else ("top",)
    acc = (ev_[0] == "bin" and ev_[1] == "+" and strip(ev_[2]) == B0 and strip(ev_[3]) == ("param", data_p)) or \
        (ev_[0] == "mut" and ev_[1] == "extend" and strip(ev_[2]) == B0 and len(ev_[3]) == 1 and strip(ev_[3][0]) == ("param", data_p))    # buffer.extend(data) is buffer += data
    ctx.ob(R + ".c", DR, acc, "incoming data is appended to the buffer (buffer' = buffer + data)", func=DR, file=file, construct=f"self.{attr} += data",
           detail={"entry_value": show(entry_v) if entry_v else None},
           fail="incoming data is not appended to the retained buffer (bytes of a split packet are lost or reordered)")
    ctx.count("buffer_stores")
    # loop exit only when the buffer is empty
    if isinstance(ext_loop, ast.While):
        tt = strip(s.ta.terms_at.get(ext_loop.test, ("top", "?")))
        empty_exit = False
        if (is_const(tt) and tt[1] is True) or (isinstance(ext_loop.test, ast.Constant) and bool(ext_loop.test.value)):
            empty_exit = True          # `while True`: the loop never ends normally, only through the classified exits
        elif tt == Bh:
            empty_exit = True
        elif tt[0] == "cmp" and call_is(strip(tt[2]), "len") and strip(strip(tt[2])[2][0]) == Bh:
            empty_exit = (tt[1], tt[3]) in ((">", ("const", 0)), ("!=", ("const", 0)), (">=", ("const", 1)))
        deferred_exit = None
        if not empty_exit and info.get("exit") is not None and info["exit"].pc:
            deferred_exit = ost(info["exit"])         # a test that asks for the next packet: judged below like the early exits
        else:
            ctx.ob(R + ".d", DR, empty_exit, "the loop only ends normally when the buffer is empty", func=DR, file=file, node=ext_loop.test,
                   fail=f"the extraction loop can stop (`{show(tt)}` false) while complete packets remain buffered")
    else:
        deferred_exit = None
        ctx.ob(R + ".d", DR, False, "", func=DR, file=file, construct="extraction loop kind", fail="extraction loop is not a while loop over the buffer")
    # every early return of the callback is caused by the leading packet being incomplete (or no marker / no data):
    # any other condition can hold back a packet whose last byte has arrived
    loop_returns = {id(n) for _st, n in info["returns"]}
    all_exits = [(st, n, "return") for st, n in info["returns"]] + [(ost(rst), n, "return") for _pc, _t, n, rst in s.returns if n is not None and id(n) not in loop_returns] \
        + [(st, ext_loop, "break") for st in info["breaks"]]

    def incomplete(a):
        """atom -> why it means 'no complete packet is buffered' (None: it does not)"""
        a = strip(a)
        truth = True
        while a[0] == "un" and a[1] == "not":
            a, truth = strip(a[2]), not truth
        if a[0] == "cmp":
            op = a[1] if truth else NEG.get(a[1])
            l, r = strip(a[2]), strip(a[3])
            if op in FLIP and not (meth_is(l, "find") or call_is(l, "len")) and (meth_is(r, "find") or call_is(r, "len")):
                l, r, op = r, l, FLIP[op]
            if meth_is(l, "find") and ((r == ("const", -1) and op == "==") or (r == ("const", 0) and op == "<") or (r == ("const", -1) and op == "<=")):
                return "no marker in the buffer"
            if call_is(l, "len") and strip(l[2][0])[0] == "slice" and op in ("<", "<="):
                return "leading packet incomplete"
            if call_is(l, "len") and strip(l[2][0]) == ("param", data_p) and ((op == "==" and r == ("const", 0)) or (op == "<" and r == ("const", 1))):
                return "empty segment"
            if call_is(l, "len") and strip(l[2][0]) == Bh and ((op == "==" and r == ("const", 0)) or (op == "<" and r == ("const", 1)) or (op == "<=" and r == ("const", 0))):
                return "buffer empty"
            return None
        if a == ("param", data_p) and not truth:
            return "empty segment"
        if a == Bh and not truth:
            return "buffer empty"           # the loop condition spelled as an exit inside the body
        return None

    def split(st):
        try:
            return cases(st.pc)
        except ValueError:
            raise AnalysisError(f"{DR}: path condition with too many cases")

    if deferred_exit is not None:
        # `while (p := next_packet()) is not None`: the loop ends when the extraction step itself says that nothing complete is buffered
        why, bad = set(), None
        ctx.count("early_returns", len(split(deferred_exit)))
        for case in split(deferred_exit):
            r = next((incomplete(a) for a in case if incomplete(a)), None)
            if r is None:
                bad = case
            else:
                why.add(r)
        ctx.ob(R + ".d", DR, bad is None and bool(why), f"the loop ends normally only because: {' / '.join(sorted(why))}", func=DR, file=file, node=ext_loop.test,
               fail=f"the extraction loop can stop (`{show(tt)[:160]}` false) while complete packets remain buffered" +
                    (f" [case: {'; '.join(show(a)[:50] for a in bad[-3:])}]" if bad else ""))
    for st, node, kind in all_exits:
        if not st.pc:
            continue
        # in every case of the path condition some fact says 'nothing complete is buffered'
        why, bad = set(), None
        for case in split(st):
            r = next((incomplete(a) for a in case if incomplete(a)), None)
            if r is None:
                bad = case
            else:
                why.add(r)
        c, truth = st.pc[-1]
        ctx.ob(R + ".b", DR, bad is None and bool(why), f"early {kind} because: {' / '.join(sorted(why))}", func=DR, file=file, node=node,
               detail={"condition": show(c)[:100], "truth": truth},
               fail=f"data_received stops early ({kind}) on `{show(c)[:80]}` is {truth}" + (f" [case: {'; '.join(show(a)[:50] for a in bad[-3:])}]" if bad else "") +
                    ": a condition other than 'no marker / leading packet incomplete' can hold back a packet whose last byte has arrived")
    # early exits leave the buffer untouched
    for st, node, kind in [(st, n, "return") for st, n in info["returns"]] + [(st, ext_loop, "break") for st in info["breaks"]]:
        ctx.count("early_returns", len(split(st)))
        v = st.env.get(buf_key)
        vs = {simplify(v, case) for case in split(st)} if v is not None else {None}
        ctx.ob(R + ".c", DR, vs == {Bh}, f"early {kind} keeps the buffered bytes untouched", func=DR, file=file, node=node,
               detail={"buffer_at_return": show(v) if v else None},
               fail=f"an early {kind} modifies / clears the buffer: bytes of a partially received packet are lost")
    # back edges: exactly the extraction
    edges = [(st, case) for st in info["ends"] + info["continues"] for case in split(st)]
    for st, facts in edges:
        ctx.count("back_edges")
        kept = strip(oc(simplify(st.env.get(buf_key, ("top", "?")), facts)))          # (offsets hidden behind settled gates are views too)
        kb = kept if kept[0] == "slice" else None
        if kb is None or kb[3] is not None or kb[4] is not None or kb[2] is None:
            ctx.ob(R + ".c", DR, False, "", func=DR, file=file, construct=f"self.{attr} after extraction",
                   detail={"kept": show(kept)}, fail=f"after an extraction the buffer is `{show(kept)[:80]}`, not the remainder view[N:]")
            continue
        V, N = strip(kb[1]), kb[2]
        ctx.count("buffer_stores")
        if used_offsets:
            found = any(a[0] == "cmp" and ((is_off(a[2]) and ((a[1], a[3]) in (("!=", ("const", -1)), (">=", ("const", 0)), (">", ("const", -1))))) or
                                           (is_off(a[3]) and ((a[1], a[2]) in (("!=", ("const", -1)), ("<=", ("const", 0)), ("<", ("const", -1))))))
                        for a in facts)
            ctx.ob(R + ".c", DR, found, "offsets relative to buffer.find(marker) are only used when the marker was found", func=DR, file=file, construct="offset arithmetic",
                   fail="buffer offsets are computed from find() without excluding -1 (no marker): the wrong bytes are framed")
        # view = Bh[start:], start = Bh.find(marker)
        vb = V if V[0] == "slice" else None
        view_ok = vb is not None and strip(vb[1]) == Bh and vb[3] is None and vb[4] is None and vb[2] is not None \
            and meth_is(strip(vb[2]), "find") and strip(strip(vb[2])[1][1]) == Bh and strip(vb[2])[2] == (("const", MARKER),)
        ctx.ob(R + ".c", DR, view_ok, "view = buffer[buffer.find(8370):] (bytes before the marker are skipped, marker = encoders' constant)",
               func=DR, file=file, construct="marker alignment", detail={"view": show(V)[:160]},
               fail=f"the packet view `{show(V)[:100]}` is not the buffer from the first 8370 marker on")
        # delivered slice: the put_nowait argument on this path
        delivered = None
        for p in puts:
            t = tl(p.args[0]) if p.args else None
            if t is not None:
                delivered = strip(oc(simplify(oc(t), facts)))
        dl = delivered if delivered is not None and delivered[0] == "slice" else None
        part = dl is not None and strip(dl[1]) == V and dl[2] is None and dl[3] == N and dl[4] is None
        ctx.ob(R + ".c", DR, part, "delivered = view[:N] and kept = view[N:] with the same N", func=DR, file=file, construct="partition",
               detail={"delivered": show(delivered)[:120] if delivered else None, "kept": show(kept)[:120]},
               fail=f"delivered `{show(delivered)[:80] if delivered else None}` and kept `{show(kept)[:80]}` do not partition the view at one point")
        n_ok, Nl = size_ok(N, V)
        ctx.ob(R + ".a", DR, n_ok, f"N = {size_desc}", func=DR, file=file, construct="total_size",
               detail={"N": show(N)[:120]}, fail=f"packet size `{show(N)[:100]}` is not {size_desc}")
        # tight completeness guard
        tight = False
        header_consts = []
        loose = []
        for f in facts:
            if f[0] != "cmp":
                continue
            a, b = strip(f[2]), strip(f[3])
            if call_is(a, "len") and strip(a[2][0]) == V:
                if b == strip(N) or lin(b) == Nl:
                    if f[1] == ">=":
                        tight = True
                    else:
                        loose.append(show(f))
                elif is_const(b) and isinstance(b[1], int) and f[1] in (">=", ">"):
                    header_consts.append(b[1] + (1 if f[1] == ">" else 0))
                elif f[1] in (">=", ">", "<", "<="):
                    loose.append(show(f))
        ctx.ob(R + ".b", DR, tight and not loose, "extraction happens exactly when len(view) >= N", func=DR, file=file, construct="completeness guard",
               detail={"facts": [show(f)[:100] for f in facts]},
               fail=("the completeness guard is not `len(view) >= N`: " + (f"found {loose}" if loose else "no such guard") +
                     " (a packet is delivered incomplete, or one byte late)"))
        for h in header_consts:
            ctx.ob(R + ".b", DR, h <= min_packet, f"header guard len(view) >= {h} never delays a complete packet (N >= {min_packet})", func=DR, file=file,
                   construct=f"header guard {h}", fail=f"header guard waits for {h} bytes: a complete {min_packet}-byte packet is delayed")
        # exactly one put per iteration, not in a nested loop (sites inside extracted helpers count through their call sites)
        nput = 0
        for _pf, p, chains in put_sites:
            for chain in chains:
                nodes = [x for x, _fld in chain]
                if not any(x is ext_loop for x in nodes):
                    continue
                nput += 1
                nested = any(isinstance(x, (ast.For, ast.While, ast.AsyncFor)) for x in nodes[:next(i for i, x in enumerate(nodes) if x is ext_loop)])
                ctx.ob(R + ".d", DR, not nested, "put_nowait is not inside a nested loop", func=DR, file=file, node=p, fail="put_nowait in a nested loop: packets delivered more than once")
        ctx.ob(R + ".d", DR, nput == 1, "exactly one put_nowait per extracted packet", func=DR, file=file, construct="put_nowait sites",
               fail=f"{nput} put_nowait sites in the extraction loop: a packet is delivered {nput} times")
        ctx.count("puts", nput)
    queue_identity(ctx, R, DR, fn, file, puts)
    return True


def check_reassembly_offset(ctx, R, DR, MARKER, size_ok, size_desc, min_packet, fn, s, put_sites, tl, data_p) -> bool:
    """The same inductive step written with a consumed-bytes offset: the buffer B is left alone inside the loop, a local c (0 at entry) counts
    the bytes delivered or skipped, each iteration frames the packet at off = B.find(marker, c), delivers B[off:off+N], sets c = off + N, and on
    every way out of the function the buffer becomes B[c:].  With the view V = B[off:] the premises are those of the slicing form.
    Returns False (nothing recorded) when the function does not have this shape."""
    prog = ctx.prog
    file = fn.module.rel
    self_p = fn.params[0]
    from ..producer import find_offset_form
    found = find_offset_form(s, fn, data_p)
    if found is None:
        return False
    loop, cname, buf_key, B = found
    info = s.loops[loop]
    attr = buf_key.split(".", 1)[1]
    c = ("loopvar", cname, loop.lineno)
    used = []

    def is_off(sym):
        y = strip(sym)
        return meth_is(y, "find") and strip(y[1][1]) == B and len(y[2]) == 2 and y[2][0] == ("const", MARKER) and strip(y[2][1]) == c

    def oc(x):
        return offset_canon(x, B, is_off, used, plain_view=True)
    offs = {strip(x) for st in info["ends"] + info["continues"] for v in list(st.env.values()) + [c_ for c_, _t in st.pc] for x in subterms(v) if is_off(x)}
    if len(offs) != 1:
        return False
    OFF = next(iter(offs))
    V = ("slice", B, OFF, None, None)
    ctx.count("loops")
    ctx.ob(R + ".d", DR, True, "packet extraction happens inside a loop (offset form: consumed bytes are counted, the buffer is trimmed once on the way out)",
           func=DR, file=file, construct="extraction loop")
    ctx.ob(R + ".c", DR, True, "incoming data is appended to the buffer (buffer' = buffer + data)", func=DR, file=file, construct=f"self.{attr} += data")
    ctx.count("buffer_stores")
    # the loop ends normally only when every byte has been consumed
    tt = strip(s.ta.terms_at.get(loop.test, ("top", "?")))
    lenB = lambda x: call_is(strip(x), "len") and strip(strip(x)[2][0]) == B          # noqa: E731
    empty_exit = (is_const(tt) and tt[1] is True) or (tt[0] == "cmp" and (
        (strip(tt[2]) == c and lenB(tt[3]) and tt[1] in ("<", "!=")) or (lenB(tt[2]) and strip(tt[3]) == c and tt[1] in (">", "!="))))
    ctx.ob(R + ".d", DR, empty_exit, "the loop only ends normally when every buffered byte has been consumed", func=DR, file=file, node=loop.test,
           fail=f"the extraction loop can stop (`{show(tt)}` false) while complete packets remain buffered")

    def split(st):
        try:
            return cases(st.pc)
        except ValueError:
            raise AnalysisError(f"{DR}: path condition with too many cases")

    def incomplete(a):
        a = strip(oc(a))
        truth = True
        while a[0] == "un" and a[1] == "not":
            a, truth = strip(a[2]), not truth
        if a[0] != "cmp":
            return "empty segment" if (a == ("param", data_p) and not truth) else None
        op = a[1] if truth else NEG.get(a[1])
        l, r = strip(a[2]), strip(a[3])
        if op in FLIP and not (is_off(l) or call_is(l, "len")) and (is_off(r) or call_is(r, "len")):
            l, r, op = r, l, FLIP[op]
        if is_off(l) and ((r == ("const", -1) and op == "==") or (r == ("const", 0) and op == "<") or (r == ("const", -1) and op == "<=")):
            return "no marker in the unconsumed bytes"
        if call_is(l, "len") and strip(l[2][0]) == V and op in ("<", "<="):
            return "leading packet incomplete"
        if call_is(l, "len") and strip(l[2][0]) == ("param", data_p) and ((op == "==" and r == ("const", 0)) or (op == "<" and r == ("const", 1))):
            return "empty segment"
        if l == c and lenB(r) and op in (">=", "=="):
            return "everything consumed"
        return None
    exits = [(st, n, "return") for st, n in info["returns"]] + [(st, loop, "break") for st in info["breaks"]]
    for st, node, kind in exits:
        ctx.count("early_returns", len(split(st)))
        why, bad = set(), None
        for case in split(st):
            r = next((incomplete(a) for a in case if incomplete(a)), None)
            if r is None:
                bad = case
            else:
                why.add(r)
        cnd, truth = st.pc[-1] if st.pc else (("top", "?"), True)
        ctx.ob(R + ".b", DR, bad is None and bool(why), f"early {kind} because: {' / '.join(sorted(why))}", func=DR, file=file, node=node,
               fail=f"data_received stops early ({kind}) on `{show(cnd)[:80]}` is {truth}: a condition other than 'no marker / leading packet incomplete' can hold "
                    "back a packet whose last byte has arrived")
        ctx.ob(R + ".c", DR, strip(st.env.get(buf_key, ("top",))) == B and strip(st.env.get(cname, ("top",))) == c, f"early {kind} leaves the buffer and the consumed count untouched",
               func=DR, file=file, node=node, fail=f"an early {kind} modifies the buffer / the consumed count: bytes of a partially received packet are lost")
    # every way out of the function trims exactly the consumed prefix
    for _pc, _t, n, rst in s.returns:
        kept = strip(rst.env.get(buf_key, ("top", "?")))
        alts = [strip(x) for x in ((kept[2], kept[3]) if kept[0] == "ite" and strip(kept[1]) == c else (kept,))]
        ok = all(a == B or (a[0] == "slice" and strip(a[1]) == B and a[2] is not None and strip(a[2]) == c and a[3] is None and a[4] is None) for a in alts) \
            and any(a != B for a in alts)
        ctx.count("buffer_stores")
        ctx.ob(R + ".c", DR, ok, "on the way out the buffer keeps exactly the bytes behind the consumed count (buffer[consumed:])", func=DR, file=file, node=n,
               detail={"kept": show(kept)[:160]},
               fail=f"on the way out the buffer is `{show(kept)[:100]}`, not buffer[consumed:]: delivered bytes stay buffered or undelivered bytes are dropped")
    # back edges: exactly the extraction
    puts = [n for _f, n, _ch in put_sites]
    for st in info["ends"] + info["continues"]:
        for facts in split(st):
            ctx.count("back_edges")
            facts = [oc(a) for a in facts]
            ctx.ob(R + ".c", DR, strip(st.env.get(buf_key, ("top",))) == B, "the buffer is not modified inside the loop", func=DR, file=file, construct=f"self.{attr} in the loop",
                   fail="the buffer is modified inside the loop although offsets into it are carried from one packet to the next")
            nc = lin(oc(simplify(st.env.get(cname, ("top", "?")), facts)))
            osym = next((k for k, v in nc.t.items() if is_off(k) and v == 1), None)
            from ..affine import from_lin
            N = from_lin(nc - Lin(0, {osym: 1})) if osym is not None else None
            ctx.ob(R + ".c", DR, N is not None, "consumed' = start of the packet + its size N (delivered and skipped bytes, nothing else, are counted)", func=DR, file=file,
                   construct="consumed count", detail={"consumed": repr(nc)[:160]},
                   fail=f"after an extraction the consumed count is `{repr(nc)[:100]}`, not marker offset + packet size")
            if N is None:
                continue
            found = any(a[0] == "cmp" and ((is_off(a[2]) and ((a[1], a[3]) in (("!=", ("const", -1)), (">=", ("const", 0)), (">", ("const", -1))))) or
                                           (is_off(a[3]) and ((a[1], a[2]) in (("!=", ("const", -1)), ("<=", ("const", 0)), ("<", ("const", -1))))))
                        for a in facts)
            ctx.ob(R + ".c", DR, found, "offsets relative to buffer.find(marker, consumed) are only used when the marker was found", func=DR, file=file,
                   construct="offset arithmetic", fail="buffer offsets are computed from find() without excluding -1 (no marker): the wrong bytes are framed")
            delivered = None
            for p in puts:
                t = tl(p.args[0]) if p.args else None
                if t is not None:
                    delivered = strip(oc(simplify(oc(t), facts)))
            dl = delivered if delivered is not None and delivered[0] == "slice" else None
            part = dl is not None and strip(dl[1]) == V and dl[2] is None and dl[3] is not None and lin(dl[3]) == lin(N) and dl[4] is None
            ctx.ob(R + ".c", DR, part, "delivered = view[:N] and the consumed count advances to the end of the same N bytes", func=DR, file=file, construct="partition",
                   detail={"delivered": show(delivered)[:120] if delivered else None, "N": show(N)[:100]},
                   fail=f"delivered `{show(delivered)[:80] if delivered else None}` is not the N = `{show(N)[:60]}` bytes the consumed count skips")
            n_ok, Nl = size_ok(N, V)
            ctx.ob(R + ".a", DR, n_ok, f"N = {size_desc}", func=DR, file=file, construct="total_size",
                   detail={"N": show(N)[:120]}, fail=f"packet size `{show(N)[:100]}` is not {size_desc}")
            tight, loose, header_consts = False, [], []
            for f in facts:
                if f[0] != "cmp":
                    continue
                a, b = strip(f[2]), strip(f[3])
                if call_is(a, "len") and strip(a[2][0]) == V:
                    if lin(b) == Nl:
                        if f[1] == ">=":
                            tight = True
                        else:
                            loose.append(show(f))
                    elif is_const(b) and isinstance(b[1], int) and f[1] in (">=", ">"):
                        header_consts.append(b[1] + (1 if f[1] == ">" else 0))
                    elif f[1] in (">=", ">", "<", "<="):
                        loose.append(show(f))
            ctx.ob(R + ".b", DR, tight and not loose, "extraction happens exactly when len(view) >= N", func=DR, file=file, construct="completeness guard",
                   detail={"facts": [show(f)[:100] for f in facts]},
                   fail=("the completeness guard is not `len(view) >= N`: " + (f"found {loose}" if loose else "no such guard") + " (a packet is delivered incomplete, or one byte late)"))
            for h in header_consts:
                ctx.ob(R + ".b", DR, h <= min_packet, f"header guard len(view) >= {h} never delays a complete packet (N >= {min_packet})", func=DR, file=file,
                       construct=f"header guard {h}", fail=f"header guard waits for {h} bytes: a complete {min_packet}-byte packet is delayed")
            nput = 0
            for _pf, p, chains in put_sites:
                for chain in chains:
                    nodes = [x for x, _fld in chain]
                    if not any(x is loop for x in nodes):
                        continue
                    nput += 1
                    nested = any(isinstance(x, (ast.For, ast.While, ast.AsyncFor)) for x in nodes[:next(i for i, x in enumerate(nodes) if x is loop)])
                    ctx.ob(R + ".d", DR, not nested, "put_nowait is not inside a nested loop", func=DR, file=file, node=p, fail="put_nowait in a nested loop: packets delivered more than once")
            ctx.ob(R + ".d", DR, nput == 1, "exactly one put_nowait per extracted packet", func=DR, file=file, construct="put_nowait sites",
                   fail=f"{nput} put_nowait sites in the extraction loop: a packet is delivered {nput} times")
            ctx.count("puts", nput)
    queue_identity(ctx, R, DR, fn, file, puts)
    return True


def queue_identity(ctx, R, DR, fn, file, puts):
    prog = ctx.prog
    # queue identity: read() pops the FIFO queue data_received fills
    rq = ctx.fn("msmart.lan._LanProtocol._read_queue" if "msmart.lan._LanProtocol._read_queue" in prog.funcs else "msmart.lan._LanProtocol.read")
    rqs = summarize(prog, rq)
    q_attrs = set()
    for p in puts:
        if isinstance(p.func.value, ast.Attribute):
            q_attrs.add(p.func.value.attr)
    get_attrs = {n.func.value.attr for n in ast.walk(rq.node) if isinstance(n, ast.Call) and isinstance(n.func, ast.Attribute)
                 and n.func.attr in ("get", "get_nowait") and isinstance(n.func.value, ast.Attribute)}
    ctx.ob(R + ".d", DR, bool(q_attrs) and q_attrs == get_attrs, f"read() pops the queue data_received fills (self.{'/'.join(sorted(q_attrs))})",
           func=DR, file=file, construct="queue identity", fail=f"data_received fills {sorted(q_attrs)} but read pops {sorted(get_attrs)}")
    qinit = [n for k in prog.mro(fn.cls) for m in [k.methods.get("__init__")] if m for n in ast.walk(m.node)
             if (isinstance(n, ast.Assign) and any(isinstance(t, ast.Attribute) and t.attr in q_attrs for t in n.targets)) or
             (isinstance(n, ast.AnnAssign) and n.value is not None and isinstance(n.target, ast.Attribute) and n.target.attr in q_attrs)]
    fifo = bool(qinit) and all(isinstance(n.value, ast.Call) and prog.resolve_expr(prog.module("msmart.lan"), n.value.func) is not None
                               and getattr(prog.resolve_expr(prog.module("msmart.lan"), n.value.func), "name", "") == "asyncio.Queue" for n in qinit)
    ctx.ob(R + ".d", fn.cls.qual, fifo, "the queue is a FIFO asyncio.Queue", func=fn.cls.qual, file=file, construct="self._queue = asyncio.Queue()",
           fail="the receive queue is not a plain FIFO asyncio.Queue (LifoQueue / PriorityQueue reorder packets)")
    # ... without a capacity: put_nowait on a full queue raises QueueFull inside the callback, after the buffer has moved on - the packet is lost
    bounded = []
    for n in qinit:
        if isinstance(n.value, ast.Call):
            for a_ in list(n.value.args[:1]) + [k.value for k in n.value.keywords if k.arg == "maxsize"]:
                v_ = prog.fold_or_none(a_, fn.module, fn.cls)
                if not (isinstance(v_, int) and not isinstance(v_, bool) and v_ <= 0):
                    bounded.append(n)
    ctx.ob(R + ".d", fn.cls.qual, not bounded, "the receive queue is unbounded (put_nowait cannot fail)", func=fn.cls.qual, file=file, construct="asyncio.Queue()",
           node=bounded[0] if bounded else None,
           fail="the receive queue has a capacity: when more packets are reassembled than it holds, put_nowait raises QueueFull in the callback and the packet (and the rest of the segment) is lost")
