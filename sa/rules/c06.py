"""C06 - V3 handshake: key agreement when genuine, sound rejection otherwise.

  C06.a  proof before key: every return of _get_local_key is dominated by the full-width equality
         sha256(decrypt(key, data[:32])) == data[32:] (the two halves partition the reply) whose failing side raises
         AuthenticationError; the function stores nothing on self
  C06.b  who may write the session state: _local_key / _local_key_expiration are stored only by __init__ (None) and
         _LanProtocolV3.authenticate, where the stored key *is* the value returned by _get_local_key and every raising
         path leaves both untouched; LAN._token / _key are stored only by __init__ and LAN.authenticate, and for every
         retry budget 1..3 and every outcome sequence each path reaching those stores contains a normally completed handshake
  C06.c  nothing but handshake requests is sent: the only transport write in the handshake code is
         write(token, packet_type=HANDSHAKE_REQUEST) with the configured token (hex->bytes is the only transformation);
         the queue flush precedes it
  C06.d  failure class (E4): peer-caused exceptions escaping Device.authenticate ⊆ {AuthenticationError};
         _LanProtocolV3.authenticate promotes ProtocolError to AuthenticationError
  C06.e  success path: key and expiry are both stored, expiry = now + the 12 h constant
"""
from __future__ import annotations

import ast
import datetime

from ..facts import abs_range, atoms, call_is, equality_atoms, meth_is, slice_bounds, strip
from ..model import AnalysisError, is_self_attr, norm
from ..retry import Explorer
from ..terms import is_const, show, subterms, summarize
from .c08 import attr_call, counter_names, find_loop
from .c09 import make as make_raises

V3 = "msmart.lan._LanProtocolV3"
LAN = "msmart.lan.LAN"
AUTHERR = "msmart.lan.AuthenticationError"
PROTO = "msmart.lan.ProtocolError"
SEC = "msmart.lan.Security"


def stores_to(prog, cls_qual, attr):
    """[(function, Assign/AugAssign node)] for every store to self.<attr> in the class (and subclasses / bases)."""
    out = []
    c = prog.cls(cls_qual)
    for k in set(prog.mro(c)) | set(prog.subclasses(c)):
        for f in list(k.methods.values()) + list(k.props_set.values()):
            for n in ast.walk(f.node):
                tg = n.targets if isinstance(n, ast.Assign) else ([n.target] if isinstance(n, (ast.AugAssign, ast.AnnAssign)) else [])
                for t in tg:
                    for x in ast.walk(t):
                        if is_self_attr(x, attr) and isinstance(x.ctx, ast.Store):
                            out.append((f, n))
    return out


def store_owners(prog, st):
    """Known functions responsible for the stores: a store inside a helper the rules do not know is attributed to the known
    functions that reach it (an uncalled unknown function owns its stores itself)."""
    from ..helpers import known_owners
    out = set()
    for f, _n in st:
        if prog.is_known(f.qual):
            out.add(f.qual)
        else:
            out |= set(known_owners(prog, f)) or {f.qual}
    return sorted(out)


def stores_after_proof(ctx, rule, prog):
    """In _LanProtocolV3.authenticate every store to the session key / its expiry is dominated by the completed proof check
    (the call that verifies the handshake reply - _get_local_key, or the helpers a refactoring split it into).  A store that
    precedes it survives a failing proof, because the verifier's raise leaves authenticate with the store already done."""
    from ..absint import EventAnalysis, run_events
    pa = ctx.fn(f"{V3}.authenticate")
    gk = prog.funcs.get(f"{V3}._get_local_key")

    def verifies(call_node, fn_):
        from ..helpers import resolve_call, with_helpers
        t = resolve_call(prog, fn_, call_node)
        if t is None:
            return False
        if gk is not None and t.qual == gk.qual:
            return True
        # an unknown helper that performs the digest comparison and raises on mismatch
        if not prog.is_known(t.qual):
            return any(isinstance(n, ast.Compare) and any(isinstance(c, ast.Call) and isinstance(c.func, ast.Attribute) and c.func.attr in ("digest", "compare_digest")
                                                          for c in ast.walk(n)) for f2 in with_helpers(prog, t) for n in ast.walk(f2.node)) or \
                any(isinstance(c, ast.Call) and isinstance(c.func, ast.Attribute) and c.func.attr == "compare_digest" for f2 in with_helpers(prog, t) for c in ast.walk(f2.node))
        return False

    def on_stmt(node, st):
        if isinstance(node, (ast.FunctionDef, ast.AsyncFunctionDef)):
            return []
        return ["proved"] if any(isinstance(c, ast.Call) and verifies(c, pa) for c in ast.walk(node)) else []
    ea = EventAnalysis(must=True, on_stmt=on_stmt)
    ea.inline_unknown = False
    run_events(prog, pa, ea)
    n = 0
    for node, st in ea.at.items():
        if not isinstance(node, (ast.Assign, ast.AugAssign, ast.AnnAssign)):
            continue
        tg = node.targets if isinstance(node, ast.Assign) else [node.target]
        for t in tg:
            for x in ast.walk(t):
                for attr in ("_local_key", "_local_key_expiration"):
                    if is_self_attr(x, attr) and isinstance(x.ctx, ast.Store):
                        n += 1
                        # the statement that stores the verifier's own result counts as after it
                        own = any(isinstance(c, ast.Call) and verifies(c, pa) for c in ast.walk(node))
                        ctx.ob(rule, pa.qual, "proved" in st or own, f"self.{attr} is stored only after the handshake reply was verified", func=pa.qual, file=pa.module.rel,
                               node=node, fail=f"self.{attr} is stored before the handshake reply is verified: a failing proof leaves the session state already changed "
                                                f"(an expired or foreign session counts as authenticated again)")
    return n


def external_stores(prog, attr, owner_quals):
    """stores `<expr>.<attr> = ...` anywhere in the package outside the owner classes' methods"""
    out = []
    for f in prog.all_functions():
        if f.cls is not None and f.cls.qual in owner_quals:
            continue
        for n in ast.walk(f.node):
            if isinstance(n, ast.Attribute) and n.attr == attr and isinstance(n.ctx, ast.Store):
                out.append((f, n))
    return out


def flush_drains(prog, fl):
    """(ok, why) - `_flush` leaves the receive queue EMPTY: it takes packets in a loop whose only ways out are 'the queue says it is empty'
    (QueueEmpty from get_nowait, or the emptiness test of the loop).  Taking a bounded number of packets is not a flush: two late replies of
    abandoned handshakes leave one behind, and it is taken for the reply to the next handshake."""
    par = {c: p for p in ast.walk(fl.node) for c in ast.iter_child_nodes(p)}
    recv = fl.params[0] if fl.params else "self"

    aliases = {t_.id for a_ in ast.walk(fl.node) if isinstance(a_, ast.Assign) and isinstance(a_.value, ast.Attribute) and isinstance(a_.value.value, ast.Name)
               and a_.value.value.id == recv for t_ in a_.targets if isinstance(t_, ast.Name)}          # q = self._queue

    def is_get(n):
        if not (isinstance(n, ast.Call) and isinstance(n.func, ast.Attribute) and n.func.attr in ("get_nowait", "get")):
            return False
        b_ = n.func.value
        return (isinstance(b_, ast.Attribute) and isinstance(b_.value, ast.Name) and b_.value.id == recv) or (isinstance(b_, ast.Name) and b_.id in aliases)

    def empty_test(t, want_nonempty=True):
        if isinstance(t, ast.UnaryOp) and isinstance(t.op, ast.Not):
            return empty_test(t.operand, not want_nonempty)
        if isinstance(t, ast.Call) and isinstance(t.func, ast.Attribute) and t.func.attr == "empty":
            return not want_nonempty
        if isinstance(t, ast.Call) and isinstance(t.func, ast.Attribute) and t.func.attr == "qsize":
            return want_nonempty
        if isinstance(t, ast.Compare) and len(t.ops) == 1 and isinstance(t.left, ast.Call) and isinstance(t.left.func, ast.Attribute) and t.left.func.attr == "qsize" \
                and isinstance(t.comparators[0], ast.Constant) and t.comparators[0].value == 0:
            return isinstance(t.ops[0], (ast.Gt, ast.NotEq)) == want_nonempty
        return False

    def catches_empty(h):
        names = [norm(x) for x in (h.type.elts if isinstance(h.type, ast.Tuple) else [h.type])] if h.type is not None else ["BaseException"]
        return any(n_.split(".")[-1] in ("QueueEmpty", "Exception", "BaseException") for n_ in names)
    gets = [n for n in ast.walk(fl.node) if is_get(n)]
    if not gets:
        # (a flush that swaps in a fresh queue would be another design: not decided here)
        raise AnalysisError(f"{fl.qual}: no get / get_nowait on the receive queue - how it flushes is not recognised")
    for g in gets:
        x, loop = g, None
        while x in par:
            x = par[x]
            if isinstance(x, (ast.While, ast.For, ast.AsyncFor)):
                loop = x
                break
        if loop is None:
            continue
        breaks = [b for b in ast.walk(loop) if isinstance(b, (ast.Break, ast.Return)) and not any(isinstance(par.get(a), ast.ExceptHandler) and catches_empty(par[a])
                                                                                                   for a in [b] + [y for y in _ancestors(par, b)])]
        if breaks:
            return False, f"the loop can stop at `{norm(breaks[0])}` while packets remain queued"
        if isinstance(loop, ast.While) and isinstance(loop.test, ast.Constant) and loop.test.value is True:
            # while True: out only through the exception of get_nowait
            handlers = [h for a in _ancestors(par, loop) + _ancestors(par, g) if isinstance(a, ast.Try) for h in a.handlers]
            if any(catches_empty(h) for h in handlers) and g.func.attr == "get_nowait":
                return True, "loop until QueueEmpty"
            return False, "an endless loop whose exit on an empty queue is not handled"
        if isinstance(loop, ast.While) and empty_test(loop.test):
            return True, "loop while the queue is not empty"
        return False, f"the loop `{norm(loop.test) if isinstance(loop, ast.While) else norm(loop.iter)}` is bounded by something other than the queue being empty"
    return False, "packets are taken from the queue without a loop: at most a fixed number is discarded"


def _ancestors(par, n):
    out = []
    while n in par:
        n = par[n]
        out.append(n)
    return out


def flush_before_write(prog, pa) -> bool:
    """On *every* path to the handshake write the receive queue has been flushed (must-pass-through): otherwise a stale
    reply of an earlier, abandoned handshake is taken for the reply to this one and a wrong session key is derived."""
    from ..absint import EventAnalysis, run_events

    def on_stmt(node, st):
        if isinstance(node, ast.Expr) and isinstance(node.value, ast.Call) and isinstance(node.value.func, ast.Attribute) and node.value.func.attr == "_flush":
            return ["flushed"]
        return []
    ea = EventAnalysis(must=True, on_stmt=on_stmt)
    run_events(prog, pa, ea)
    wst = [n for n in ea.at if isinstance(n, ast.stmt) and not isinstance(n, (ast.Try, ast.If, ast.While, ast.With, ast.For)) and
           any(isinstance(c, ast.Call) and isinstance(c.func, ast.Attribute) and c.func.attr == "write" for c in ast.walk(n))]
    return bool(wst) and all("flushed" in ea.at[n] for n in wst)


def run(ctx):
    prog = ctx.prog
    ctx.explanation = ("path-condition dominance of the SHA-256 proof in _get_local_key; who-writes scans and value-flow of the stored key; "
                       "exploration of LAN.authenticate's retry loop up to the credential stores; call-site inventory of transport writes; "
                       "may-raise analysis of Device.authenticate")
    ctx.trusted = ["AES / SHA-256 algebra (both sides derive the same key) is not decided", "library model"]
    # ---------------------------------------------------------------- C06.a
    # The proof check, wherever it lives: in _get_local_key (analysed on its own), or - when a refactoring has split / inlined that
    # function - in the inlined view of _LanProtocolV3.authenticate, where the value stored as the session key takes its place.
    g = prog.funcs.get(f"{V3}._get_local_key")
    pa0 = ctx.fn(f"{V3}.authenticate")
    file = pa0.module.rel
    proved_returns = 0

    def check_proof(owner, pc, value, node, key_t, data_t):
        """value: the derived key on this path; key_t: the configured key; data_t: the reply (None: taken from the comparison)"""
        facts = atoms(pc)
        proof = None
        for a, b in equality_atoms(facts):
            for x, y in ((a, b), (b, a)):
                if meth_is(x, "digest") and call_is(x[1][1], "hashlib.sha256") and x[1][1][2]:
                    proof = (strip(x[1][1][2][0]), strip(y))
        if not ctx.ob("C06.a", owner, proof is not None, "the session key is returned only after sha256(<decrypted half>) == <proof half> held",
                      func=owner, file=file, node=node, detail={"facts": [show(f)[:100] for f in facts]},
                      fail="a session key can be derived from a reply whose SHA-256 proof was not (fully) verified"):
            return None
        ctx.count("proofs")
        hashed, rx = proof
        dec_ok = call_is(hashed, f"{SEC}.decrypt_aes_cbc") and strip(hashed[2][-2]) == key_t
        cr = slice_bounds(strip(hashed[2][-1])) if dec_ok else None
        rr = slice_bounds(rx)
        if data_t is None and rr is not None:
            data_t = strip(rr[0])
        # with the reply length fixed by a guard (len(data) == L), bounds counted from the end are positions from the start
        L = next((b[1] for a, b in equality_atoms(facts) if call_is(strip(a), "len") and strip(strip(a)[2][0]) == data_t and is_const(b) and isinstance(b[1], int)), None) or \
            next((a[1] for a, b in equality_atoms(facts) if call_is(strip(b), "len") and strip(strip(b)[2][0]) == data_t and is_const(a) and isinstance(a[1], int)), None)

        def fromstart(r):
            if r is None or L is None:
                return r
            return (r[0],) + tuple((L + b if isinstance(b, int) and b < 0 else (None if b == L else b)) for b in r[1:])
        cr, rr = fromstart(cr), fromstart(rr)
        part = cr is not None and rr is not None and strip(cr[0]) == data_t == strip(rr[0]) and cr[1] in (None, 0) and cr[2] is not None \
            and rr[1] == cr[2] and rr[2] is None and cr[2] == 32
        ctx.ob("C06.a", owner, dec_ok and part, "proof = sha256(decrypt(key, reply[:32])) compared with reply[32:] (halves partition the reply, configured key)",
               func=owner, file=file, node=node, detail={"hashed": show(hashed)[:120], "against": show(rx)},
               fail=f"the proof does not bind the reply to the configured key: hashes `{show(hashed)[:80]}`, compares with `{show(rx)}`")
        # the derived key comes from the verified plaintext
        used = any(x == hashed for x in subterms(value))
        ctx.ob("C06.a", owner, used, "the returned key is derived from the verified plaintext", func=owner, file=file, node=node,
               detail={"returns": show(value)[:120]}, fail="the returned key is not computed from the plaintext whose proof was checked")
        ctx.sample({"function": owner.split(".")[-1], "proof": f"sha256({show(hashed)[:80]}) == {show(rx)}", "returns": show(value)[:100]})
        return data_t if (dec_ok and part and used) else None

    inline_reply = {}
    if g is not None:
        ctx.fn(g.qual)
        gs = summarize(prog, g)
        key_p, data_p = g.args[0], g.args[1]
        for pc, ret, node, rst in gs.returns:
            if node is None:
                continue
            ctx.count("key_returns")
            check_proof(g.qual, pc, ret, node, ("param", key_p), ("param", data_p))
        for pc, exc, node, rst in gs.raises:
            ctx.ob("C06.a", g.qual, prog.exc_is(exc, AUTHERR), f"rejection raises {exc.split('.')[-1]}", func=g.qual, file=file, node=node,
                   fail=f"_get_local_key rejects with {exc}, not an AuthenticationError")
        self_stores = [n for n in ast.walk(g.node) if isinstance(n, ast.Attribute) and isinstance(n.ctx, ast.Store) and isinstance(n.value, ast.Name) and n.value.id == g.params[0]]
        ctx.ob("C06.a", g.qual, not self_stores, "_get_local_key stores nothing on self", func=g.qual, file=file, node=self_stores[0] if self_stores else None,
               fail="_get_local_key writes session state before / regardless of the proof check")
    else:
        ps0 = summarize(prog, pa0)
        for pc, ret, node, rst in ps0.returns:
            kv0 = rst.env.get(f"{pa0.params[0]}._local_key")
            ctx.count("key_returns")
            if kv0 is None:
                ctx.ob("C06.a", pa0.qual, False, "", func=pa0.qual, file=file, construct="session key store", fail="authenticate completes without storing a session key")
                continue
            inline_reply[id(rst)] = check_proof(pa0.qual, pc, kv0, node, ("param", pa0.params[2]), None)
    # ---------------------------------------------------------------- C06.b protocol state
    pa = ctx.fn(f"{V3}.authenticate")
    for attr in ("_local_key", "_local_key_expiration"):
        st = stores_to(prog, V3, attr)
        ctx.count("state_stores", len(st))
        # (dropping the session - `self._local_key = None` in a deauthenticate / reset method - grants nothing: only stores of a value count)
        st = [(f_, n_) for f_, n_ in st if f_.name in ("__init__", pa.name) or not (isinstance(n_, ast.Assign) and isinstance(n_.value, ast.Constant) and n_.value.value is None)]
        owners = store_owners(prog, st)
        ok = set(owners) <= {f"{V3}.__init__", pa.qual}
        ctx.ob("C06.b", V3, ok, f"self.{attr} is written only by __init__ and authenticate", func=V3, file=file, construct=f"stores to {attr}",
               detail={"writers": owners}, fail=f"self.{attr} is also written by {sorted(set(owners) - {f'{V3}.__init__', pa.qual})}")
        for f, n in st:
            if f.name == "__init__":
                ctx.ob("C06.b", f.qual, isinstance(n, ast.Assign) and isinstance(n.value, ast.Constant) and n.value.value is None,
                       f"__init__ starts with {attr} = None (a new connection is unauthenticated)", func=f.qual, file=file, node=n,
                       fail=f"a fresh protocol object starts with a non-None {attr}")
        ext = external_stores(prog, attr, {V3})
        ctx.ob("C06.b", V3, not ext, f"no code outside the protocol class writes {attr}", func=V3, file=file, construct=f"external stores to {attr}",
               detail={"sites": [f.qual for f, _ in ext]}, fail=f"{attr} is written from outside the protocol: {[f.qual for f, _ in ext]}")
    ps = summarize(prog, pa)
    sp = pa.params[0]
    ctx.count("stores_after_proof", stores_after_proof(ctx, "C06.b", prog))
    ok_paths = 0
    for pc, ret, node, rst in ps.returns:
        ok_paths += 1
        kv = rst.env.get(f"{sp}._local_key")
        ev = rst.env.get(f"{sp}._local_key_expiration")
        if g is None:
            # (inlined form: the proof obligations above were evaluated on this very value)
            rep = inline_reply.get(id(rst))
            k_ok = kv is not None and rep is not None
            ctx.ob("C06.b", pa.qual, k_ok, "the stored session key is the verified derivation", func=pa.qual, file=file, construct="self._local_key = ...",
                   detail={"stored": show(kv)[:120] if kv else None}, fail="authenticate completes normally with an unverified _local_key")
            if k_ok:
                def ite_leaves0(x):
                    x = strip(x)
                    return ite_leaves0(x[2]) + ite_leaves0(x[3]) if x[0] == "ite" else [x]
                from_read = all(any(call_is(y, f"{V3}.read") for y in subterms(x)) for x in ite_leaves0(rep))
                ctx.ob("C06.b", pa.qual, from_read, "the verified reply is the one just read", func=pa.qual, file=file, construct="handshake reply", detail={"reply": show(rep)[:80]},
                       fail="the proof is checked on something other than the handshake reply that was read")
            kv = None
        k_ok = kv is not None and call_is(strip(kv), f"{V3}._get_local_key")
        if g is not None:
            ctx.ob("C06.b", pa.qual, k_ok, "the stored session key is the value returned by _get_local_key (i.e. verified)", func=pa.qual, file=file,
                   construct="self._local_key = ...", detail={"stored": show(kv)[:120] if kv else None},
                   fail=f"authenticate completes normally with _local_key = `{show(kv)[:80] if kv else 'unchanged'}`, not the verified result of _get_local_key")
        if k_ok:
            a = strip(kv)[2]
            # the reply handed to _get_local_key comes from read(); the key is the configured key parameter
            def ite_leaves(x):
                x = strip(x)
                if x[0] == "ite":
                    return ite_leaves(x[2]) + ite_leaves(x[3])
                return [x]
            from_read = all(any(call_is(y, f"{V3}.read") for y in subterms(x)) for x in ite_leaves(a[-1]))
            ctx.ob("C06.b", pa.qual, from_read and strip(a[-2]) == ("param", pa.params[2]), "_get_local_key receives the configured key and the reply just read",
                   func=pa.qual, file=file, construct="_get_local_key(key, response)", detail={"args": [show(x)[:60] for x in a]},
                   fail="_get_local_key is not applied to (configured key, handshake reply)")
        exp12 = prog.fold_or_none(prog.cls(V3).attrs.get("AUTHENTICATION_EXPIRATION"), prog.module("msmart.lan"), prog.cls(V3))
        e_ok = ev is not None and strip(ev)[0] == "bin" and strip(ev)[1] == "+" and any(call_is(x, "datetime.datetime.now") for x in subterms(ev)) \
            and any(is_const(x) and x[1] == datetime.timedelta(hours=12) for x in subterms(ev)) and exp12 == datetime.timedelta(hours=12)
        ctx.ob("C06.e", pa.qual, e_ok, "on success the expiry is stored as now + 12 h", func=pa.qual, file=file, construct="self._local_key_expiration = ...",
               detail={"stored": show(ev)[:120] if ev else None}, fail=f"on success the authentication expiry is `{show(ev)[:80] if ev else 'not stored'}`, not now + 12 h")
    ctx.ob("C06.e", pa.qual, ok_paths >= 1, "authenticate has a normal completion", func=pa.qual, file=file, construct="success path", fail="authenticate never completes normally")
    for pc, exc, node, rst in ps.raises:
        ctx.count("failure_paths")
        touched = [k for k in (f"{sp}._local_key", f"{sp}._local_key_expiration") if k in rst.env]
        ctx.ob("C06.b", pa.qual, not touched, f"failure path ({exc.split('.')[-1]}) leaves key and expiry untouched", func=pa.qual, file=file, node=node,
               fail=f"a failing handshake ({exc.split('.')[-1]}) has already written {touched}: the session does not stay unauthenticated")
        if exc not in ("AssertionError",):
            ctx.ob("C06.d", pa.qual, prog.exc_is(exc, AUTHERR) or prog.exc_is(exc, "TimeoutError"), f"explicit failure class {exc.split('.')[-1]}", func=pa.qual,
                   file=file, node=node, fail=f"the protocol-level handshake fails with {exc}, not an authentication error / timeout")
    # ---------------------------------------------------------------- C06.b LAN credentials
    la = ctx.fn(f"{LAN}.authenticate")
    for attr in ("_token", "_key"):
        st = stores_to(prog, LAN, attr)
        owners = store_owners(prog, st)
        ctx.ob("C06.b", LAN, set(owners) <= {f"{LAN}.__init__", la.qual}, f"LAN.{attr} is written only by __init__ and authenticate", func=LAN, file=file,
               construct=f"stores to LAN.{attr}", detail={"writers": owners}, fail=f"LAN.{attr} is also written by {sorted(set(owners) - {f'{LAN}.__init__', la.qual})}")
        ext = [x for x in external_stores(prog, attr, {LAN}) if x[0].module.name == "msmart.lan" or True]
        ext = [x for x in ext if not (x[0].cls is not None and x[0].cls.qual != LAN and x[0].module.name != "msmart.lan" and False)]
        lan_ext = [x for x in ext if isinstance(x[1].value, ast.Attribute) and x[1].value.attr == "_lan"]
        ctx.ob("C06.b", LAN, not lan_ext, f"no code reaches into the LAN object to write {attr}", func=LAN, file=file, construct=f"external stores to LAN.{attr}",
               fail=f"LAN.{attr} is written from outside: {[f.qual for f, _ in lan_ext]}")
    loop = find_loop(la, lambda c: attr_call(c, "_protocol", "authenticate"), prog)
    loop_owner = getattr(find_loop, "owner", None) or la
    if loop is None:
        ctx.violation("C06.b", la.qual, "LAN.authenticate does not call the protocol's authenticate in its retry loop", file=file, construct="handshake loop")
    else:
        from ..helpers import contains_call
        idx = None
        for i, stt in enumerate(la.node.body):
            if any(n is loop for n in ast.walk(stt)) or (loop_owner is not la and contains_call(prog, la, stt, lambda c: attr_call(c, "_protocol", "authenticate"))):
                idx = i if idx is None else idx
        from ..retry import loop_budget, loop_env
        ctr = loop_budget(loop_owner, loop)
        if loop_owner is not la:
            # the counter lives in the helper: the caller passes its own budget parameter
            ctr = [p_ for p_ in la.params if p_ in ("retries",)] or ctr

        def classify(c):
            if attr_call(c, "_protocol", "authenticate"):
                return ("oracle", "handshake", ["TimeoutError", AUTHERR])
            return None

        def on_stmt(s):
            tg = s.targets if isinstance(s, ast.Assign) else []
            tg = [x for t in tg for x in (t.elts if isinstance(t, (ast.Tuple, ast.List)) else [t])]          # self._token, self._key = token, key
            evs = ["store:" + t.attr for t in tg if is_self_attr(t, "_token") or is_self_attr(t, "_key")]
            return evs or None
        pre_stores = [n for stt in la.node.body[:idx] for n in ast.walk(stt) if isinstance(n, ast.Assign) and any(is_self_attr(t, "_token") or is_self_attr(t, "_key") for t in n.targets)]
        ctx.ob("C06.b", la.qual, not pre_stores, "no credential store precedes the handshake loop", func=la.qual, file=file, node=pre_stores[0] if pre_stores else None,
               fail="credentials are cached before the handshake was attempted")
        for R in (1, 2, 3):
            ex = Explorer(prog, la, classify, {ctr[0]: R}, on_stmt=on_stmt)
            paths = ex.run(la.node.body[idx:], loop_env(la, loop, ctr[0], R) if loop_owner is la else {ctr[0]: R}, ())
            ctx.count("credential_paths", len(paths))
            for p in paths:
                tr = p.trace
                stores = [i for i, x in enumerate(tr) if x.startswith("store:")]
                if not stores:
                    continue
                okp = "handshake:ok" in tr[:stores[0]]
                ctx.ob("C06.b", la.qual, okp, f"R={R}: credentials stored only after a successful handshake [{' '.join(tr)}]", func=la.qual, file=file,
                       construct=f"credential store, budget {R}", fail=f"budget {R}: token/key are cached on a path without a successful handshake [{' '.join(tr)}]")
            succ = [p for p in paths if "handshake:ok" in p.trace and p.kind in ("normal", "return")]
            ctx.ob("C06.e", la.qual, all(any(x.startswith("store:_token") for x in p.trace) and any(x.startswith("store:_key") for x in p.trace) for p in succ) and bool(succ),
                   f"R={R}: a successful handshake caches token and key for re-authentication", func=la.qual, file=file, construct=f"credential caching, budget {R}",
                   fail=f"budget {R}: after a successful handshake the credentials are not cached (re-authentication after a reconnect cannot work)")
    # ---------------------------------------------------------------- C06.c only handshake requests are sent
    from ..helpers import term_lookup, with_helpers
    tlp = term_lookup(prog, pa)
    writes = [n for f_ in with_helpers(prog, pa) for n in ast.walk(f_.node) if isinstance(n, ast.Call) and isinstance(n.func, ast.Attribute) and n.func.attr == "write"]
    ctx.count("handshake_writes", len(writes))
    ctx.ob("C06.c", pa.qual, len(writes) == 1, "exactly one transport write in the protocol handshake", func=pa.qual, file=file, construct="write calls",
           fail=f"{len(writes)} write calls in the handshake")
    for w in writes:
        t0 = tlp(w.args[0]) if w.args else None
        pt = None
        for k in w.keywords:
            if k.arg == "packet_type":
                pt = tlp(k.value)
        hs = pt is not None and pt[0] == "enum" and pt[2] == "HANDSHAKE_REQUEST"
        ctx.ob("C06.c", pa.qual, hs, "the write uses packet_type=HANDSHAKE_REQUEST", func=pa.qual, file=file, node=w,
               fail="the handshake is sent with the default (encrypted data) packet type or another type")
        ctx.ob("C06.c", pa.qual, t0 is not None and strip(t0) == ("param", pa.params[1]), "the handshake payload is the configured token, unmodified", func=pa.qual, file=file, node=w,
               detail={"payload": show(t0)[:80] if t0 else None}, fail="the handshake request does not carry exactly the configured token")
    order = flush_before_write(prog, pa)
    ctx.ob("C06.c", pa.qual, order, "stale packets are flushed before the handshake request is written", func=pa.qual, file=file, construct="_flush() before write()",
           fail="the receive queue is not flushed on every path before the handshake request: a stale reply is taken for this handshake's reply (wrong session key)")
    fl = prog.lookup_method(pa.cls, "_flush") if pa.cls is not None else None
    if fl is not None:
        ctx.fn(fl.qual)
        drained, why = flush_drains(prog, fl)
        ctx.count("flush_loops")
        ctx.ob("C06.c", fl.qual, drained, f"_flush empties the receive queue ({why})", func=fl.qual, file=fl.module.rel, construct="_flush",
               fail=f"_flush does not empty the receive queue: {why} - a stale reply left behind is taken for the reply to this handshake (wrong session key)")
    lw = [n for n in ast.walk(la.node) if isinstance(n, ast.Call) and isinstance(n.func, ast.Attribute) and n.func.attr == "write"]
    ctx.ob("C06.c", la.qual, not lw, "LAN.authenticate performs no transport write of its own", func=la.qual, file=file, node=lw[0] if lw else None,
           fail="LAN.authenticate writes to the transport itself (something other than a handshake request is sent)")
    ls = summarize(prog, la)
    calls = [n for n in ast.walk(la.node) if isinstance(n, ast.Call) and attr_call(n, "_protocol", "authenticate")]
    for c in calls:
        tt = ls.ta.terms_at.get(c.args[0]) if c.args else None
        ct_ = ls.ta.terms_at.get(c)
        if ct_ is not None and ct_[0] == "call" and ct_[2] and (tt is None or tt[0] == "starred"):
            # authenticate(*credentials) / keyword spellings: the first argument of the call as the engine bound it
            tt = ct_[2][0] if ct_[1][0] != "func" else (ct_[2][1] if len(ct_[2]) > 1 else None)

        def leaves(x):
            x = strip(x)
            if x[0] == "ite":
                return leaves(x[2]) | leaves(x[3])
            return {x}
        lv = leaves(tt) if tt else set()
        good = True
        for x in lv:
            if x == ("attr", ("param", la.params[0]), "_token"):
                continue
            if x[0] == "call" and x[1][0] == "dyn" and x[1][1][0] == "localfunc" and len(x[2]) == 1 and strip(x[2][0]) == ("param", la.params[1]):
                continue
            if x == ("param", la.params[1]):
                continue
            if call_is(x, "bytes.fromhex") and len(x[2]) == 1 and strip(x[2][0]) == ("param", la.params[1]):
                continue
            good = False
        ctx.ob("C06.c", la.qual, good and bool(lv), "the token handed to the protocol is the cached or the supplied token (hex -> bytes only)", func=la.qual, file=file, node=c,
               detail={"token": show(tt)[:120] if tt else None}, fail=f"the token passed to the handshake is `{show(tt)[:100] if tt else None}`")
    # ---------------------------------------------------------------- C06.d
    R_, _ = make_raises(prog)
    da = ctx.fn("msmart.base_device.Device.authenticate")
    _ret, esc = R_.analyze(da, {}, self_cls=da.cls)
    bad = [e for e in esc if str(e) != "asyncio.CancelledError" and not prog.exc_is(str(e), AUTHERR)]
    ctx.count("boundaries")
    ctx.ob("C06.d", da.qual, not bad, "every peer- or network-caused failure of Device.authenticate is an AuthenticationError", func=da.qual, file=da.module.rel,
           construct="Device.authenticate", detail={"escapes": sorted({str(e) for e in esc})},
           fail=f"Device.authenticate can fail with {sorted({str(e) for e in bad})} " + "; ".join(f"{e.site['function'].split('.')[-1]}: {e.site['construct'][:50]}" for e in bad[:3]))
    # ... and the device-level call really performs the handshake with the credentials it was given: it awaits LAN.authenticate(token, key),
    # and every handler around that call raises (a swallowed failure reads as "authenticated" to Discover's byte-order loop)
    das = summarize(prog, da)
    lan_calls = [(n, t) for n, t in das.ta.terms_at.items() if isinstance(n, ast.Call) and meth_is(t, "authenticate") and strip(t[1][1]) == ("attr", ("param", da.params[0]), "_lan")]
    passed = bool(lan_calls) and all(len(t[2]) == 2 and [strip(x) for x in t[2]] == [("param", da.args[0]), ("param", da.args[1])] for _n, t in lan_calls) \
        and all(isinstance(getattr(n, "_parent_await", None), ast.Await) or any(isinstance(a_, ast.Await) and a_.value is n for a_ in ast.walk(da.node)) for n, _t in lan_calls)
    swallow = [h for t_ in ast.walk(da.node) if isinstance(t_, ast.Try) and any(any(c is n for c in ast.walk(b_)) for b_ in t_.body for n, _t in lan_calls)
               for h in t_.handlers if not any(isinstance(x, ast.Raise) for x in ast.walk(h))]
    ctx.ob("C06.d", da.qual, passed and not swallow, "Device.authenticate awaits LAN.authenticate with its own token and key; no handler swallows the failure", func=da.qual,
           file=da.module.rel, construct="await self._lan.authenticate(token, key)", node=swallow[0] if swallow else None,
           fail="Device.authenticate does not hand its credentials to an awaited LAN.authenticate, or swallows its failure: the device counts as authenticated without a handshake")
    # reply-content-caused failures at the LAN level (no environment raisers): must already be AuthenticationErrors
    from ..raises import Config, Raises
    from ..bindings import attr_types
    lan_c, dev_c = prog.cls(LAN), prog.cls("msmart.base_device.Device")
    R2 = Raises(prog, Config(env=False, receiver_types={(LAN, "_protocol"): attr_types(prog, lan_c, "_protocol"),
                                                        (dev_c.qual, "_lan"): attr_types(prog, dev_c, "_lan")},
                             nonnull_attrs={("msmart.lan._LanProtocol", "_transport")}))
    _ret, esc2 = R2.analyze(la, {}, self_cls=la.cls)
    bad2 = [e for e in esc2 if str(e) != "asyncio.CancelledError" and not prog.exc_is(str(e), AUTHERR)]
    ctx.count("boundaries")
    ctx.ob("C06.d", la.qual, not bad2, "every failure of LAN.authenticate caused by the *content* of the reply is an AuthenticationError", func=la.qual, file=file,
           construct="LAN.authenticate (reply-caused failures)", detail={"escapes": sorted({str(e) for e in esc2})},
           fail=f"a bad handshake reply makes LAN.authenticate fail with {sorted({str(e).split('.')[-1] for e in bad2})} instead of AuthenticationError: "
                + "; ".join(f"{e.site['function'].split('.')[-1]}: {e.site['construct'][:50]}" for e in bad2[:3]))
    # ---- C06.t5 the reply that is proved is the reply that arrived: how a handshake response is framed, dispatched (only while one is
    # pending) and cut out of its packet - all of it, `packet[8:]`, so that the length test above sees over-long replies - is C05's
    # subject; its obligations are re-run here as premises
    # ---- C06.e which credentials are offered: the caller's (hex text turned into bytes) when both are given, the stored ones otherwise -
    # a re-authentication inside send() passes none, the cloud hands out hex text
    ls_ = summarize(prog, la)
    cred_calls = [t for n, t in ls_.ta.terms_at.items() if isinstance(n, ast.Call) and isinstance(n.func, ast.Attribute) and n.func.attr == "authenticate"
                  and t is not None and t[0] == "call" and len(t[2]) == 2]
    ctx.count("credential_sites", len(cred_calls))
    if cred_calls and len(la.args) >= 2:
        from ..facts import simplify as _simp
        tok_, key_ = ("param", la.args[0]), ("param", la.args[1])
        selfp = ("param", la.params[0])

        def conv(x):
            return ("ite", ("call", ("ext", "isinstance"), (x, ("global", "str")), ()), ("call", ("ext", "bytes.fromhex"), (x,), ()), x)

        def same(a, b):
            return strip(a) == strip(b) or show(strip(a)) == show(strip(b))
        okc = True
        why = ""
        for t in cred_calls:
            for facts_ in ([("cmp", "is", tok_, ("const", None))], [("cmp", "is", key_, ("const", None))]):
                got = [strip(_simp(x, facts_)) for x in t[2]]
                if got != [("attr", selfp, "_token"), ("attr", selfp, "_key")]:
                    okc, why = False, f"without arguments it offers `{show(got[0])[:40]}`, `{show(got[1])[:40]}` instead of the stored token and key"
            both = [("cmp", "is not", tok_, ("const", None)), ("cmp", "is not", key_, ("const", None))]
            got = [strip(_simp(x, both)) for x in t[2]]
            if not (same(got[0], conv(tok_)) and same(got[1], conv(key_))):
                okc, why = False, why or f"with arguments it offers `{show(got[0])[:50]}`, `{show(got[1])[:50]}` instead of the given token and key as bytes"
        ctx.ob("C06.e", la.qual, okc, "the handshake offers the given credentials (hex text as bytes), or the stored ones when none are given", func=la.qual, file=file,
               construct="self._protocol.authenticate(token, key)", fail=f"LAN.authenticate offers the wrong credentials: {why}")
    from . import c04, c05, c07
    ctx.import_rules(c05, "t5")
    # ... it reaches the handshake through the V3 stream reassembly (a reply that is never queued surfaces as a timeout, not as an
    # AuthenticationError) and is proved against the session of *this* connection (fresh protocol object per connection, session attributes
    # written by nobody else): C04's and C07's obligations
    ctx.import_rules(c04, "t4")
    ctx.import_rules(c07, "t7")
    ctx.require_min("key_returns", 1)
    ctx.require_min("proofs", 1)
    ctx.require_min("state_stores", 4)
    ctx.require_min("failure_paths", 1)
    ctx.require_min("credential_paths", 6)
    ctx.require_min("handshake_writes", 1)
    ctx.require_min("boundaries", 2)
