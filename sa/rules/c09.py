"""C09 - transport containment: peer bytes cause only protocol errors or timeouts.

E4 with taint source = the `data` parameter of both data_received implementations (hence every queue item and
everything read() returns), environment raisers included.  Boundaries and allowed sets:
   LAN.send, LAN.authenticate          -> {ProtocolError (incl. AuthenticationError), TimeoutError}
   Device.authenticate                 -> {AuthenticationError}
   Device._send_command                -> {} (both classes are swallowed into an empty response list)
"""
from __future__ import annotations

import ast

from ..bindings import attr_types
from ..model import is_self_attr
from ..raises import Config, Raises, Val
from ..terms import summarize

PROTO = "msmart.lan.ProtocolError"
AUTH = "msmart.lan.AuthenticationError"
BOUNDS = [
    ("msmart.lan.LAN.send", [PROTO, "TimeoutError"]),
    ("msmart.lan.LAN.authenticate", [PROTO, "TimeoutError"]),
    ("msmart.base_device.Device.authenticate", [AUTH]),
    ("msmart.base_device.Device._send_command", []),
]


def transport_invariant(prog, ctx=None) -> bool:
    """`_LanProtocol._transport is not None` for every protocol object LAN can reach.

    (i)  the only non-None store to LAN._protocol takes the protocol out of the awaited create_connection (binding table);
    (ii) asyncio calls connection_made before create_connection returns (library fact);
    (iii) connection_made stores its (non-None) transport parameter into self._transport;
    (iv) no other method stores to _transport except __init__ (None).
    """
    proto = prog.cls("msmart.lan._LanProtocol")
    ok = True
    stores = []
    for k in [proto] + [c for c in prog.subclasses(proto) if c is not proto]:
        for f in k.methods.values():
            for n in ast.walk(f.node):
                if isinstance(n, ast.Assign) and any(is_self_attr(t, "_transport") for t in n.targets):
                    stores.append((f, n))
    cm = [(f, n) for f, n in stores if f.name == "connection_made"]
    other = [(f, n) for f, n in stores if f.name not in ("connection_made", "__init__")]
    init_none = all(isinstance(n.value, ast.Constant) and n.value.value is None for f, n in stores if f.name == "__init__")
    cm_ok = False
    for f, n in cm:
        t = summarize(prog, f).term(n.value)
        from ..facts import strip
        cm_ok = strip(t) == ("param", f.params[1]) if len(f.params) > 1 else False
    # (i) the protocol LAN keeps has been through connection_made: nothing is stored in LAN._protocol on a path on which the connect fails (a
    # protocol created up front and stored before the awaited create_connection survives a refused / timed-out connect without a transport)
    con = prog.funcs.get("msmart.lan.LAN._connect")
    early = False
    if con is not None:
        for _pc, _exc, _node, rst in summarize(prog, con).raises:
            if f"{con.params[0]}._protocol" in rst.env:
                early = True
    ok = bool(cm) and cm_ok and not other and init_none and not early
    if ctx is not None:
        ctx.ob("C09.inv", proto.qual, ok, "protocol objects reachable from LAN always have a transport: only connection_made stores "
               "its transport argument, __init__ stores None, nothing else writes _transport",
               fail=("LAN._connect stores the protocol before the connection is established: after a failed connect LAN holds a protocol without a transport and "
                     "the `raise IOError()` in disconnect() escapes the next send() / authenticate()") if (bool(cm) and cm_ok and not other and init_none) else
               "_transport may be None (or replaced) on a protocol LAN uses: `raise IOError()` in disconnect()/write() becomes reachable")
    return ok


def make(prog, ctx=None):
    lan = prog.cls("msmart.lan.LAN")
    dev = prog.cls("msmart.base_device.Device")
    rt = {(lan.qual, "_protocol"): attr_types(prog, lan, "_protocol"), (dev.qual, "_lan"): attr_types(prog, dev, "_lan")}
    if ctx is not None:
        ctx.extra["binding_table"] = {f"{k[0]}.{k[1]}": v for k, v in rt.items()}
    nn = {("msmart.lan._LanProtocol", "_transport")} if transport_invariant(prog, ctx) else set()
    return Raises(prog, Config(env=True, receiver_types=rt, nonnull_attrs=nn)), rt


def run(ctx):
    prog = ctx.prog
    ctx.explanation = ("interprocedural may-raise analysis from the transport boundaries down through read(), _process_packet, the "
                       "V3 decoders, _get_local_key and _Packet.decode; source = bytes handed to data_received (queue items, with the "
                       "V3 producer's length invariant derived from data_received itself); environment raisers (timeouts, connect "
                       "failures, empty queue) included; escape set compared with the allowed set per boundary")
    ctx.trusted = ["library model (sa/libmodel.py): pycryptodome decrypt/unpad raise ValueError, struct.error, ...",
                   "CPython exception hierarchy (TimeoutError ⊂ OSError, asyncio.TimeoutError is TimeoutError)"]
    R, rt = make(prog, ctx)
    want = {"msmart.lan._LanProtocol", "msmart.lan._LanProtocolV3"}
    ctx.ob("C09.bind", "msmart.lan.LAN._protocol", set(rt[("msmart.lan.LAN", "_protocol")]) == want,
           "LAN._protocol holds exactly the two protocol classes (binding table verified from the stores)",
           fail=f"LAN._protocol may hold {rt[('msmart.lan.LAN', '_protocol')]}")
    seen = set()
    for q, allowed in BOUNDS:
        fn = ctx.fn(q)
        args = {}
        _ret, esc = R.analyze(fn, args, self_cls=fn.cls)
        ctx.count("boundaries")
        bad = [e for e in esc if str(e) != "asyncio.CancelledError" and not any(prog.exc_is(str(e), a) for a in allowed)]
        names = ", ".join(a.split(".")[-1] for a in allowed) or "nothing"
        if not bad:
            ctx.ob("C09.a", q, True, f"every peer- or environment-caused exception escaping {q.split('.')[-1]}() is one of: {names}")
            ctx.sample({"boundary": q, "allowed": allowed, "escaping": sorted({str(e) for e in esc})})
        for e in bad:
            k = (str(e), e.site["function"], e.site["construct"])
            if k in seen:
                continue
            seen.add(k)
            ctx.ob("C09.a", e.site["function"], False, "", func=e.site["function"], file=e.site["file"],
                   construct=f"{e.site['construct']} -> {e}",
                   fail=f"{e} can escape {q.split('.')[-1]}() (allowed: {names}) [{e.why}] via "
                        f"{' -> '.join(x.split('.')[-1] for x in e.chain)}",
                   detail={"exception": str(e), "site": e.site, "chain": list(e.chain), "why": e.why, "boundary": q})
    for key, rec in sorted(R.sites_examined.items()):
        ctx.count("raiser_sites")
        flagged = any(k[1] == rec["function"] and k[2][:120] == rec["construct"] and k[0] == rec["exc"] for k in seen)
        ctx.obligations.append({"rule": "C09.a/site", "site": rec["function"], "verdict": "VIOLATED" if flagged else "holds",
                                "what": (f"`{rec['construct']}` cannot raise {rec['exc']}: {rec['fact']}" if rec["verdict"] == "proved-safe"
                                         else f"`{rec['construct']}` may raise {rec['exc']} ({rec['fact']}); mapped by a handler below the boundary")})
        if rec["verdict"] == "proved-safe":
            ctx.sample({"site": rec["function"], "construct": rec["construct"], "exc": rec["exc"], "proved_by": rec["fact"]})
    for (c, a), v in R.queue_cache.items():
        ctx.extra.setdefault("queue_items", {})[f"{c}.{a}"] = repr(v)
        ctx.count("taint_sources")
    ctx.extra["call_resolution"] = {"resolved": R.calls_resolved, "library": R.calls_library, "unresolved": R.calls_unresolved}
    for a in R.assumptions:
        ctx.assume(a)
    for q in sorted(R.functions_seen):
        if q not in ctx.analysed["functions"]:
            ctx.analysed["functions"].append(q)
    ctx.require_min("boundaries", 4)
    ctx.require_min("taint_sources", 2)
    ctx.require_min("raiser_sites", 6)
