"""C07 - V3 session discipline: no data before handshake, right key, bounded counter.

Histories are arbitrary, but every clause is an invariant re-established by each call, so it is a typestate question:

  C07.a  no data before handshake: in LAN.send every data write is dominated by "protocol is not V3, or it is
         authenticated, or self.authenticate() completed" (must-pass-through); write() with the default
         (ENCRYPTED_REQUEST) type has exactly one call site (LAN.send) and HANDSHAKE_REQUEST exactly one (C06.c);
         _encode_encrypted_request raises ProtocolError when _local_key is None before touching the key
  C07.b  the key belongs to the connection: _local_key / _packet_id / _buffer are per-instance, set in __init__;
         _connect always constructs a *new* protocol through the factory and stores it; _disconnect drops it; no class-level copy
  C07.c  counter: after each write _packet_id' = (_packet_id + 1) & M with M = 2^k − 1, k <= 16 (so to_bytes(2) never
         overflows and the wrap is to zero); initial 0; one increment per successful write; both encoders serialise that attribute
  C07.d  lifetimes: `authenticated` is true only with key and expiry set and now <= expiry; expiry = now + 12 h constant;
         _alive is false when now > _connection_expiration; _connect sets the expiration when a lifetime is configured
"""
from __future__ import annotations

import ast
import datetime

from ..absint import EventAnalysis, run_events
from ..bindings import attr_types
from ..facts import atoms, call_is, meth_is, strip
from ..model import AnalysisError, is_self_attr, norm
from ..terms import is_const, show, subterms, summarize
from .c06 import external_stores, stores_to
from .c08 import attr_call

V3 = "msmart.lan._LanProtocolV3"
V2 = "msmart.lan._LanProtocol"
LAN = "msmart.lan.LAN"
PROTO = "msmart.lan.ProtocolError"


def run(ctx):
    prog = ctx.prog
    ctx.explanation = ("typestate as must-pass-through on LAN.send; who-may-call inventory of protocol writes; value-flow terms for the "
                       "counter update, the key guard, the lifetime predicates and the connection factory; constant folding of the lifetimes")
    ctx.trusted = ["wall-clock behaviour itself is not decided (datetime.now is a leaf)", "asyncio calls the protocol factory once per connection"]
    send = ctx.fn(f"{LAN}.send")
    file = send.module.rel
    ss = summarize(prog, send)
    sp = send.params[0]
    # ---------------------------------------------------------------- C07.a
    def is_auth_test(t):
        """`isinstance(self._protocol, V3) and not self._protocol.authenticated` (any operand order)"""
        t = strip(t)
        if t[0] == "bool" and t[1] == "and":
            has_inst = any(call_is(x, "isinstance") and x[2][1] == ("global", V3) for x in t[2])
            has_na = any(x[0] == "un" and x[1] == "not" and strip(x[2]) == ("attr", ("attr", ("param", sp), "_protocol"), "authenticated") for x in t[2])
            return has_inst and has_na and len(t[2]) == 2
        if t[0] == "un" and t[1] == "not" and strip(t[2]) == ("attr", ("attr", ("param", sp), "_protocol"), "authenticated"):
            return True
        if call_is(t, "isinstance") and strip(t[2][0]) == ("attr", ("param", sp), "_protocol") and t[2][1] == ("global", V3):
            return True          # false side: not a V3 connection, nothing to authenticate
        return False

    from ..helpers import term_lookup, with_helpers
    tl = term_lookup(prog, with_helpers(prog, send))

    def settles_auth(t, truth):
        """every way the test can come out `truth` says: not a V3 connection, or authenticated"""
        from ..facts import alternatives
        authd = ("attr", ("attr", ("param", sp), "_protocol"), "authenticated")

        def says(a):
            a = strip(a)
            if a == authd:
                return True
            if a[0] == "un" and a[1] == "not" and call_is(strip(a[2]), "isinstance") and strip(strip(a[2])[2][0]) == ("attr", ("param", sp), "_protocol") \
                    and strip(a[2])[2][1] == ("global", V3):
                return True
            return False
        alts = alternatives(strip(t), truth)
        return bool(alts) and all(any(says(a) for a in alt) for alt in alts)

    def on_branch(test, truth, st):
        if getattr(ea, "in_assert", False):
            return []          # an `assert authenticated` is not the handshake: it is compiled out under -O and, when it does fire, the exchange dies
        t = tl(test)
        if t is not None and ((is_auth_test(t) and truth is False) or settles_auth(t, truth)):
            return ["auth_ok"]
        return []

    def on_stmt(node, st):
        if isinstance(node, (ast.Expr, ast.Assign)) and any(isinstance(c, ast.Call) and attr_call(c, "authenticate") for c in ast.walk(node)):
            return ["auth_ok"]
        return []
    ea = EventAnalysis(must=True, on_stmt=on_stmt, on_branch=on_branch)
    run_events(prog, send, ea)
    wstmts = [n for n in ea.at if isinstance(n, ast.stmt) and not isinstance(n, (ast.While, ast.If, ast.Try, ast.For, ast.AsyncFor, ast.With))
              and any(isinstance(c, ast.Call) and attr_call(c, "_protocol", "write") for c in ast.walk(n))]
    for n in wstmts:
        ctx.count("data_writes")
        ctx.ob("C07.a", send.qual, "auth_ok" in ea.at[n], "the data write is dominated by `not V3 or authenticated` / a completed self.authenticate()",
               func=send.qual, file=file, node=n,
               fail="send() can write an encrypted data packet on a V3 connection that has not completed a handshake")
    # who may call write
    data_sites, hs_sites, other = [], [], []
    for f in prog.all_functions():
        if f.module.name != "msmart.lan":
            for n in ast.walk(f.node):
                if isinstance(n, ast.Call) and isinstance(n.func, ast.Attribute) and n.func.attr == "write" and isinstance(n.func.value, ast.Attribute) \
                        and n.func.value.attr in ("_protocol",):
                    other.append((f, n))
            continue
        for n in ast.walk(f.node):
            if not (isinstance(n, ast.Call) and isinstance(n.func, ast.Attribute) and n.func.attr == "write"):
                continue
            recv = n.func.value
            on_proto = (isinstance(recv, ast.Attribute) and recv.attr == "_protocol") or \
                (isinstance(recv, ast.Name) and recv.id == "self" and f.cls is not None and f.cls.qual in (V2, V3)) or \
                (isinstance(recv, ast.Call) and isinstance(recv.func, ast.Name) and recv.func.id == "super" and f.cls is not None and f.cls.qual in (V2, V3))
            if not on_proto:
                continue
            if isinstance(recv, ast.Call):          # super().write(packet) inside the protocol's own write: the framing layer
                continue
            pt = [k for k in n.keywords if k.arg == "packet_type"]
            if pt and norm(pt[0].value).endswith("HANDSHAKE_REQUEST"):
                hs_sites.append((f, n))
            elif pt:
                other.append((f, n))
            else:
                data_sites.append((f, n))
    from ..helpers import known_owners

    def owners(sites):
        out = set()
        for f, _n in sites:
            if prog.is_known(f.qual):
                out.add(f.qual)
            else:
                out |= set(known_owners(prog, f)) or {f.qual}      # a helper extracted by a refactoring belongs to its callers
        return sorted(out)
    d_own, h_own, o_own = owners(data_sites), owners(hs_sites), owners(other)
    ctx.ob("C07.a", LAN, d_own == [send.qual], "the only data (default-type) write site is LAN.send", func=LAN, file=file,
           construct="data write sites", detail={"sites": d_own},
           fail=f"data packets are written from {d_own} (only LAN.send checks the handshake first)")
    ctx.ob("C07.a", LAN, h_own == [f"{V3}.authenticate"] and not o_own, "the only handshake write site is _LanProtocolV3.authenticate", func=LAN,
           file=file, construct="handshake write sites", detail={"sites": h_own, "other": o_own},
           fail=f"unexpected transport write sites: handshake {h_own}, other {o_own}")
    ctx.count("handshake_writes", len(hs_sites))
    enc = ctx.fn(f"{V3}._encode_encrypted_request")
    es = summarize(prog, enc)
    keyattr = ("attr", ("param", enc.params[0]), "_local_key")
    guard = any(prog.exc_is(exc, PROTO) and any(f == ("cmp", "is", keyattr, ("const", None)) for f in atoms(pc)) for pc, exc, node, _ in es.raises)
    rets_ok = all(any(f == ("cmp", "is not", keyattr, ("const", None)) for f in atoms(pc)) for pc, t, node, _ in es.returns if node is not None)
    ctx.ob("C07.a", enc.qual, guard and rets_ok, "_encode_encrypted_request raises ProtocolError when no key has been negotiated; every encoded packet had a key",
           func=enc.qual, file=file, construct="key guard", fail="an encrypted request can be built without a negotiated key (or the refusal is not a ProtocolError)")
    # ---------------------------------------------------------------- C07.b
    v3 = prog.cls(V3)
    ini = v3.methods.get("__init__")
    from ..ctor import init_attrs
    ia = init_attrs(prog, v3)        # attr -> value after _LanProtocolV3() (own initialiser and the super().__init__ chain)
    for attr, init in (("_local_key", None), ("_packet_id", 0), ("_buffer", "bytearray")):
        ctx.count("session_attrs")
        class_level = any(attr in k.attrs for k in prog.mro(v3))
        v = ia.get(attr)
        good_init = v is not None
        if good_init and init is None:
            good_init = v == ("const", None)
        elif good_init and init == 0:
            good_init = v == ("const", 0)
        elif good_init:
            good_init = v[0] == "call" and v[1] == ("ext", "bytearray") and (not v[2] or v[2] in ((("const", 0),), (("const", b""),))) or v == ("const", b"")
        ctx.ob("C07.b", V3, good_init and not class_level, f"{attr} is per-connection state initialised in __init__ ({'None' if init is None else init})", func=V3, file=file,
               construct=f"{attr} initialisation", detail={"value_after_init": show(v) if v else None},
               fail=f"{attr} is not fresh per protocol instance (class-level or not reset in __init__): a new connection inherits the old session")
    con = ctx.fn(f"{LAN}._connect")
    cs = summarize(prog, con)
    try:
        types = attr_types(prog, prog.cls(LAN), "_protocol")
    except AnalysisError as e:
        types = []
        ctx.ob("C07.b", con.qual, False, "", func=con.qual, file=file, construct="self._protocol store",
               fail=f"the protocol stored by LAN is not a freshly constructed _LanProtocol / _LanProtocolV3 ({e})")
    fresh = False
    finals = [strip(rst.env.get(f"{con.params[0]}._protocol", ("top", "not stored"))) for _pc, _t, n_, rst in cs.returns]

    def class_valued(x):
        x = strip(x)
        if x[0] == "ite":
            return class_valued(x[2]) and class_valued(x[3])
        return x[0] == "global" and x[1] in prog.classes

    def fresh_value(t):
        # element 1 of the awaited create_connection(factory, ...) whose factory *constructs* a protocol: a lambda / local function
        # calling a class, or the class itself
        if not (t[0] == "item" and t[2] == 1):
            return False
        cc = [x for x in subterms(t) if x[0] == "call" and x[1][0] == "meth" and x[1][2] == "create_connection"]
        if len(cc) != 1 or not cc[0][2]:
            return False
        fac = strip(cc[0][2][0])
        if fac[0] == "lambda":
            return fac[2][0] == "call" and fac[2][1][0] in ("dyn", "func") and (fac[2][1][0] == "func" or class_valued(fac[2][1][1]))
        return class_valued(fac)
    fresh = bool(finals) and all(fresh_value(t) for t in finals)
    ctx.ob("C07.b", con.qual, fresh and set(types) == {V2, V3}, "_connect stores the protocol object newly constructed by the connection factory",
           func=con.qual, file=file, construct="self._protocol = protocol", detail={"classes": types},
           fail="_connect can store a protocol object that was not freshly constructed for this connection (old key / counter / buffer survive a reconnect)")
    # the class the factory constructs, as a gated term: V3 exactly when the configured version is 3 (whatever the local is called, wherever
    # the connection is opened)
    from ..facts import simplify
    sels = {x for t_ in finals for x in subterms(t_) if x[0] == "ite" and class_valued(x)}
    sels = {x for x in sels if not any(x is not y and any(z == x for z in subterms(y)) for y in sels)}          # outermost only
    pc_term_ = next(iter(sels)) if len(sels) == 1 else None
    ver = ("attr", ("param", con.params[0]), "_protocol_version")
    sel_ok = pc_term_ is not None and simplify(pc_term_, {("cmp", "==", ver, ("const", 3))}) == ("global", V3) and \
        simplify(pc_term_, {("cmp", "!=", ver, ("const", 3))}) == ("global", V2)
    ctx.ob("C07.b", con.qual, sel_ok, "protocol class = V3 exactly when _protocol_version == 3", func=con.qual, file=file, construct="protocol_class selection",
           detail={"term": show(pc_term_) if pc_term_ else None}, fail="the protocol class selection changed")
    from .c06 import flush_before_write
    pa = ctx.fn(f"{V3}.authenticate")
    ctx.ob("C07.b", pa.qual, flush_before_write(prog, pa), "the session key comes from the reply to *this* handshake: the queue is flushed on every path before the request",
           func=pa.qual, file=file, construct="_flush() before write()",
           fail="a stale reply of an earlier handshake can be read as this handshake's reply: data is then not encrypted under the key of the latest handshake")
    # ---------------------------------------------------------------- C07.c counter
    w = ctx.fn(f"{V3}.write")
    ws = summarize(prog, w)
    wp = w.params[0]
    pid = ("attr", ("param", wp), "_packet_id")
    n_ret = 0
    for pc, t, node, rst in ws.returns:
        n_ret += 1
        v = rst.env.get(f"{wp}._packet_id")
        ok = False
        k = None
        if v is not None:
            vv = strip(v)
            if vv[0] == "bin" and vv[1] in ("&", "%") and is_const(vv[3]) and isinstance(vv[3][1], int):
                m = vv[3][1]
                inc = strip(vv[2])
                step = inc == ("bin", "+", pid, ("const", 1)) or inc == ("bin", "+", ("const", 1), pid)
                if vv[1] == "&":
                    k = (m + 1).bit_length() - 1 if m >= 0 and (m & (m + 1)) == 0 else None
                else:
                    k = m.bit_length() - 1 if m > 0 and (m & (m - 1)) == 0 else None
                ok = step and k is not None and 1 <= k <= 16
        ctx.count("counter_updates")
        ctx.ob("C07.c", w.qual, ok, f"after a write _packet_id' = (_packet_id + 1) mod 2^{k} (k <= 16: fits the 2-byte field, wraps to zero)", func=w.qual, file=file,
               construct="self._packet_id update", detail={"update": show(v) if v else None},
               fail=f"the packet counter update is `{show(v)[:80] if v else 'missing'}`: not +1 modulo 2^k with k <= 16 "
                    "(to_bytes(2) overflows in long sessions, or counters do not advance by one)")
    for pc, exc, node, rst in ws.raises:
        ctx.ob("C07.c", w.qual, f"{wp}._packet_id" not in rst.env, "a failed write does not advance the counter", func=w.qual, file=file, node=node,
               fail="the counter advances although the write failed")
    # ... and nothing else moves it: the counter belongs to the connection, not to the handshake - a store anywhere but the constructor and
    # write() (a "new session restarts the count" reset in authenticate, a rewind on an error path) breaks previous + 1 on that connection
    from .c06 import store_owners
    pst = stores_to(prog, V3, "_packet_id")
    owners = store_owners(prog, pst)
    extra = [q for q in owners if q not in (f"{V3}.__init__", w.qual)]
    ctx.count("counter_store_owners", len(owners))
    ctx.ob("C07.c", V3, not extra, "the packet counter is stored only by the constructor (0) and by write() (+1)", func=V3, file=file, construct="stores to self._packet_id",
           node=next((n for f, n in pst if f.qual in extra or (not prog.is_known(f.qual) and f.qual not in (f"{V3}.__init__", w.qual))), None),
           detail={"owners": owners},
           fail=f"the packet counter is also stored by {', '.join(q.split('.')[-1] for q in extra)}: on a connection that sees a second handshake (expiry, explicit "
                "re-authentication, a retried handshake) the next packet's counter is not the previous one plus one")
    enc_terms = {x for t in ws.ta.terms_at.values() for x in subterms(t)
                 if call_is(x, f"{V3}._encode_encrypted_request", f"{V3}._encode_handshake_request")}
    for x in sorted(enc_terms, key=show):
        name = x[1][1].split(".")[-1]
        t = x[2][1] if len(x[2]) > 1 else dict(x[3]).get("packet_id")
        ctx.count("encoder_calls")
        ctx.ob("C07.c", w.qual, t is not None and strip(t) == pid, f"{name} serialises self._packet_id", func=w.qual, file=file, construct=f"{name}(...)",
               fail=f"{name} is given `{show(t) if t else None}` instead of the connection's packet counter")
    # ... and the handshake request carries it where the data packets do: two bytes, big-endian, right behind the 6-byte header (the data
    # packets' counter field is C05's layout obligation, imported by C01 / C06)
    from ..seq import Field, Layouts, flatten
    from ..affine import Lin
    hq = ctx.fn(f"{V3}._encode_handshake_request")
    hs = summarize(prog, hq)
    Lh = Layouts(prog)
    for _pc, t_, n_, _st in hs.returns:
        if n_ is None:
            continue
        try:
            lay = flatten(Lh.layout(t_))
        except AnalysisError:
            lay = []
        off, hit = Lin(0), None
        for seg in lay:
            if isinstance(seg, Field) and strip(seg.term) == ("param", hq.params[1]):
                hit = (off, seg)
            off = off + seg.length() if hasattr(seg, "length") else off
        ok_h = hit is not None and hit[1].n == Lin(2) and hit[1].order == "big"
        ctx.count("handshake_encoder_returns")
        ctx.ob("C07.c", hq.qual, ok_h, "the handshake request carries the counter as two big-endian bytes", func=hq.qual, file=file, node=n_,
               fail="the handshake request does not serialise the counter as 2 big-endian bytes: after the first packet the sequence previous + 1 is broken on the wire")
    # the expiry (and the key) only change once the reply has been verified: otherwise a failed re-handshake re-arms the old session
    from .c06 import stores_after_proof
    ctx.count("stores_after_proof", stores_after_proof(ctx, "C07.d", prog))
    # ---------------------------------------------------------------- C07.d lifetimes
    au = ctx.fn(f"{V3}.authenticated")
    aus = summarize(prog, au)
    ap = au.params[0]
    from ..facts import pc_implies, true_facts
    expa = ("attr", ("param", ap), "_local_key_expiration")

    def is_now(x):
        return call_is(strip(x), "datetime.datetime.now")
    tfa = true_facts(aus)
    ctx.count("lifetimes")
    ok_auth = bool(tfa)
    for fs in tfa:
        key_nn = any(f == ("cmp", "is not", ("attr", ("param", ap), "_local_key"), ("const", None)) for f in fs)
        exp_nn = any(f == ("cmp", "is not", expa, ("const", None)) for f in fs)
        fresh_ = any(f[0] == "cmp" and ((f[1] in ("<=", "<") and is_now(f[2]) and strip(f[3]) == expa) or (f[1] in (">=", ">") and is_now(f[3]) and strip(f[2]) == expa)) for f in fs)
        ok_auth = ok_auth and key_nn and exp_nn and fresh_
    ctx.ob("C07.d", au.qual, ok_auth, "`authenticated` is true only with key and expiry set and the expiry not passed", func=au.qual, file=file,
           construct="authenticated", detail={"facts": [[show(f)[:80] for f in fs] for fs in tfa]},
           fail="`authenticated` can be true without a key / expiry, or after the expiry passed (comparison flipped or missing)")
    exp = prog.fold_or_none(v3.attrs.get("AUTHENTICATION_EXPIRATION"), prog.module("msmart.lan"), v3)
    ctx.ob("C07.d", V3, exp == datetime.timedelta(hours=12), "AUTHENTICATION_EXPIRATION folds to 12 h", func=V3, file=file, construct="AUTHENTICATION_EXPIRATION",
           fail=f"authentication lifetime is {exp}, not 12 h")
    al = ctx.fn(f"{LAN}._alive")
    als = summarize(prog, al)
    lp = al.params[0]
    ce = ("attr", ("param", lp), "_connection_expiration")
    # every way _alive can be true implies: no expiration configured, or now <= expiration
    def fresh_or_unset(a):
        a = strip(a)
        if a[0] == "cmp" and ((a[1] in ("<=", "<") and is_now(a[2]) and strip(a[3]) == ce) or (a[1] in (">=", ">") and is_now(a[3]) and strip(a[2]) == ce)):
            return True
        if a[0] == "un" and a[1] == "not" and strip(a[2]) == ce:
            return True
        if a[0] == "cmp" and a[1] == "is" and strip(a[2]) == ce and a[3] == ("const", None):
            return True
        return False
    expired_false = true_ok = False
    trues = [(pc, t) for pc, t, node, _st in als.returns if node is not None and not (is_const(t) and not t[1])]
    true_ok = bool(trues) and all(pc_implies(tuple(pc) + (() if is_const(t) else ((t, True),)), fresh_or_unset) for pc, t in trues)
    if not true_ok and trues:
        tfs = true_facts(als)          # per way of returning true (results assembled in a flag)
        true_ok = bool(tfs) and all(any(fresh_or_unset(a) for a in fs) for fs in tfs)
    expired_false = true_ok
    ctx.count("lifetimes")
    ctx.ob("C07.d", al.qual, expired_false and true_ok, "_alive is false once now > _connection_expiration (elapsed lifetime => reconnect)", func=al.qual, file=file,
           construct="connection expiry test", fail="_alive does not turn false when the configured connection lifetime has elapsed (comparison flipped or missing)")
    setexp = None
    for pc, t, node, rst in cs.returns:
        setexp = rst.env.get(f"{con.params[0]}._connection_expiration")
    se_ok = setexp is not None and any(x[0] == "bin" and x[1] == "+" and any(call_is(y, "datetime.datetime.now") for y in subterms(x)) and
                                       any(strip(y) == ("attr", ("param", con.params[0]), "_max_connection_lifetime") for y in subterms(x)) for x in subterms(setexp))
    ctx.ob("C07.d", con.qual, se_ok, "_connect sets _connection_expiration = now + max_connection_lifetime when configured", func=con.qual, file=file,
           construct="self._connection_expiration = ...", detail={"stored": show(setexp)[:120] if setexp else None},
           fail="_connect does not arm the connection lifetime")
    # ... in the atomic section that stores the new protocol: a cancellation between the two (the caller's timeout lands in an await added
    # there) leaves a connection in use whose configured lifetime is never enforced - or, worse, enforced against the previous connection's expiry
    from ..atomic import sections, stores_self_attr
    sec = sections(prog, con, lambda n: stores_self_attr(n, ("_protocol",)), lambda n: stores_self_attr(n, ("_connection_expiration",)))
    ctx.count("lifetime_arming_sites", len(sec))
    for n_, dirty in sec.items():
        ctx.ob("C07.d", con.qual, not dirty, "the connection lifetime is armed in the atomic section that stores the new connection", func=con.qual, file=file, node=n_,
               detail={"suspension_points": dirty},
               fail=f"`{norm(n_)[:50]}` runs only after `{dirty[0] if dirty else ''}`: a cancellation there leaves the new connection with the previous "
                    "connection's expiry (or none), so the configured lifetime does not bound it")
    from ..shared import check as shared_check
    shared_check(ctx, "C07.b", [prog.cls(V2), prog.cls(V3), prog.cls(LAN)], "the protocol and connection classes")
    # ---- C07.e one exchange at a time per connection: the device layer awaits its sends one after another.  Two sends running concurrently on
    # one LAN object each find the session expired, each write a handshake request, and the client and the device end up with different keys.
    dev = prog.cls("msmart.base_device.Device")
    conc = []
    for k_ in [dev] + [c_ for c_ in prog.subclasses(dev) if c_ is not dev]:
        for m_ in k_.methods.values():
            for n_ in ast.walk(m_.node):
                if isinstance(n_, ast.Call) and norm(n_.func).split(".")[-1] in ("gather", "create_task", "ensure_future", "wait", "as_completed", "run_coroutine_threadsafe"):
                    inner_calls = [c_ for a_ in list(n_.args) + [kw.value for kw in n_.keywords] for c_ in ast.walk(a_)
                                   if isinstance(c_, ast.Call) and isinstance(c_.func, ast.Attribute) and isinstance(c_.func.value, ast.Name) and m_.params
                                   and c_.func.value.id == m_.params[0] and (c_.func.attr.startswith("_send_command") or c_.func.attr in ("refresh", "apply", "get_capabilities", "toggle_display", "authenticate"))]
                    if inner_calls:
                        conc.append((m_, n_))
    ctx.count("concurrency_scans")
    ctx.ob("C07.e", dev.qual, not conc, "device operations await their exchanges one at a time (no gather / task over sends on one connection)", func=conc[0][0].qual if conc else dev.qual,
           file=(conc[0][0] if conc else dev.methods["_send_command"]).module.rel, node=conc[0][1] if conc else None, construct="asyncio.gather over sends",
           fail=(f"{conc[0][0].qual} runs several exchanges concurrently on one connection (`{norm(conc[0][1])[:70]}`): with an expired session each of them starts its own "
                 "handshake and the data packets that follow are encrypted under a key the device has already replaced") if conc else "")
    # the session a data packet is encrypted under is the one the handshake established: who stores key / expiry, and when (C06's obligations)
    from . import c06
    ctx.import_rules(c06, "t6")
    ctx.require_min("data_writes", 1)
    ctx.require_min("handshake_writes", 1)
    ctx.require_min("session_attrs", 3)
    ctx.require_min("counter_updates", 1)
    ctx.require_min("encoder_calls", 2)
    ctx.require_min("lifetimes", 2)
