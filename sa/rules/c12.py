"""C12 - every emitted command is a well-formed, device-acceptable frame.

  C12.a  frame layout (byte-sequence domain): AA ‖ len ‖ type ‖ 0×5 ‖ version ‖ frame-type ‖ body ‖ chk with
         len = |frame| − 1 (affine equality); device type folds to 0xAC for every Command; chk = two's complement sum
         over frame[1:] before the append = [1:-1] of the result (the range Frame.validate checks)
  C12.b  body tail: body = data ‖ id ‖ crc8(data ‖ id); exactly one _next_message_id() per tobytes
  C12.c  every command class ends in the base framing (every return of every tobytes override is super().tobytes(payload));
         frame type per class equals the documented one (QUERY 0x03 for reads and the display toggle, CONTROL 0x02 for writes)
  C12.d  message id: counter' = counter + 1, emitted & 0xFF (advances by one modulo 256 forever, never bytes([256]))
  C12.e  CRC: folded _CRC8_854_TABLE = table generated from the Dallas/Maxim polynomial = table in the vendor Lua;
         calculate() is the table walk t[(crc ^ m) & 0xFF] from 0
  C12.f  ranges: length byte <= 255 for the largest command; every literal payload byte in [0,255]; property commands:
         count byte = number of records of the same collection; record = LE16(id) ‖ len(value) ‖ value / LE16(id)
"""
from __future__ import annotations

import ast

from ..affine import Lin, lin
from ..ctor import init_attrs
from ..facts import call_is, meth_is, strip
from ..intervals import iv_of
from ..model import AnalysisError, norm
from ..reference import dallas_table, lua_crc_table, lua_keyb, lua_text
from ..seq import Byte, Const, Field, Layouts, Opaque, Zeros, explode, flatten, show_layout, total
from ..terms import is_const, show, subterms, summarize

CMD = "msmart.device.AC.command"
FRAME = "msmart.frame.Frame"
BASE = f"{CMD}.Command"
QUERY, CONTROL = 0x03, 0x02
# documented frame type per command class (vendor Lua: reads use BYTE_QUERYL_REQUEST, writes BYTE_CONTROL_REQUEST;
# the display toggle is a 0x41 "query" body, Lua l.2744 ff.)
FRAME_TYPES = {
    "GetCapabilitiesCommand": QUERY, "GetStateCommand": QUERY, "GetEnergyUsageCommand": QUERY, "GetHumidityCommand": QUERY,
    "ToggleDisplayCommand": QUERY, "GetPropertiesCommand": QUERY, "SetStateCommand": CONTROL, "SetPropertiesCommand": CONTROL,
}


def run(ctx):
    prog = ctx.prog
    L = Layouts(prog)
    ctx.explanation = ("byte-sequence layouts of Frame.tobytes / Command.tobytes / every command class derived from value-flow terms; "
                       "constructor attribute resolution; constant folding of the CRC table against the generating polynomial and the "
                       "vendor Lua; affine-mod reasoning on the message counter")
    ctx.trusted = ["vendor Lua table (lexical read)", "CPython ast"]
    # ---- C12.g serialising is repeatable: tobytes builds its frame in fresh buffers.  A buffer kept on the object and extended
    # in place (directly or through a local alias) makes the second tobytes() of the same command a different, malformed frame.
    ser = [f for f in prog.all_functions() if f.name == "tobytes" and f.cls is not None and (f.module.name in (CMD, "msmart.frame"))]
    impure = []
    for f in ser:
        if not f.params:
            continue
        recv = f.params[0]
        alias = set()
        for n in ast.walk(f.node):
            if isinstance(n, ast.Assign) and len(n.targets) == 1 and isinstance(n.targets[0], ast.Name) and isinstance(n.value, ast.Attribute) \
                    and isinstance(n.value.value, ast.Name) and n.value.value.id == recv:
                alias.add(n.targets[0].id)

        def held(x):
            return (isinstance(x, ast.Name) and x.id in alias) or (isinstance(x, ast.Attribute) and isinstance(x.value, ast.Name) and x.value.id == recv)
        for n in ast.walk(f.node):
            if isinstance(n, ast.AugAssign) and held(n.target):
                impure.append((f, n))
            elif isinstance(n, ast.Subscript) and isinstance(n.ctx, ast.Store) and held(n.value):
                impure.append((f, n))
            elif isinstance(n, ast.Call) and isinstance(n.func, ast.Attribute) and n.func.attr in ("append", "extend", "insert", "clear", "pop", "__iadd__") and held(n.func.value):
                impure.append((f, n))
    from ..shared import held_buffer_mutations
    for f in ser:
        if not any(g is f for g, _n in impure) and held_buffer_mutations(prog, f):
            impure.append((f, f.node))          # through helpers / conditional aliases (value-flow terms)
    for f, n in impure:
        ctx.ob("C12.g", f.qual, False, "", func=f.qual, file=f.module.rel, node=n,
               fail="tobytes mutates a buffer held by the object (in place / through an alias): serialising the same command again yields another frame")
    ctx.ob("C12.g", BASE, not impure, f"{len(ser)} tobytes implementations build their frames in fresh buffers (serialising twice gives the same bytes apart from the id)",
           func=BASE, file=prog.cls(BASE).module.rel, construct="tobytes purity", fail="a tobytes implementation mutates object state")
    if impure:
        return
    lua = lua_text(prog.root)
    keyb = lua_keyb(lua)
    ctx.ob("C12.ref", "reference", keyb.get("BYTE_PROTOCOL_HEAD") == 0xAA and keyb.get("BYTE_DEVICE_TYPE") == 0xAC
           and keyb.get("BYTE_CONTROL_REQUEST") == CONTROL and keyb.get("BYTE_QUERYL_REQUEST") == QUERY,
           "vendor constants: head 0xAA, device 0xAC, control 0x02, query 0x03 (Lua l.211-217)",
           fail="the vendor Lua in /repo/reference no longer states the constants the frame rules are pinned to")
    # ---------------------------------------------------------------- C12.a Frame.tobytes
    ft = ctx.fn(f"{FRAME}.tobytes")
    fs = summarize(prog, ft)
    frets = [(t, n) for _pc, t, n, _ in fs.returns if n is not None]
    if len(frets) != 1:
        raise AnalysisError("Frame.tobytes: expected a single return")
    lay = flatten(L.layout(frets[0][0]))
    ctx.sample({"Frame.tobytes": show_layout(lay)[:400]})
    ex = lay
    data_p = ft.params[1]
    # expected: Const aa, Byte(len), Byte(devtype), Const 00*5, Byte(version), Byte(frametype), Opaque param:data, Byte(checksum)
    shape = (len(lay) == 8 and isinstance(lay[0], Const) and lay[0].b == b"\xaa" and isinstance(lay[1], Byte) and isinstance(lay[2], Byte)
             and isinstance(lay[3], Const) and lay[3].b == bytes(5) and isinstance(lay[4], Byte) and isinstance(lay[5], Byte)
             and isinstance(lay[6], Opaque) and lay[6].label == f"param:{data_p}" and isinstance(lay[7], Byte))
    ctx.ob("C12.a", f"{FRAME}.tobytes", shape, "frame = AA ‖ len ‖ device ‖ 0×5 ‖ version ‖ type ‖ data ‖ checksum (10-byte header)",
           func=f"{FRAME}.tobytes", file=ft.module.rel, construct="frame layout", detail={"layout": show_layout(lay)[:300]},
           fail=f"frame layout is {show_layout(lay)[:200]}")
    if not shape:
        return
    ctx.count("frame_segments", len(lay))
    self_p = ft.params[0]
    declared = L.int_lin(lay[1].term)
    ctx.ob("C12.a", f"{FRAME}.tobytes", declared == total(lay) - Lin(1), f"length byte ({declared}) = frame length ({total(lay)}) − 1",
           func=f"{FRAME}.tobytes", file=ft.module.rel, construct=f"header[1] = {show(lay[1].term)[:60]}",
           fail=f"length byte {declared} is not the frame length {total(lay)} minus one")
    for idx, attr, what in ((2, "_device_type", "appliance type"), (4, "_protocol_version", "protocol version"), (5, "_frame_type", "frame type")):
        ctx.ob("C12.a", f"{FRAME}.tobytes", strip(lay[idx].term) == ("attr", ("param", self_p), attr), f"byte {[0, 1, 2, 0, 8, 9][idx]} carries self.{attr} ({what})",
               func=f"{FRAME}.tobytes", file=ft.module.rel, construct=f"header {what}", fail=f"{what} byte is `{show(lay[idx].term)[:60]}`, not self.{attr}")
    # checksum over frame[1:] (before append) == [1:-1] of the result
    ck = strip(lay[7].term)
    ck_ok = call_is(ck, f"{FRAME}.checksum") and len(ck[2]) >= 1
    if ck_ok:
        covered = flatten(L.layout(ck[2][-1]))
        want = flatten(L._slice(list(lay[:-1]), 1, None, ck))
        ck_ok = [s.key() for s in covered] == [s.key() for s in want]
    ctx.ob("C12.a", f"{FRAME}.tobytes", ck_ok, "checksum covers bytes [1:-1] of the emitted frame (what Frame.validate verifies)",
           func=f"{FRAME}.tobytes", file=ft.module.rel, construct="frame.append(Frame.checksum(frame[1:]))",
           fail="the appended checksum does not cover exactly bytes [1:-1] of the frame")
    cs = summarize(prog, ctx.fn(f"{FRAME}.checksum")).return_term()
    p = prog.func(f"{FRAME}.checksum").params[-1]
    twos = cs == ("bin", "&", ("bin", "+", ("un", "~", ("call", ("ext", "sum"), (("param", p),), ())), ("const", 1)), ("const", 255)) or \
        (cs[0] == "bin" and cs[1] == "&" and is_const(cs[3], 255) and lin(cs[2]) == Lin(0, {("call", ("ext", "sum"), (("param", p),), ()): -1}))
    ctx.ob("C12.a", f"{FRAME}.checksum", twos, "checksum = two's complement of the byte sum, masked to 8 bits", func=f"{FRAME}.checksum",
           file=ft.module.rel, construct="(~sum(frame) + 1) & 0xFF", detail={"term": show(cs)},
           fail=f"Frame.checksum computes `{show(cs)}`, not the 8-bit two's complement of the sum")

    # ---------------------------------------------------------------- C12.b Command.tobytes
    ct = ctx.fn(f"{BASE}.tobytes")
    cts = summarize(prog, ct)
    crets = [(t, n) for _pc, t, n, _ in cts.returns if n is not None]
    ok = len(crets) == 1 and call_is(crets[0][0], f"{FRAME}.tobytes")
    ctx.ob("C12.b", f"{BASE}.tobytes", ok, "Command.tobytes returns Frame.tobytes(payload)", func=f"{BASE}.tobytes", file=ct.module.rel,
           construct="return super().tobytes(...)", fail="Command.tobytes does not end in Frame.tobytes")
    if ok:
        body = flatten(L.layout(crets[0][0][2][-1]))
        dp = ct.params[1]
        nm_fn = prog.funcs.get(f"{BASE}._next_message_id")      # (a refactoring may have inlined the id producer into tobytes)
        tail = len(body) == 3 and isinstance(body[0], Opaque) and body[0].label == f"param:{dp}" and isinstance(body[1], Byte) \
            and (call_is(strip(body[1].term), f"{BASE}._next_message_id") or nm_fn is None) and isinstance(body[2], Byte) and call_is(strip(body[2].term), "msmart.crc8.calculate")
        inline_id_term = strip(body[1].term) if (tail and nm_fn is None) else None
        if tail:
            cov = flatten(L.layout(strip(body[2].term)[2][0]))
            tail = [s.key() for s in cov] == [s.key() for s in body[:2]]
        ctx.ob("C12.b", f"{BASE}.tobytes", tail, "body = data ‖ message id ‖ crc8(data ‖ message id)", func=f"{BASE}.tobytes", file=ct.module.rel,
               construct="body tail", detail={"body": show_layout(body)[:300]}, fail=f"body layout is {show_layout(body)[:200]}")
        from ..helpers import ancestor_chains
        id_sites = ancestor_chains(prog, ct, lambda f_, n: isinstance(n.func, ast.Attribute) and n.func.attr == "_next_message_id")      # (through helpers of tobytes)
        n_id = [n for _f, n, chains in id_sites for _ch in (chains or [[]])]
        in_loop = any(isinstance(x, (ast.For, ast.While)) for _f, _n, chains in id_sites for ch in chains for x, _fld in ch) or \
            any(isinstance(x, (ast.For, ast.While)) for x in ast.walk(ct.node))
        if nm_fn is None:
            n_id = [n for n in ast.walk(ct.node) if isinstance(n, (ast.AugAssign, ast.Assign)) and any(isinstance(x, ast.Attribute) and x.attr == "_message_id" and isinstance(x.ctx, ast.Store)
                                                                                                    for x in ast.walk(n))]
        ctx.ob("C12.b", f"{BASE}.tobytes", len(n_id) == 1 and not in_loop, "exactly one _next_message_id() per emitted command",
               func=f"{BASE}.tobytes", file=ct.module.rel, construct="_next_message_id() calls",
               fail=f"{len(n_id)} _next_message_id() calls per tobytes: ids do not advance by one per command")
    # ---------------------------------------------------------------- C12.d message id
    if prog.funcs.get(f"{BASE}._next_message_id") is not None:
        nm = ctx.fn(f"{BASE}._next_message_id")
        id_results = [(t, node, rst) for _pc, t, node, rst in summarize(prog, nm).returns if node is not None]
    else:
        # inlined: the id byte of the body and the counter store both live in Command.tobytes
        nm = ct
        id_results = [(inline_id_term, node, rst) for _pc, _t, node, rst in cts.returns if node is not None and ok and inline_id_term is not None]
        if not id_results:
            raise AnalysisError(f"{BASE}: no message id producer found (neither _next_message_id nor an inline counter in tobytes)")
    for t, node, rst in id_results:
        cnt_key = [k for k in rst.env if k.endswith("._message_id")]
        ok = False
        if cnt_key:
            newv = rst.env[cnt_key[0]]
            old = ("attr", ("global", BASE), "_message_id")
            init = prog.fold_or_none(prog.cls(BASE).attrs.get("_message_id"), prog.module(CMD), prog.cls(BASE))
            inc = lin(newv, {("const", init): Lin(0, {old: 1})}) if False else None
            # the counter term: either (attr Command._message_id + 1) or folded (const init + 1 -> const)
            # the counter is the one class attribute Command._message_id, shared by every command class: a counter reached through
            # `cls` / `self` / type(self) is a separate counter per subclass as soon as it is first incremented
            shared = cnt_key[0].split(".")[0] not in nm.params and isinstance(prog.resolve_name(nm.module, cnt_key[0].split(".")[0], nm.cls), type(prog.cls(BASE))) \
                and prog.resolve_name(nm.module, cnt_key[0].split(".")[0], nm.cls).qual == BASE
            step_ok = shared and (strip(newv) in (("bin", "+", old, ("const", 1)), ("bin", "+", ("const", 1), old),
                                                  ("bin", "+", ("const", init), ("const", 1)), ("bin", "+", ("const", 1), ("const", init)))
                                  or (is_const(newv) and isinstance(init, int) and newv[1] == init + 1))
            masked = t[0] == "bin" and t[1] == "&" and is_const(t[3]) and t[3][1] == 0xFF and (t[2] == newv) or \
                (t[0] == "bin" and t[1] == "%" and is_const(t[3], 256) and t[2] == newv)
            ok = step_ok and masked
            if not ok and shared:
                # the counter itself kept in 0..255: counter' = (counter + 1) & 0xFF and the id is counter' (the same ids, one step modulo 256)
                plus1 = (("bin", "+", old, ("const", 1)), ("bin", "+", ("const", 1), old))
                if isinstance(init, int):
                    plus1 += (("bin", "+", ("const", init), ("const", 1)), ("bin", "+", ("const", 1), ("const", init)), ("const", init + 1))

                def wrapped(x):
                    x = strip(x)
                    return x[0] == "bin" and ((x[1] == "&" and is_const(x[3], 0xFF)) or (x[1] == "%" and is_const(x[3], 256))) and strip(x[2]) in plus1
                ok = wrapped(newv) and (strip(t) == strip(newv) or wrapped(t) or
                                        (strip(t)[0] == "bin" and strip(strip(t)[2]) == strip(newv) and is_const(strip(t)[3]) and (strip(t)[1], strip(t)[3][1]) in (("&", 0xFF), ("%", 256))))
        ctx.ob("C12.d", f"{BASE}._next_message_id", ok, "counter' = counter + 1 and the emitted id is counter' & 0xFF (one step modulo 256, indefinitely)",
               func=f"{BASE}._next_message_id", file=nm.module.rel, node=node, detail={"returns": show(t), "counter": show(rst.env.get(cnt_key[0])) if cnt_key else None},
               fail="the message id does not advance by exactly one modulo 256 (step, mask or counter store changed)")
        ctx.count("id_returns")
    # one frame - one message id - per command sent: on the way from the public operations to LAN.send a command object is serialised exactly
    # once, by Device._send_command (a second tobytes() for a log line or a retry consumes an id: the next command skips one)
    dev = prog.cls("msmart.base_device.Device")
    fam = [dev] + [k for k in prog.subclasses(dev) if k is not dev]
    ser_sites = []
    for k in fam:
        for m in list(k.methods.values()):
            if len(m.params) < 1:
                continue
            names = set()
            if m.name.startswith("_send_command") and len(m.params) > 1:
                names.add(m.params[1])
            for n in ast.walk(m.node):
                if isinstance(n, ast.Call) and isinstance(n.func, ast.Attribute) and n.func.attr.startswith("_send_command") and n.args and isinstance(n.args[0], ast.Name):
                    names.add(n.args[0].id)
            for n in ast.walk(m.node):
                if isinstance(n, ast.Call) and isinstance(n.func, ast.Attribute) and n.func.attr == "tobytes" and not n.args and isinstance(n.func.value, ast.Name) \
                        and n.func.value.id in names:
                    ser_sites.append((m, n))
    # ... including the implicit ones: a property or a special method (__str__ / __repr__ / __bytes__ / __len__ / __format__ ...) of the command
    # classes that reaches tobytes() / _next_message_id() takes an id whenever the command is inspected; a use of the command on the send
    # chain that triggers one (attribute read, str()/repr()/format, a logging argument, an f-string field) is one more serialisation
    cbase = prog.cls(BASE)
    cfam = [cbase] + [k for k in prog.subclasses(cbase) if k is not cbase]
    consuming = {}
    changed_ = True
    while changed_:
        changed_ = False
        for k in cfam:
            for mm in k.methods.values():
                if mm.name in ("tobytes", "_next_message_id") or mm.name in consuming or not mm.params:
                    continue
                me = mm.params[0]
                for n in ast.walk(mm.node):
                    hit = None
                    if isinstance(n, ast.Attribute) and isinstance(n.value, ast.Name) and n.value.id == me and isinstance(n.ctx, ast.Load):
                        if n.attr in ("tobytes", "_next_message_id"):
                            hit = n.attr
                        elif n.attr in consuming and (consuming[n.attr].kind == "property" or True):
                            hit = n.attr
                    elif isinstance(n, ast.Call) and isinstance(n.func, ast.Name) and n.func.id in ("bytes", "str", "repr", "len", "format") and n.args \
                            and isinstance(n.args[0], ast.Name) and n.args[0].id == me and {"bytes": "__bytes__", "str": "__str__", "repr": "__repr__", "len": "__len__", "format": "__format__"}[n.func.id] in consuming:
                        hit = n.func.id
                    if hit:
                        consuming[mm.name] = mm
                        changed_ = True
                        break
    if "__repr__" in consuming and "__str__" not in consuming and not any("__str__" in k.methods for k in cfam):
        consuming["__str__"] = consuming["__repr__"]          # (str() falls back to __repr__)
    TEXT = [d_ for d_ in ("__str__", "__repr__", "__format__") if d_ in consuming]
    for k in fam:
        for m in list(k.methods.values()):
            if len(m.params) < 1 or not consuming:
                continue
            names = set()
            if m.name.startswith("_send_command") and len(m.params) > 1:
                names.add(m.params[1])
            for n in ast.walk(m.node):
                if isinstance(n, ast.Call) and isinstance(n.func, ast.Attribute) and n.func.attr.startswith("_send_command") and n.args and isinstance(n.args[0], ast.Name):
                    names.add(n.args[0].id)
            for n in ast.walk(m.node):
                if isinstance(n, ast.Attribute) and isinstance(n.value, ast.Name) and n.value.id in names and isinstance(n.ctx, ast.Load) \
                        and n.attr in consuming and n.attr != "tobytes":
                    ser_sites.append((m, n))
                elif TEXT and isinstance(n, ast.Call) and isinstance(n.func, ast.Name) and n.func.id in ("str", "repr", "format", "print") \
                        and any(isinstance(a_, ast.Name) and a_.id in names for a_ in n.args):
                    ser_sites.append((m, n))
                elif "__bytes__" in consuming and isinstance(n, ast.Call) and isinstance(n.func, ast.Name) and n.func.id == "bytes" \
                        and any(isinstance(a_, ast.Name) and a_.id in names for a_ in n.args):
                    ser_sites.append((m, n))
                elif "__len__" in consuming and isinstance(n, ast.Call) and isinstance(n.func, ast.Name) and n.func.id == "len" \
                        and any(isinstance(a_, ast.Name) and a_.id in names for a_ in n.args):
                    ser_sites.append((m, n))
                elif TEXT and isinstance(n, ast.Call) and isinstance(n.func, ast.Attribute) and n.func.attr in ("debug", "info", "warning", "error", "exception", "critical", "log", "format") \
                        and any(isinstance(a_, ast.Name) and a_.id in names for a_ in list(n.args[1:] if n.func.attr != "format" else n.args) + [kw_.value for kw_ in n.keywords]):
                    ser_sites.append((m, n))
                elif TEXT and isinstance(n, ast.FormattedValue) and isinstance(n.value, ast.Name) and n.value.id in names:
                    ser_sites.append((m, n))
                elif TEXT and isinstance(n, ast.BinOp) and isinstance(n.op, ast.Mod) and isinstance(n.left, ast.Constant) and isinstance(n.left.value, str) \
                        and any(isinstance(a_, ast.Name) and a_.id in names for a_ in ast.walk(n.right)):
                    ser_sites.append((m, n))
    ctx.count("id_consuming_accessors", len(consuming))
    ctx.count("serialisation_sites", len(ser_sites))
    extra = [(m, n) for m, n in ser_sites if m.qual != "msmart.base_device.Device._send_command"] or ser_sites[1:]
    implicit = bool(extra) and not (isinstance(extra[0][1], ast.Call) and isinstance(extra[0][1].func, ast.Attribute) and extra[0][1].func.attr == "tobytes")
    ctx.ob("C12.d", "msmart.base_device.Device._send_command", len(ser_sites) >= 1 and not extra,
           "a command handed to the send chain is serialised once (one message id per command on the wire)",
           func=extra[0][0].qual if extra else "msmart.base_device.Device._send_command", file=(extra[0][0] if extra else dev.methods["_send_command"]).module.rel,
           node=extra[0][1] if extra else None, construct="command.tobytes()",
           fail=(f"{extra[0][0].qual} serialises the command again (`{norm(extra[0][1])[:80]}`{' through ' + ', '.join(sorted(consuming)) if implicit else ''}): every tobytes() takes the next message id, so the ids seen by the "
                 "device no longer advance by one") if extra else "no serialisation of the command on the way to LAN.send was found")
    # ---------------------------------------------------------------- C12.c all command classes
    base = prog.cls(BASE)
    subs = [c for c in prog.subclasses(base) if c is not base]
    for c in sorted(subs, key=lambda k: k.name):
        ctx.count("command_classes")
        tb = c.methods.get("tobytes")
        attrs = init_attrs(prog, c)
        dt = attrs.get("_device_type")
        ctx.ob("C12.a", c.qual, dt is not None and dt[0] == "enum" and dt[3] == 0xAC, f"{c.name}: appliance type folds to 0xAC", func=c.qual,
               file=c.module.rel, construct=f"{c.name} device type", fail=f"{c.name}: appliance type is {show(dt) if dt else None}, not 0xAC")
        ftv = attrs.get("_frame_type")
        want = FRAME_TYPES.get(c.name)
        if want is None:
            ctx.assume(f"{c.name}: new command class without a documented frame type in the rule table (not checked)")
        else:
            ctx.ob("C12.c", c.qual, ftv is not None and ftv[0] == "enum" and ftv[3] == want, f"{c.name}: frame type = 0x{want:02X}", func=c.qual,
                   file=c.module.rel, construct=f"{c.name} frame type",
                   fail=f"{c.name}: frame type is {show(ftv) if ftv else None}, documented 0x{want:02X} ({'QUERY' if want == QUERY else 'CONTROL'})")
        pv = attrs.get("_protocol_version")
        ctx.ob("C12.a", c.qual, pv is not None and is_const(pv, 0), f"{c.name}: protocol version byte 0", func=c.qual, file=c.module.rel,
               construct=f"{c.name} protocol version", fail=f"{c.name}: protocol version byte is {show(pv) if pv else None}")
        if tb is None:
            continue
        ts = summarize(prog, tb)
        for _pc, t, node, _st in ts.returns:
            if node is None:
                ctx.ob("C12.c", tb.qual, False, "", func=tb.qual, file=tb.module.rel, construct="implicit return", fail=f"{c.name}.tobytes can fall off its end (returns None)")
                continue
            ctx.count("tobytes_returns")
            through = call_is(t, f"{BASE}.tobytes") and len(t[2]) == 2 and strip(t[2][0]) == ("param", tb.params[0])
            ctx.ob("C12.c", tb.qual, through, f"{c.name}.tobytes returns super().tobytes(payload) (id, CRC, header, checksum added by the base classes)",
                   func=tb.qual, file=tb.module.rel, node=node,
                   fail=f"{c.name}.tobytes bypasses Command.tobytes: its frames lack the message id / CRC-8 / framing")
            if not through:
                continue
            # ---- C12.f payload bytes and length
            try:
                pl = flatten(L.layout(t[2][1]))
            except AnalysisError as e:
                raise
            tl = total(pl)
            for sgm in pl:
                if isinstance(sgm, Byte):
                    tv = strip(sgm.term)
                    if is_const(tv) and isinstance(tv[1], int):
                        ctx.ob("C12.f", tb.qual, 0 <= tv[1] <= 255, f"literal payload byte {tv[1]} in range", func=tb.qual, file=tb.module.rel,
                               construct=f"payload byte {tv[1]}", fail=f"payload byte {tv[1]} is outside [0,255]: bytes([...]) raises ValueError")
            if tl.is_const():
                frame_len = int(tl.c) + 2 + 11
                ctx.ob("C12.f", tb.qual, frame_len - 1 <= 255, f"{c.name}: frame is {frame_len} bytes, length byte {frame_len - 1} <= 255", func=tb.qual,
                       file=tb.module.rel, construct=f"{c.name} frame length", fail=f"{c.name}: frame length {frame_len} overflows the length byte")
                ctx.sample({"command": c.name, "payload": show_layout(pl)[:200], "frame_bytes": frame_len})
    # property commands: record layout
    for cname, with_value in (("GetPropertiesCommand", False), ("SetPropertiesCommand", True)):
        tb = ctx.fn(f"{CMD}.{cname}.tobytes")
        ts = summarize(prog, tb)
        loops = [l for l in ast.walk(tb.node) if isinstance(l, ast.For) and l in ts.loops]
        acc_lay = coll = None
        recs = []            # layout of the record appended, one per way of reaching the next record
        if len(loops) == 1:
            # statement form: payload = prefix; for x in coll: payload += record
            info = ts.loops[loops[0]]
            acc = None
            for k, v in info["entry"].env.items():
                if k in ("<return>",) or "." in k:
                    continue
                try:
                    lv = flatten(L.layout(v))
                except AnalysisError:
                    continue
                if len(lv) == 2 and isinstance(lv[0], Const) and lv[0].b in (b"\xb0", b"\xb1") and isinstance(lv[1], Byte):
                    acc, acc_lay = k, lv
            if acc is not None:
                coll = strip(ts.ta.terms_at[loops[0].iter])
                lv0 = ("loopvar", acc, loops[0].lineno)
                for st in info["ends"] + info["continues"]:
                    v = st.env.get(acc)
                    rec = None
                    if v is not None:
                        parts = []

                        def cat(x):
                            x2 = x
                            if x2[0] == "bin" and x2[1] == "+":
                                cat(x2[2]), cat(x2[3])
                            elif x2[0] == "mut" and x2[1] == "extend" and len(x2[3]) == 1:
                                cat(x2[2]), cat(x2[3][0])          # buf.extend(x) is buf += x
                            elif x2[0] == "mut" and x2[1] == "append" and len(x2[3]) == 1:
                                cat(x2[2])                         # buf.append(b) is buf += bytes([b])
                                parts.append(("call", ("ext", "bytes"), (("list", (x2[3][0],)),), ()))
                            else:
                                parts.append(x2)
                        cat(v)
                        if parts and parts[0] == lv0:
                            rec = []
                            for ptm in parts[1:]:
                                rec += L.layout(ptm)
                            rec = flatten(rec)
                    recs.append(rec)
        elif not loops:
            # expression form: payload = prefix + b"".join(record for x in coll)
            rets = [t for _pc, t, node, _st in ts.returns if node is not None and call_is(t, f"{BASE}.tobytes") and len(t[2]) == 2]
            parts = []

            def cat2(x):
                x = strip(x) if x[0] != "call" else x
                if x[0] == "bin" and x[1] == "+":
                    cat2(x[2]), cat2(x[3])
                elif x[0] == "mut" and x[1] == "extend" and len(x[3]) == 1:
                    cat2(x[2]), cat2(x[3][0])
                else:
                    parts.append(x)
            if len(rets) == 1:
                cat2(rets[0][2][1])
            joins = [x for x in parts if x[0] == "call" and x[1][0] == "meth" and x[1][2] == "join" and x[1][1] == ("const", b"") and len(x[2]) == 1
                     and strip(x[2][0])[0] == "comp"]
            if len(joins) == 1 and parts[-1] is joins[0]:
                comp = strip(joins[0][2][0])
                gens = comp[3]
                if len(gens) == 1 and not gens[0][2]:
                    try:
                        pre = []
                        for ptm in parts[:-1]:
                            pre += L.layout(ptm)
                        acc_lay = flatten(pre)
                        recs.append(flatten(L.layout(comp[2])))
                        coll = strip(gens[0][1])
                    except AnalysisError:
                        acc_lay = None
        ok = acc_lay is not None or len(loops) == 1
        ctx.ob("C12.f", tb.qual, ok, f"{cname}: one record loop", func=tb.qual, file=tb.module.rel, construct="record loop", fail=f"{cname}: record loop not found")
        if not ok:
            continue
        ctx.count("property_commands")
        pre_ok = acc_lay is not None and len(acc_lay) == 2 and isinstance(acc_lay[0], Const) and acc_lay[0].b in (b"\xb0", b"\xb1") and isinstance(acc_lay[1], Byte)
        ctx.ob("C12.f", tb.qual, pre_ok, f"{cname}: payload starts with the id byte and a count byte", func=tb.qual, file=tb.module.rel,
               construct="payload prefix", fail=f"{cname}: payload prefix is not [0x{'B0' if with_value else 'B1'}, count]")
        if not pre_ok:
            continue
        want_id = b"\xb0" if with_value else b"\xb1"
        ctx.ob("C12.f", tb.qual, acc_lay[0].b == want_id, f"{cname}: request id 0x{want_id.hex().upper()}", func=tb.qual, file=tb.module.rel,
               construct="request id", fail=f"{cname}: request id is 0x{acc_lay[0].b.hex()}")
        if call_is(coll, "dict.items") or (coll[0] == "call" and coll[1][0] == "meth" and coll[1][2] == "items"):
            coll = strip(coll[1][1])
        cnt = strip(acc_lay[1].term)
        ctx.ob("C12.f", tb.qual, call_is(cnt, "len") and strip(cnt[2][0]) == coll, f"{cname}: count byte = len(<the iterated collection>)",
               func=tb.qual, file=tb.module.rel, construct="count byte", detail={"count": show(cnt), "iterates": show(coll)},
               fail=f"{cname}: count byte `{show(cnt)[:60]}` is not the number of records appended (`{show(coll)[:60]}`)")
        # record appended per iteration
        for rec in recs:
            good = rec is not None and len(rec) >= 1 and isinstance(rec[0], Field) and rec[0].n == Lin(2) and rec[0].order == "little" \
                and strip(rec[0].term)[0] in ("iter", "item", "bound")
            if good and with_value:
                good = len(rec) == 3 and isinstance(rec[1], Byte) and call_is(strip(rec[1].term), "len") and isinstance(rec[2], Opaque) \
                    and rec[2].keyterm is not None and strip(strip(rec[1].term)[2][0]) == strip(rec[2].keyterm) \
                    and strip(rec[2].keyterm)[0] == "call" and strip(rec[2].keyterm)[1][0] == "meth" and strip(rec[2].keyterm)[1][2] == "encode"
            elif good:
                good = len(rec) == 1
            ctx.ob("C12.f", tb.qual, bool(good), f"{cname}: record = LE16(id)" + (" ‖ len(value) ‖ value" if with_value else ""), func=tb.qual,
                   file=tb.module.rel, construct="record layout", detail={"record": show_layout(rec)[:200] if rec else None},
                   fail=f"{cname}: appended record is {show_layout(rec)[:120] if rec else 'not an append to the payload'}")
    # largest property command fits the length byte
    pid = prog.cls(f"{CMD}.PropertyId")
    n_ids = len(prog.enum_canonical(pid))
    enc = summarize(prog, ctx.fn(f"{CMD}.PropertyId.encode"))
    sizes = []
    for _pc, t, node, _st in enc.returns:
        if node is None:
            continue
        try:
            tl = total(flatten(L.layout(t)))
            sizes.append(int(tl.c) if tl.is_const() else 1)
        except AnalysisError:
            sizes.append(1)
    mx = max(sizes) if sizes else 13
    worst = 2 + n_ids * (2 + 1 + mx) + 2 + 11
    ctx.ob("C12.f", f"{CMD}.SetPropertiesCommand", worst - 1 <= 255, f"largest property write ({n_ids} ids × value ≤ {mx} bytes) is {worst} bytes: length byte fits",
           func=f"{CMD}.SetPropertiesCommand", file=pid.module.rel, construct="largest property command",
           fail=f"a property write with all {n_ids} ids is {worst} bytes: the one-byte length overflows")
    # ---------------------------------------------------------------- C12.e CRC
    crcmod = prog.module("msmart.crc8")
    tbl = prog.fold_or_none(prog.module_assigns(crcmod).get("_CRC8_854_TABLE"), crcmod)
    tbl = list(tbl) if isinstance(tbl, (tuple, list, bytes, bytearray)) else tbl          # (a literal or a table computed at import from constants; bytes hold the same entries)
    tbl = list(tbl) if isinstance(tbl, tuple) else tbl          # (a tuple holds the same table)
    ctx.ob("C12.e", "msmart.crc8", tbl == dallas_table(), "_CRC8_854_TABLE equals the table generated from the Dallas/Maxim polynomial (reflected 0x8C)",
           func="msmart.crc8", file=crcmod.rel, construct="_CRC8_854_TABLE", fail="_CRC8_854_TABLE differs from the CRC-8/MAXIM table")
    ctx.ob("C12.e", "msmart.crc8", tbl == lua_crc_table(lua), "_CRC8_854_TABLE equals crc8_854_table in the vendor Lua (l.869-888)", func="msmart.crc8",
           file=crcmod.rel, construct="_CRC8_854_TABLE vs Lua", fail="_CRC8_854_TABLE differs from the vendor's table")
    cf = ctx.fn("msmart.crc8.calculate")
    cfs = summarize(prog, cf)
    loops = [l for l in ast.walk(cf.node) if isinstance(l, ast.For) and l in cfs.loops]
    walk_ok = False
    if len(loops) == 1:
        info = cfs.loops[loops[0]]
        it = strip(cfs.ta.terms_at[loops[0].iter])
        for st in info["ends"]:
            for k, v in st.env.items():
                lv = ("loopvar", k, loops[0].lineno)
                m = ("iter", it) if True else None
                want = ("sub", ("const", tbl) if False else v[1] if v[0] == "sub" else None, None)
                if v[0] == "sub":
                    idx = v[2]
                    tab = v[1]
                    is_tab = (is_const(tab) and list(tab[1]) == tbl) or (tab[0] == "global" and tab[1].endswith("_CRC8_854_TABLE"))
                    xor_ok = idx[0] == "bin" and idx[1] == "&" and is_const(idx[3], 255) and idx[2][0] == "bin" and idx[2][1] == "^" \
                        and {idx[2][2], idx[2][3]} == {lv, ("iter", cfs.ta.terms_at[loops[0].iter])}
                    init0 = is_const(info["entry"].env.get(k), 0)
                    walk_ok = walk_ok or (is_tab and xor_ok and init0 and it == ("param", cf.params[0]))
        rets = [t for _pc, t, n, _ in cfs.returns if n is not None]
    if not walk_ok and not loops:
        # the same walk as a fold: functools.reduce(lambda crc, m: TABLE[(crc ^ m) & 0xFF], data, 0)
        for _pc, t, n, _st in cfs.returns:
            t = strip(t)
            if n is not None and call_is(t, "functools.reduce") and len(t[2]) == 3 and strip(t[2][0])[0] == "lambda" and len(strip(t[2][0])[1]) == 2:
                lam = strip(t[2][0])
                a_, m_ = (("bound", lam[1][0]), ("bound", lam[1][1]))
                body = strip(lam[2])
                if body[0] == "sub":
                    tab, idx = strip(body[1]), strip(body[2])
                    is_tab = (is_const(tab) and list(tab[1]) == tbl) or (tab[0] == "global" and tab[1].endswith("_CRC8_854_TABLE"))
                    xor_ok = idx[0] == "bin" and idx[1] == "&" and is_const(idx[3], 255) and strip(idx[2])[0] == "bin" and strip(idx[2])[1] == "^" \
                        and {strip(strip(idx[2])[2]), strip(strip(idx[2])[3])} == {a_, m_}
                    seq_ = strip(t[2][1])
                    while call_is(seq_, "iter", "list", "tuple") and len(seq_[2]) == 1:   # the same elements in the same order
                        seq_ = strip(seq_[2][0])
                    walk_ok = is_tab and xor_ok and seq_ == ("param", cf.params[0]) and is_const(strip(t[2][2]), 0)
    ctx.ob("C12.e", "msmart.crc8.calculate", walk_ok, "calculate() is crc = TABLE[(crc ^ byte) & 0xFF] over the data, starting from 0", func="msmart.crc8.calculate",
           file=crcmod.rel, construct="table walk", fail="crc8.calculate is not the standard table walk from 0 over every byte")
    from ..shared import check as shared_check
    cbase = prog.cls(f"{CMD}.Command")
    shared_check(ctx, "C12.g", [prog.cls(FRAME), cbase] + prog.subclasses(cbase), "the frame and command classes")
    ctx.require_min("frame_segments", 8)
    ctx.require_min("command_classes", 8)
    ctx.require_min("tobytes_returns", 8)
    ctx.require_min("property_commands", 2)
    ctx.require_min("id_returns", 1)
