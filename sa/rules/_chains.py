"""setter -> backing attribute -> apply -> SetStateCommand attribute, for the 16 settable states (shared by C01.a and C10.f)."""
from __future__ import annotations

import ast

from ..facts import call_is, strip
from ..model import AnalysisError, norm
from ..terms import is_const, show, subterms, summarize

AC = "msmart.device.AC.device.AirConditioner"
CMD = "msmart.device.AC.command"

# public property -> (backing attribute, command attribute(s), or_default default | None)
CHAINS = {
    "beep": ("_beep_on", "beep_on", None), "power_state": ("_power_state", "power_on", False),
    "target_temperature": ("_target_temperature", "target_temperature", 25), "operational_mode": ("_operational_mode", "operational_mode", None),
    "fan_speed": ("_fan_speed", "fan_speed", None), "swing_mode": ("_swing_mode", "swing_mode", None), "eco": ("_eco", "eco", False),
    "turbo": ("_turbo", "turbo", False), "freeze_protection": ("_freeze_protection", "freeze_protection", False), "sleep": ("_sleep", "sleep", False),
    "fahrenheit": ("_fahrenheit_unit", "fahrenheit", False), "follow_me": ("_follow_me", "follow_me", False), "purifier": ("_purifier", "purifier", False),
    "target_humidity": ("_target_humidity", "target_humidity", 40), "aux_mode": ("_aux_mode", ("aux_heat", "independent_aux_heat"), None),
}



def apply_chains(ctx, rule: str):
    prog = ctx.prog
    ac = prog.cls(AC)
    ap = ctx.fn(f"{AC}.apply")
    aps = summarize(prog, ap)
    sp = ap.params[0]
    # (the send itself may sit in a helper apply hands the command to)
    from ..helpers import ancestor_chains, term_lookup
    atl = term_lookup(prog, ap)

    def is_state_send(f_, n):
        t_ = atl(n)
        return t_ is not None and call_is(t_, f"{AC}._send_command_get_responses") and any(call_is(x, f"{CMD}.SetStateCommand") for x in subterms(t_))
    sites = ancestor_chains(prog, ap, is_state_send)
    send_calls = [(n, atl(n), chains) for _f, n, chains in sites]
    ctx.ob(rule, ap.qual, len(send_calls) == 1, "apply sends one SetStateCommand", func=ap.qual, file=ap.module.rel, construct="SetStateCommand send",
           fail=f"apply sends {len(send_calls)} SetStateCommands")
    if send_calls:
        node, t, chains_ = send_calls[0]
        stmt_state = None
        for sn, st in aps.ta.env_at.items():
            if isinstance(sn, ast.stmt) and not isinstance(sn, (ast.If, ast.Try, ast.While, ast.With)) and any(x is node for x in ast.walk(sn)):
                stmt_state = st
        if stmt_state is None:
            # the statement of apply through which the helper is reached
            for ch in chains_:
                for x, _fld in ch:
                    if isinstance(x, ast.stmt) and not isinstance(x, (ast.If, ast.Try, ast.While, ast.With, ast.For, ast.FunctionDef, ast.AsyncFunctionDef)) and x in aps.ta.env_at:
                        stmt_state = aps.ta.env_at[x]
        cmd_key = None
        for k, v in stmt_state.env.items():
            if "." not in k and call_is(strip(v), f"{CMD}.SetStateCommand"):
                cmd_key = k
        ctx.ob(rule, ap.qual, cmd_key is not None and strip(t[2][-1]) == strip(stmt_state.env[cmd_key]), "the command sent is the SetStateCommand that was filled in",
               func=ap.qual, file=ap.module.rel, node=node, fail="the command that is sent is not the one whose attributes were filled from the device state")

        def or_default_ok(v, attr, default):
            v = strip(v)
            if default is None:
                return v == ("attr", ("param", sp), attr)
            src = ("attr", ("param", sp), attr)
            if v[0] == "ite" and strip(v[1])[0] == "cmp" and strip(v[1])[1] in ("is", "is not") and strip(strip(v[1])[2]) == src and strip(v[1])[3] == ("const", None):
                # `default if x is None else x` / `x if x is not None else default` (e.g. an or_default helper seen through)
                th, el = (strip(v[2]), strip(v[3])) if strip(v[1])[1] == "is" else (strip(v[3]), strip(v[2]))
                return is_const(th) and th[1] == default and type(th[1]) is type(default) and el == src
            if v[0] == "bool" and v[1] == "or" and len(v[2]) == 2 and strip(v[2][0]) == src and is_const(strip(v[2][1])) and strip(v[2][1])[1] == default \
                    and type(strip(v[2][1])[1]) is type(default) and not default:
                return True          # `x or False`: the only values it changes (None, False) become the falsy default itself
            return v[0] == "call" and v[1][0] == "dyn" and v[1][1][0] == "localfunc" and v[1][1][1] == "or_default" and strip(v[2][0]) == ("attr", ("param", sp), attr) \
                and is_const(v[2][1]) and v[2][1][1] == default
        for prop, (attr, cattr, default) in CHAINS.items():
            ctx.count("apply_chains")
            # setter -> backing attribute
            st = prog.setters.get(f"{AC}.{prop}")
            s_ok = False
            if st is not None:
                ss = summarize(prog, st)
                for _pc, _t, _n, rst in ss.returns:
                    v = rst.env.get(f"{st.params[0]}.{attr}")
                    if v is None:
                        continue
                    vv = strip(v)
                    s_ok = vv == ("param", st.params[1]) or (vv[0] == "ite" and call_is(strip(vv[1]), "isinstance") and call_is(strip(vv[2]), "int") and strip(vv[3]) == ("param", st.params[1]))
            ctx.ob(rule, f"{AC}.{prop}", s_ok, f"setter `{prop}` stores the given value in self.{attr}", func=f"{AC}.{prop}", file=ac.module.rel, construct=f"{prop}.setter",
                   fail=f"the `{prop}` setter does not store its argument in self.{attr}")
            # ... and in no other field of the requested state: a setter that also resets a sibling setting makes two requested states send one body
            if st is not None:
                chain_attrs = {a_ for a_, _c, _d in CHAINS.values()}
                others = sorted({k.split(".", 1)[1] for _pc, _t, _n, rst in ss.returns for k, v_ in rst.env.items()
                                 if k.startswith(st.params[0] + ".") and k.split(".", 1)[1] in chain_attrs and k.split(".", 1)[1] != attr
                                 and strip(v_) != ("attr", ("param", st.params[0]), k.split(".", 1)[1])})
                ctx.ob(rule, f"{AC}.{prop}", not others, f"setter `{prop}` leaves the other requested settings alone", func=f"{AC}.{prop}", file=ac.module.rel,
                       construct=f"{prop}.setter", fail=f"the `{prop}` setter also writes self.{', self.'.join(others)}: a state requested with both settings goes out as another state")
            if isinstance(cattr, tuple):
                a = stmt_state.env.get(f"{cmd_key}.{cattr[0]}") if cmd_key else None
                b = stmt_state.env.get(f"{cmd_key}.{cattr[1]}") if cmd_key else None
                ok = a is not None and b is not None and strip(a)[0] == "cmp" and strip(a)[1] == "==" and strip(strip(a)[2]) == ("attr", ("param", sp), attr) and strip(a)[3][0] == "enum" \
                    and strip(a)[3][2] == "AUX_HEAT" and strip(b)[0] == "cmp" and strip(b)[1] == "==" and strip(strip(b)[2]) == ("attr", ("param", sp), attr) and strip(b)[3][2] == "AUX_ONLY"
                ctx.ob(rule, ap.qual, ok, "aux mode -> (aux_heat = mode == AUX_HEAT, independent_aux_heat = mode == AUX_ONLY)", func=ap.qual, file=ap.module.rel,
                       construct="cmd.aux_heat / cmd.independent_aux_heat", fail="the aux-heat mode is not split into the two command flags as AUX_HEAT / AUX_ONLY")
            else:
                v = stmt_state.env.get(f"{cmd_key}.{cattr}") if cmd_key else None
                ok = v is not None and or_default_ok(v, attr, default)
                ctx.ob(rule, ap.qual, ok, f"cmd.{cattr} = self.{attr}" + (f" (or {default!r} when unknown)" if default is not None else ""), func=ap.qual, file=ap.module.rel,
                       construct=f"cmd.{cattr}", detail={"value": show(v)[:100] if v else None},
                       fail=f"cmd.{cattr} receives `{show(v)[:80] if v else 'nothing'}` instead of self.{attr}")
        od = [n for n in ast.walk(ap.node) if isinstance(n, ast.FunctionDef) and n.name == "or_default"]
        uses_local = any(x[0] == "localfunc" and x[1] == "or_default" for k, v in stmt_state.env.items() if cmd_key and k.startswith(cmd_key + ".") for x in subterms(v))
        od_ok = (not uses_local and not od) or len(od) == 1 and len(od[0].body) == 1 and isinstance(od[0].body[0], ast.Return) and \
            norm(od[0].body[0].value) == f"{od[0].args.args[0].arg} if {od[0].args.args[0].arg} is not None else {od[0].args.args[1].arg}"
        ctx.ob(rule, ap.qual, od_ok, "or_default(v, d) returns v unless v is None", func=ap.qual, file=ap.module.rel, construct="or_default", fail="or_default no longer passes known values through unchanged")


def transparent_deprecated(ctx, rule: str):
    """`@deprecated(..)` aliases (eco_mode, turbo_mode, ...) are the setting itself under an old name: the wrapper the decorator installs calls
    the wrapped function with the caller's arguments on every path and returns what it returned - a wrapper that forwards only the first
    call, or drops the return value while it warns, makes the alias read None / ignore assignments."""
    import ast
    from ..absint import EventAnalysis, run_events
    from ..model import FuncInfo, norm
    prog = ctx.prog
    dep = prog.funcs.get("msmart.utils.deprecated")
    if dep is None:
        return
    ctx.fn(dep.qual)
    # the innermost nested function: the one that receives (*args, **kwargs)
    inner = [n for n in ast.walk(dep.node) if isinstance(n, (ast.FunctionDef, ast.AsyncFunctionDef)) and n is not dep.node and n.args.vararg is not None and n.args.kwarg is not None]
    if len(inner) != 1:
        raise AnalysisError(f"{dep.qual}: the wrapper taking (*args, **kwargs) was not found")
    w = inner[0]
    outer = next((n for n in ast.walk(dep.node) if isinstance(n, (ast.FunctionDef, ast.AsyncFunctionDef)) and n is not dep.node and w in ast.walk(n) and n is not w), None)
    fname = outer.args.args[0].arg if outer is not None and outer.args.args else None

    def fwd(c):
        return isinstance(c, ast.Call) and isinstance(c.func, ast.Name) and c.func.id == fname and len(c.args) == 1 and isinstance(c.args[0], ast.Starred) \
            and isinstance(c.args[0].value, ast.Name) and c.args[0].value.id == w.args.vararg.arg and len(c.keywords) == 1 and c.keywords[0].arg is None \
            and isinstance(c.keywords[0].value, ast.Name) and c.keywords[0].value.id == w.args.kwarg.arg
    wi = FuncInfo(name=w.name, qual=f"{dep.qual}.<locals>.{w.name}", module=dep.module, node=w, cls=None, kind="function")

    def on_stmt(node, st):
        if isinstance(node, (ast.If, ast.While, ast.For, ast.Try, ast.With)):
            return []
        return ["forwarded"] if any(fwd(c) for c in ast.walk(node)) else []
    ea = EventAnalysis(must=True, on_stmt=on_stmt)
    comp = run_events(prog, wi, ea)
    held = {t.id for a in ast.walk(w) if isinstance(a, ast.Assign) and fwd(a.value) for t in a.targets if isinstance(t, ast.Name)}
    ok = bool(comp.returns) and not comp.normal
    for st, node in comp.returns:
        v = getattr(node, "value", None) if node is not None else None
        ok = ok and node is not None and "forwarded" in st and (fwd(v) or (isinstance(v, ast.Name) and v.id in held))
    ctx.ob(rule, dep.qual, ok, "the deprecated-alias wrapper forwards every call and returns the wrapped function's result", func=dep.qual, file=dep.module.rel,
           construct="return func(*args, **kwargs)",
           fail="the @deprecated wrapper does not forward every call / return the result on every path: a deprecated alias (eco_mode, turbo_mode, sleep_mode, "
                "freeze_protection_mode) reads None or ignores an assignment")
